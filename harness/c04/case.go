// Package c04 decides property C04 (Once handlers): sequential histories
// against a model, and free-running concurrent publishers under -race.
package c04

import (
	"context"
	"fmt"
	"runtime"
	"sync"
	"sync/atomic"
	"time"

	eventbus "github.com/jilio/ebu"
	"verif/busmodel"
	"verif/vkit"
)

type EvA struct{ ID int }
type EvB struct{ ID int }
type EvC struct{ ID int } // never subscribed

// H describes one handler registration.
type H struct {
	T      int    `json:"t"` // 0 = EvA, 1 = EvB
	Once   bool   `json:"once,omitempty"`
	Ctx    bool   `json:"ctx,omitempty"`
	Async  bool   `json:"async,omitempty"`
	Seq    bool   `json:"seq,omitempty"`
	Filter string `json:"filter,omitempty"` // "", all, none, even, odd
	// Arms > 0 (Once handlers, sequential histories only): while it runs the
	// handler subscribes a new registration of handler Arms-1 - a one-shot
	// handler arming its successor from inside the publish that fires it.
	Arms int `json:"arms,omitempty"`
	// Cancels (synchronous, not Once; sequential histories without any
	// asynchronous handler): when it handles an event published with a
	// context of its own (Step.UseCtx) it cancels that context, so the
	// handlers after it in subscription order are skipped for this publish.
	Cancels bool `json:"cancels,omitempty"`
	// Panics: the handler panics after it has recorded the call.  The bus
	// contains the panic; a Once handler that ran - panicking or not - has
	// fired and is retired.
	Panics bool `json:"panics,omitempty"`
	// Quits 1..4 (Once, not Ctx; sequential histories): while it runs the
	// handler unsubscribes itself.  Every quitting handler of a case has a
	// function of its own (slot Quits of its type), so the call can only hit
	// its own registration: a Once handler that has fired is retired with or
	// without it, and every other registration is left alone.
	Quits int `json:"quits,omitempty"`
}

// Step of a sequential history.
type Step struct {
	K         string `json:"k"`           // sub pub count
	H         int    `json:"h,omitempty"` // sub: index into Handlers
	T         int    `json:"t,omitempty"` // pub/count: 0,1,2
	ID        int    `json:"id,omitempty"`
	Cancelled bool   `json:"cancelled,omitempty"` // publish with an already-cancelled context
	UseCtx    bool   `json:"usectx,omitempty"`    // PublishContext with a live context
	Any       bool   `json:"any,omitempty"`       // published through the static type any (Publish[any])
}

type SeqCase struct {
	Handlers []H    `json:"handlers"`
	Steps    []Step `json:"steps"`
	Ambient  int    `json:"ambient,omitempty"`
	// SharedOpts: one Once()/Async()/Sequential() value reused for every
	// subscription of the case instead of a fresh one per Subscribe call.
	SharedOpts bool `json:"shared_opts,omitempty"`
	// DetachObs: an Observability is installed whose OnPublishStart returns a
	// context detached from the caller's cancellation (context.WithoutCancel:
	// spans that outlive the request).  The interface hands that context to
	// the handlers, so two consistent readings exist - the bus follows the
	// returned context (a cancelled caller context then skips nothing) or it
	// keeps honouring the caller's context - and either is accepted, for the
	// whole history.  What is not: a Once handler claimed under one reading
	// and skipped under the other.
	DetachObs bool `json:"detach_obs,omitempty"`
}

// detachObs returns contexts that no longer follow the caller's cancellation.
type detachObs struct{}

func (detachObs) OnPublishStart(ctx context.Context, _ string, _ any) context.Context {
	return context.WithoutCancel(ctx)
}
func (detachObs) OnPublishComplete(context.Context, string) {}
func (detachObs) OnHandlerStart(ctx context.Context, _ string, _ bool) context.Context {
	return ctx
}
func (detachObs) OnHandlerComplete(context.Context, time.Duration, error) {}
func (detachObs) OnPersistStart(ctx context.Context, _ string, _ int64) context.Context {
	return ctx
}
func (detachObs) OnPersistComplete(context.Context, time.Duration, error) {}

func accepts(f string, id int) bool {
	switch f {
	case "none":
		return false
	case "even":
		return id%2 == 0
	case "odd":
		return id%2 != 0
	}
	return true
}

func filterOpt[T any](f string, id func(T) int) []eventbus.SubscribeOption {
	if f == "" {
		return nil
	}
	return []eventbus.SubscribeOption{eventbus.WithFilter(func(e T) bool { return accepts(f, id(e)) })}
}

type calls struct {
	armErr error
	mu     sync.Mutex
	n      []int   // per handler
	ev     [][]int // per handler: event ids seen
}

// armed runs the arming callback after recording the call.
type armed struct {
	*calls
	arm     func()
	quit    func()
	cancels bool
	panics  bool
}

func (a *armed) hit(h, id int) {
	a.calls.hit(h, id)
	if a.cancels {
		if f, ok := pubCancels.Load(id); ok {
			f.(context.CancelFunc)()
		}
	}
	if a.quit != nil {
		a.quit()
	}
	if a.arm != nil {
		a.arm()
	}
	if a.panics {
		panic(fmt.Sprintf("handler %d fails on event %d", h, id))
	}
}

func (c *calls) hit(h, id int) {
	concProgress.Add(1)
	c.mu.Lock()
	c.n[h]++
	c.ev[h] = append(c.ev[h], id)
	c.mu.Unlock()
}

func subscribe(bus *eventbus.EventBus, src *busmodel.OptSource, h H, idx int, c0 *calls, arm ...func()) error {
	c := &armed{calls: c0, cancels: h.Cancels && !h.Once && !h.Async, panics: h.Panics}
	if len(arm) > 0 {
		c.arm = arm[0]
	}
	var opts []eventbus.SubscribeOption
	if h.Once {
		opts = append(opts, src.Once())
	}
	if h.Async {
		opts = append(opts, src.Async())
	}
	if h.Seq {
		opts = append(opts, src.Sequential())
	}
	opts = busmodel.Arrange(opts, idx%2 == 1) // odd handlers pass their options in reverse order
	if h.Quits > 0 && h.Once && !h.Ctx {
		if h.T == 0 {
			opts = append(opts, filterOpt(h.Filter, func(e EvA) int { return e.ID })...)
			var fn func(EvA)
			switch h.Quits {
			case 1:
				fn = func(e EvA) { c.hit(idx, e.ID) }
			case 2:
				fn = func(e EvA) { c.hit(idx, e.ID) }
			case 3:
				fn = func(e EvA) { c.hit(idx, e.ID) }
			default:
				fn = func(e EvA) { c.hit(idx, e.ID) }
			}
			c.quit = func() { eventbus.Unsubscribe[EvA](bus, fn) }
			return eventbus.Subscribe(bus, fn, opts...)
		}
		opts = append(opts, filterOpt(h.Filter, func(e EvB) int { return e.ID })...)
		var fn func(EvB)
		switch h.Quits {
		case 1:
			fn = func(e EvB) { c.hit(idx, e.ID) }
		case 2:
			fn = func(e EvB) { c.hit(idx, e.ID) }
		case 3:
			fn = func(e EvB) { c.hit(idx, e.ID) }
		default:
			fn = func(e EvB) { c.hit(idx, e.ID) }
		}
		c.quit = func() { eventbus.Unsubscribe[EvB](bus, fn) }
		return eventbus.Subscribe(bus, fn, opts...)
	}
	if h.T == 0 {
		opts = append(opts, filterOpt(h.Filter, func(e EvA) int { return e.ID })...)
		if h.Ctx {
			return eventbus.SubscribeContext(bus, func(_ context.Context, e EvA) { c.hit(idx, e.ID) }, opts...)
		}
		return eventbus.Subscribe(bus, func(e EvA) { c.hit(idx, e.ID) }, opts...)
	}
	opts = append(opts, filterOpt(h.Filter, func(e EvB) int { return e.ID })...)
	if h.Ctx {
		return eventbus.SubscribeContext(bus, func(_ context.Context, e EvB) { c.hit(idx, e.ID) }, opts...)
	}
	return eventbus.Subscribe(bus, func(e EvB) { c.hit(idx, e.ID) }, opts...)
}

var cancelledCtx = func() context.Context {
	c, cancel := context.WithCancel(context.Background())
	cancel()
	return c
}()

// expiredCtx ended by its deadline (Err() is DeadlineExceeded, not Canceled).
var expiredCtx = func() context.Context {
	c, cancel := context.WithDeadline(context.Background(), time.Unix(1, 0))
	_ = cancel
	return c
}()

type vkey struct{}

// pubCancels: event id -> cancel function of the context it was published
// with (UseCtx publishes), for handlers that cancel it mid-dispatch.
var pubCancels sync.Map

func publish(bus *eventbus.EventBus, t, id int, cancelled, useCtx bool, viaAny ...bool) {
	var ctx context.Context
	switch {
	case cancelled && id%2 == 1:
		// ended by a deadline instead of a cancel call: just as dead
		ctx = expiredCtx
	case cancelled:
		ctx = cancelledCtx
	case useCtx:
		var cancel context.CancelFunc
		ctx, cancel = context.WithCancel(context.WithValue(context.Background(), vkey{}, id))
		// never cancelled by the publisher: asynchronous handlers may still
		// be waiting to run when Publish returns
		pubCancels.Store(id, cancel)
	}
	if len(viaAny) > 0 && viaAny[0] {
		var ev any
		switch t {
		case 0:
			ev = EvA{id}
		case 1:
			ev = EvB{id}
		default:
			ev = EvC{id}
		}
		if ctx == nil {
			eventbus.Publish(bus, ev)
		} else {
			eventbus.PublishContext(bus, ctx, ev)
		}
		return
	}
	switch t {
	case 0:
		if ctx == nil {
			eventbus.Publish(bus, EvA{id})
		} else {
			eventbus.PublishContext(bus, ctx, EvA{id})
		}
	case 1:
		if ctx == nil {
			eventbus.Publish(bus, EvB{id})
		} else {
			eventbus.PublishContext(bus, ctx, EvB{id})
		}
	default:
		if ctx == nil {
			eventbus.Publish(bus, EvC{id})
		} else {
			eventbus.PublishContext(bus, ctx, EvC{id})
		}
	}
}

func count(bus *eventbus.EventBus, t int) (int, bool) {
	switch t {
	case 0:
		return eventbus.HandlerCount[EvA](bus), eventbus.HasHandlers[EvA](bus)
	case 1:
		return eventbus.HandlerCount[EvB](bus), eventbus.HasHandlers[EvB](bus)
	}
	return eventbus.HandlerCount[EvC](bus), eventbus.HasHandlers[EvC](bus)
}

// RunSeq: sequential history against the model.
func RunSeq(c *SeqCase) *vkit.Outcome {
	// a sequential history waits for nothing but its own (trivial) handlers:
	// one that is still running after 20 s - twice - is stuck inside the bus
	var res *vkit.Outcome
	if timedOut, _ := vkit.Watchdog(20*time.Second, func() { res = runSeqBoth(c) }); !timedOut {
		return res
	}
	again, dump := vkit.Watchdog(20*time.Second, func() { res = runSeqBoth(c) })
	if !again {
		res.Class("slow_first_run_not_reproduced")
		return res
	}
	if len(dump) > 6000 {
		dump = dump[:6000]
	}
	o := &vkit.Outcome{}
	o.Failf("", "a single-goroutine history of subscribes and publishes (handlers only record calls, subscribe, unsubscribe or panic) did not finish within 20 s, twice: a Publish or Wait never returned. Handlers %+v steps %+v; goroutines:\n%s", c.Handlers, c.Steps, dump)
	return o
}

func runSeqBoth(c *SeqCase) *vkit.Outcome {
	if !c.DetachObs {
		return runSeq(c, true)
	}
	// the bus follows the detached context ...
	followed := runSeq(c, false)
	if len(followed.Viol) == 0 {
		followed.Class("detaching_observability_bus_follows_the_returned_context")
		return followed
	}
	// ... or keeps honouring the caller's
	honoured := runSeq(c, true)
	if len(honoured.Viol) == 0 {
		honoured.Class("detaching_observability_bus_honours_the_caller_context")
		return honoured
	}
	followed.Viol[0].Msg = "with an Observability that detaches the publish context from the caller's cancellation, the history matches neither reading. If the bus follows the returned context: " + followed.Viol[0].Msg + " | If it honours the caller's context: " + honoured.Viol[0].Msg
	return followed
}

// runSeq runs the history; honourCancel says whether a cancelled caller
// context is expected to stop deliveries (always, unless DetachObs).
func runSeq(c *SeqCase, honourCancel bool) *vkit.Outcome {
	o := &vkit.Outcome{}
	opts := busmodel.Ambient(c.Ambient)
	if c.DetachObs {
		opts = append(busmodel.Ambient(c.Ambient&^busmodel.AmbObs), eventbus.WithObservability(detachObs{}))
	}
	bus := eventbus.New(opts...)
	src := busmodel.NewOptSource(c.SharedOpts)
	cl := &calls{n: make([]int, len(c.Handlers)), ev: make([][]int, len(c.Handlers))}
	type mreg struct {
		h     int
		fired bool
	}
	regs := map[int][]*mreg{} // type -> registrations in order
	want := make([][]int, len(c.Handlers))
	sawIneligible := map[int]bool{} // once handler h skipped (filter/cancelled) while subscribed
	// armFor: what handler hi does while it runs, besides recording the call
	var armFor func(hi int) func()
	armFor = func(hi int) func() {
		h := c.Handlers[hi]
		if !h.Once || h.Arms <= 0 || h.Arms > len(c.Handlers) {
			return nil
		}
		a := h.Arms - 1
		return func() {
			if err := subscribe(bus, src, c.Handlers[a], a, cl, armFor(a)); err != nil {
				cl.mu.Lock()
				cl.armErr = err
				cl.mu.Unlock()
			}
		}
	}
	armedAny, midCancel := false, false
	quitFired, quitTogether := 0, false
	for si, s := range c.Steps {
		switch s.K {
		case "sub":
			h := c.Handlers[s.H]
			if err := subscribe(bus, src, h, s.H, cl, armFor(s.H)); err != nil {
				o.Failf("", "step %d: subscribe: %v", si, err)
				return o
			}
			regs[h.T] = append(regs[h.T], &mreg{h: s.H})
		case "pub":
			publish(bus, s.T, s.ID, s.Cancelled, s.UseCtx, s.Any)
			bus.Wait()
			var keep []*mreg
			onceNow, quitNow := 0, 0
			var newRegs []int     // handlers armed by Once handlers fired in this publish
			cancelledNow := false // the publish context was cancelled by a handler of this publish
			for _, r := range regs[s.T] {
				h := c.Handlers[r.h]
				if (honourCancel && (s.Cancelled || cancelledNow)) || !accepts(h.Filter, s.ID) {
					if h.Once {
						sawIneligible[r.h] = true
					}
					keep = append(keep, r)
					continue
				}
				want[r.h] = append(want[r.h], s.ID)
				if h.Cancels && !h.Once && !h.Async && s.UseCtx {
					cancelledNow = true
					midCancel = true
				}
				if h.Once {
					if sawIneligible[r.h] {
						o.Nontrivial = true
					}
					if h.Arms > 0 && h.Arms <= len(c.Handlers) {
						newRegs = append(newRegs, h.Arms-1)
					}
					onceNow++
					if h.Quits > 0 && !h.Ctx {
						quitNow++
					}
					continue // consumed
				}
				keep = append(keep, r)
			}
			regs[s.T] = keep
			quitFired += quitNow
			if quitNow > 0 && onceNow >= 2 {
				quitTogether = true
			}
			// registrations made from inside this publish do not receive it
			for _, a := range newRegs {
				regs[c.Handlers[a].T] = append(regs[c.Handlers[a].T], &mreg{h: a})
				armedAny = true
			}
		}
		// after every step: calls and counts agree with the model
		for hi := range c.Handlers {
			cl.mu.Lock()
			got := append([]int{}, cl.ev[hi]...)
			cl.mu.Unlock()
			if fmt.Sprint(got) != fmt.Sprint(want[hi]) {
				kind := "handler"
				if c.Handlers[hi].Once {
					kind = "Once handler"
				}
				sig := ""
				if s.K == "pub" && s.Cancelled && c.Handlers[hi].Once {
					sig = "once-consumed-by-cancelled-publish"
				}
				o.Failf(sig, "after step %d %+v: %s %d %+v received events %v, model %v", si, s, kind, hi, c.Handlers[hi], got, want[hi])
				return o
			}
		}
		for t := 0; t < 3; t++ {
			n, has := count(bus, t)
			if n != len(regs[t]) || has != (len(regs[t]) > 0) {
				sig := ""
				if s.K == "pub" && s.Cancelled {
					sig = "once-consumed-by-cancelled-publish"
				}
				o.Failf(sig, "after step %d %+v: HandlerCount(type %d) = %d, HasHandlers = %v; model has %d registrations", si, s, t, n, has, len(regs[t]))
				return o
			}
		}
	}
	if o.Nontrivial {
		o.Class("ineligible_publish_before_eligible_one")
	}
	if armedAny {
		o.Class("once_handler_subscribed_its_successor_while_running")
	}
	if quitFired >= 1 {
		o.Class("once_handler_unsubscribed_itself_while_running")
	}
	if quitTogether {
		o.Class("self_unsubscribing_once_handler_fired_with_another_once_handler_by_one_publish")
	}
	if midCancel {
		o.Class("publish_context_cancelled_by_a_handler_during_dispatch")
	}
	if cl.armErr != nil {
		o.Failf("", "Subscribe from inside a Once handler failed: %v", cl.armErr)
	}
	return o
}

// ---------------------------------------------------------------------------
// concurrent publishers

type Pub struct {
	T         int  `json:"t"`
	ID        int  `json:"id"`
	Cancelled bool `json:"cancelled,omitempty"`
	UseCtx    bool `json:"usectx,omitempty"`
	Any       bool `json:"any,omitempty"` // published through the static type any
}

type ConcCase struct {
	Handlers   []H     `json:"handlers"` // all subscribed up front
	Publishers [][]Pub `json:"publishers"`
	Procs      int     `json:"procs"`
	Rounds     int     `json:"rounds"`
	Yield      []int   `json:"yield,omitempty"` // per publisher: Gosched calls before each publish
	Ambient    int     `json:"ambient,omitempty"`
	SharedOpts bool    `json:"shared_opts,omitempty"`
	// Late > 0: while the publishers run, another goroutine subscribes Late
	// Once handlers for a fourth event type that nobody publishes during the
	// run.  After quiescence one event of that type is published: every one
	// of them runs exactly once and none stays subscribed - events of other
	// types must not have used them up.
	Late int `json:"late,omitempty"`
	// Readers > 0: that many goroutines poll HandlerCount / HasHandlers of
	// the published types for as long as the publishers run (a metrics
	// scraper).  Reading the registry must not change what it holds.
	Readers int `json:"readers,omitempty"`
}

// EvD is only published after the concurrent phase (see ConcCase.Late).
type EvD struct{ ID int }

// concProgress counts handler invocations of the running concurrent case (for
// the stall oracle: handlers are trivial, so a case that neither finishes nor
// records an invocation for 40 s is stuck in the bus).
var concProgress atomic.Int64

func RunConc(c *ConcCase) *vkit.Outcome {
	if c.Procs > 0 {
		defer runtime.GOMAXPROCS(runtime.GOMAXPROCS(c.Procs))
	}
	return vkit.StallOracle(func() *vkit.Outcome { return runConc(c) },
		func() (int64, bool) { return concProgress.Load(), true }, 40,
		func() string {
			return fmt.Sprintf("%+v: concurrent publishers against Once handlers: the round does not finish (Publish or Wait blocked; handlers are trivial)", *c)
		})
}

func runConc(c *ConcCase) *vkit.Outcome {
	o := &vkit.Outcome{}
	eligible := make([]int, len(c.Handlers)) // number of eligible publishes per handler
	for hi, h := range c.Handlers {
		for _, ps := range c.Publishers {
			for _, p := range ps {
				if p.T == h.T && !p.Cancelled && accepts(h.Filter, p.ID) {
					eligible[hi]++
				}
			}
		}
	}
	conc := 0
	for hi, h := range c.Handlers {
		if h.Once && eligible[hi] >= 2 && len(c.Publishers) >= 2 {
			conc++
		}
	}
	o.Nontrivial = conc > 0
	if o.Nontrivial {
		o.Class("two_or_more_concurrent_eligible_publishers")
		if c.Late > 0 {
			o.Class("once_handlers_of_another_type_subscribed_meanwhile")
		}
		if c.Readers > 0 {
			o.Class("registry_polled_by_readers_meanwhile")
		}
	}
	for round := 0; round < c.Rounds; round++ {
		bus := eventbus.New(busmodel.Ambient(c.Ambient)...)
		cl := &calls{n: make([]int, len(c.Handlers)), ev: make([][]int, len(c.Handlers))}
		src := busmodel.NewOptSource(c.SharedOpts)
		for hi, h := range c.Handlers {
			if err := subscribe(bus, src, h, hi, cl); err != nil {
				o.Failf("", "subscribe: %v", err)
				return o
			}
		}
		var start, done sync.WaitGroup
		var ready atomic.Int32
		start.Add(1)
		for pi, ps := range c.Publishers {
			done.Add(1)
			go func(pi int, ps []Pub) {
				defer done.Done()
				ready.Add(1)
				start.Wait()
				for _, p := range ps {
					if pi < len(c.Yield) {
						for y := 0; y < c.Yield[pi]; y++ {
							runtime.Gosched()
						}
					}
					publish(bus, p.T, p.ID, p.Cancelled, p.UseCtx, p.Any)
				}
			}(pi, ps)
		}
		var lateRuns []atomic.Int32
		if c.Late > 0 {
			lateRuns = make([]atomic.Int32, c.Late)
			done.Add(1)
			go func() {
				defer done.Done()
				start.Wait()
				for i := 0; i < c.Late; i++ {
					i := i
					runtime.Gosched()
					if err := eventbus.Subscribe(bus, func(EvD) { lateRuns[i].Add(1) }, src.Once()); err != nil {
						lateRuns[i].Add(100)
					}
				}
			}()
		}
		var stopReaders atomic.Bool
		var readers sync.WaitGroup
		for r := 0; r < c.Readers; r++ {
			readers.Add(1)
			go func(r int) {
				defer readers.Done()
				start.Wait()
				for i := 0; !stopReaders.Load(); i++ {
					count(bus, (r+i)%2)
					if i%64 == 63 {
						runtime.Gosched()
					}
				}
			}(r)
		}
		for int(ready.Load()) < len(c.Publishers) {
			runtime.Gosched()
		}
		start.Done()
		done.Wait()
		stopReaders.Store(true)
		readers.Wait()
		bus.Wait()
		if c.Late > 0 {
			for i := range lateRuns {
				if n := lateRuns[i].Load(); n != 0 {
					o.Failf("", "round %d: Once handler %d for EvD, subscribed while events of other types were being published, ran %d times before any EvD was published", round, i, n)
					return o
				}
			}
			if n := eventbus.HandlerCount[EvD](bus); n != c.Late {
				o.Failf("", "round %d: %d Once handlers for EvD were subscribed during the run and none was eligible for any event yet, HandlerCount[EvD] = %d", round, c.Late, n)
				return o
			}
			eventbus.Publish(bus, EvD{1})
			eventbus.Publish(bus, EvD{2})
			bus.Wait()
			for i := range lateRuns {
				if n := lateRuns[i].Load(); n != 1 {
					o.Failf("", "round %d: Once handler %d for EvD (subscribed while %d goroutines published other types) ran %d times for the two EvD events published afterwards; expected exactly once", round, i, len(c.Publishers), n)
					return o
				}
			}
			if n := eventbus.HandlerCount[EvD](bus); n != 0 {
				o.Failf("", "round %d: HandlerCount[EvD] = %d after every Once handler of it fired", round, n)
				return o
			}
		}
		wantCount := [2]int{}
		for hi, h := range c.Handlers {
			cl.mu.Lock()
			n := cl.n[hi]
			evs := append([]int{}, cl.ev[hi]...)
			cl.mu.Unlock()
			if h.Once {
				if n > 1 {
					o.Failf("", "round %d: Once handler %d %+v ran %d times (events %v)", round, hi, h, n, evs)
					return o
				}
				if eligible[hi] > 0 && n != 1 {
					o.Failf("", "round %d: Once handler %d %+v had %d eligible publishes but ran %d times", round, hi, h, eligible[hi], n)
					return o
				}
				if eligible[hi] == 0 && n != 0 {
					o.Failf("", "round %d: Once handler %d %+v had no eligible publish but ran (events %v)", round, hi, h, evs)
					return o
				}
				if n == 0 {
					wantCount[h.T]++
				}
			} else {
				if n != eligible[hi] {
					o.Failf("", "round %d: handler %d %+v ran %d times, %d eligible publishes", round, hi, h, n, eligible[hi])
					return o
				}
				wantCount[h.T]++
			}
			for _, id := range evs {
				if !accepts(h.Filter, id) {
					o.Failf("", "round %d: handler %d %+v received event %d rejected by its filter", round, hi, h, id)
					return o
				}
			}
		}
		for t := 0; t < 2; t++ {
			if n, _ := count(bus, t); n != wantCount[t] {
				o.Failf("", "round %d: HandlerCount(type %d) = %d after quiescence, expected %d (fired Once handlers retired, others kept)", round, t, n, wantCount[t])
				return o
			}
		}
	}
	return o
}
