package c04

import (
	"context"
	"fmt"
	"sync/atomic"
	"time"

	eventbus "github.com/jilio/ebu"
	"pgregory.net/rapid"
	"verif/vkit"
)

// DrainCase: an asynchronous handler is still running when Shutdown is called
// (with a context that ends after TimeoutMs, or never), and from inside it
// events are published for Once handlers of another type.  Shutdown waits for
// that handler and for what it published.  Whether Shutdown then returns nil
// or the context's error, every Once handler that was eligible for one of
// those events has run exactly once and is not counted any more - a bus that
// is draining has not stopped delivering.
type DrainCase struct {
	Once      []H  `json:"once"`                 // Once handlers of EvB (Async/Ctx/Filter as drawn)
	Events    int  `json:"events"`               // EvB events published from inside the running EvA handler
	TimeoutMs int  `json:"timeout_ms,omitempty"` // 0: Shutdown(background)
	Store     bool `json:"store,omitempty"`
	ViaAny    bool `json:"via_any,omitempty"`
}

func GenDrain(t *rapid.T) *DrainCase {
	c := &DrainCase{Events: rapid.IntRange(1, 4).Draw(t, "events"), TimeoutMs: rapid.SampledFrom([]int{0, 0, 1, 50}).Draw(t, "timeout"), Store: rapid.Bool().Draw(t, "store"), ViaAny: rapid.IntRange(0, 2).Draw(t, "viaAny") == 0}
	n := rapid.IntRange(1, 4).Draw(t, "nonce")
	for i := 0; i < n; i++ {
		h := genH(t, 1)
		h.T, h.Once, h.Panics = 1, true, false
		h.Seq = h.Seq && h.Async
		c.Once = append(c.Once, h)
	}
	return c
}

func RunDrain(c *DrainCase) *vkit.Outcome {
	var res *vkit.Outcome
	if timedOut, _ := vkit.Watchdog(20*time.Second, func() { res = runDrain(c) }); !timedOut {
		return res
	}
	again, dump := vkit.Watchdog(20*time.Second, func() { res = runDrain(c) })
	if !again {
		res.Class("slow_first_run_not_reproduced")
		return res
	}
	if len(dump) > 6000 {
		dump = dump[:6000]
	}
	o := &vkit.Outcome{}
	o.Failf("", "%+v: Shutdown/Wait did not return within 20 s, twice; goroutines:\n%s", *c, dump)
	return o
}

func runDrain(c *DrainCase) *vkit.Outcome {
	o := &vkit.Outcome{}
	var opts []eventbus.Option
	if c.Store {
		opts = append(opts, eventbus.WithStore(eventbus.NewMemoryStore()))
	}
	bus := eventbus.New(opts...)
	cl := &calls{n: make([]int, len(c.Once)), ev: make([][]int, len(c.Once))}
	for hi, h := range c.Once {
		if err := subscribe(bus, nil, h, hi, cl); err != nil {
			o.Failf("", "subscribe: %v", err)
			return o
		}
	}
	gate := make(chan struct{})
	var started atomic.Bool
	eventbus.Subscribe(bus, func(EvA) {
		started.Store(true)
		<-gate
		for id := 1; id <= c.Events; id++ {
			publish(bus, 1, id, false, false, c.ViaAny)
		}
	}, eventbus.Async())
	eventbus.Publish(bus, EvA{0})
	for !started.Load() {
		time.Sleep(20 * time.Microsecond)
	}
	ctx, cancel := context.Background(), context.CancelFunc(func() {})
	if c.TimeoutMs > 0 {
		ctx, cancel = context.WithTimeout(ctx, time.Duration(c.TimeoutMs)*time.Millisecond)
	}
	defer cancel()
	done := make(chan error, 1)
	go func() { done <- bus.Shutdown(ctx) }()
	// let Shutdown get going; if it has not by then the case only tests less
	time.Sleep(2 * time.Millisecond)
	close(gate)
	shutdownErr := <-done
	bus.Wait()
	for hi, h := range c.Once {
		eligible := 0
		for id := 1; id <= c.Events; id++ {
			if accepts(h.Filter, id) {
				eligible++
			}
		}
		cl.mu.Lock()
		n := cl.n[hi]
		cl.mu.Unlock()
		want := 0
		if eligible > 0 {
			want = 1
		}
		if n != want {
			o.Failf("", "%+v: Once handler %d %+v ran %d times; %d eligible events were published (by a handler that was still running) while Shutdown was waiting, Shutdown returned %v", *c, hi, h, n, eligible, shutdownErr)
			return o
		}
	}
	wantCount := 0
	for _, h := range c.Once {
		eligible := false
		for id := 1; id <= c.Events; id++ {
			eligible = eligible || accepts(h.Filter, id)
		}
		if !eligible {
			wantCount++
		}
	}
	if n, _ := count(bus, 1); n != wantCount {
		o.Failf("", "%+v: HandlerCount(EvB) = %d after the drain, expected %d (fired Once handlers retired); Shutdown returned %v", *c, n, wantCount, shutdownErr)
		return o
	}
	o.Nontrivial = true
	if shutdownErr != nil {
		o.Class("shutdown_returned_the_context_error")
	} else {
		o.Class("shutdown_returned_nil")
	}
	_ = fmt.Sprint
	return o
}
