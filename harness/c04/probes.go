package c04

import (
	"context"
	"runtime"

	eventbus "github.com/jilio/ebu"
	"verif/vkit"
)

// Probes re-observes the listed finding: an asynchronous Once handler that
// was dispatched for a publish whose context a later synchronous handler
// cancels is retired without having run.  With one processor the dispatch
// goroutine cannot start before the publisher has run the cancelling handler,
// so the history is deterministic.
func Probes() *vkit.Outcome {
	o := &vkit.Outcome{}
	defer runtime.GOMAXPROCS(runtime.GOMAXPROCS(1))
	bus := eventbus.New()
	ran := 0
	eventbus.Subscribe(bus, func(EvA) { ran++ }, eventbus.Once(), eventbus.Async())
	var cancel context.CancelFunc
	eventbus.SubscribeContext(bus, func(context.Context, EvA) { cancel() })
	ctx, c1 := context.WithCancel(context.Background())
	cancel = c1
	eventbus.PublishContext(bus, ctx, EvA{1}) // live context, cancelled during the dispatch
	bus.Wait()
	ranAfterFirst := ran
	cancel = func() {}
	eventbus.Publish(bus, EvA{2}) // an eligible publish while it should still be subscribed
	bus.Wait()
	n := eventbus.HandlerCount[EvA](bus)
	if ran == 0 {
		o.Failf("once:async-consumed-by-mid-dispatch-cancel", "probe: an Async Once handler was dispatched for event 1, whose context the next (synchronous) handler cancelled before the dispatch goroutine started; it ran %d times for event 1 and %d times after a second, plain publish (HandlerCount %d, 1 = only the cancelling handler): it was retired without having run", ranAfterFirst, ran, n)
	}
	return o
}
