package c04

import (
	"testing"

	"verif/vkit"
)

var collSeq = vkit.NewCollector("C04", "TestSeq", "sequential histories of subscribe (1-6, sometimes 9-33 handlers; in a quarter of the cases one Once()/Async()/Sequential() option value is reused for every subscription; Once and plain handlers, plain synchronous handlers that cancel the context of the publish they are handling (histories without asynchronous handlers), in a third of the histories Once handlers that subscribe a successor registration while they run, sync/async, plain/context-aware, +-Sequential, filters) and publishes that are eligible, filtered out, made with an already-cancelled context or of another type; oracle = model in which a Once registration is consumed only by an accepted publish with a live context (calls and HandlerCount compared after every step). Non-trivial = a Once handler was skipped (filter or cancelled context) while subscribed and later received an eligible publish.")
var collConc = vkit.NewCollector("C04", "TestConc", "2-16 free-running publishers released by a barrier against 1-4 handlers of mixed kinds (option values fresh or shared between the subscriptions), 20 fresh buses per case, race detector on, drawn GOMAXPROCS and Gosched noise; oracle = per Once handler at most one call, exactly one if any eligible publish exists, HandlerCount after quiescence. Non-trivial = a Once handler with >=2 eligible publishes from >=2 concurrent publishers.")

var collProbe = vkit.NewCollector("C04", "TestKnownProbes", "deterministic replay of the history behind the listed known finding")

// TestKnownProbes re-observes the known finding (or reports it as a violation
// when it is not listed).
func TestKnownProbes(t *testing.T) {
	if v := collProbe.Judge(Probes().Viol); v != nil {
		vkit.SaveFail("C04", "TestKnownProbes", map[string]string{"probe": v.Sig}, v)
		t.Fatalf("%s", v.Error())
	}
}

func TestMain(m *testing.M) { vkit.Main(m) }

func TestSeq(t *testing.T)  { vkit.Check(t, collSeq, GenSeq, RunSeq) }
func TestConc(t *testing.T) { vkit.Check(t, collConc, GenConc, RunConc) }

var collDrain = vkit.NewCollector("C04", "TestOnceWhileDraining", "an asynchronous handler is still running when Shutdown is called (background context, or one that ends after 1 or 50 ms; with or without a store); released 2 ms later, it publishes 1-4 events of another type for 1-4 Once handlers (sync/async/sequential, filters) and returns. Oracle: whatever Shutdown returned, every Once handler eligible for one of those events ran exactly once and HandlerCount counts only those that were not eligible. Non-trivial = every case.")

func TestOnceWhileDraining(t *testing.T) { vkit.Check(t, collDrain, GenDrain, RunDrain) }

func TestReplay(t *testing.T) {
	r := vkit.NeedReplay(t)
	_ = vkit.ReplayCase(t, r, collSeq, RunSeq) || vkit.ReplayCase(t, r, collConc, RunConc) || vkit.ReplayCase(t, r, collDrain, RunDrain)
}
