package c04

import (
	"pgregory.net/rapid"
	"verif/busmodel"
)

var filters = []string{"", "", "all", "none", "even", "odd"}

func genH(t *rapid.T, onceBias int) H {
	return H{
		T:      rapid.IntRange(0, 1).Draw(t, "ht"),
		Once:   rapid.IntRange(0, onceBias).Draw(t, "once") != 0,
		Ctx:    rapid.Bool().Draw(t, "ctx"),
		Async:  rapid.IntRange(0, 2).Draw(t, "async") == 0,
		Seq:    rapid.IntRange(0, 3).Draw(t, "seq") == 0,
		Filter: rapid.SampledFrom(filters).Draw(t, "filter"),
		Panics: rapid.IntRange(0, 4).Draw(t, "panics") == 0,
	}
}

func GenSeq(t *rapid.T) *SeqCase {
	c := &SeqCase{SharedOpts: rapid.IntRange(0, 3).Draw(t, "sharedOpts") == 0}
	if rapid.Bool().Draw(t, "hasAmbient") {
		c.Ambient = rapid.IntRange(0, busmodel.AmbAll).Draw(t, "ambient")
		if rapid.IntRange(0, 3).Draw(t, "nilOpts") == 0 {
			c.Ambient |= busmodel.AmbNils
		}
	}
	c.DetachObs = rapid.IntRange(0, 5).Draw(t, "detachObs") == 0
	nh := rapid.IntRange(1, 6).Draw(t, "nh")
	if rapid.IntRange(0, 5).Draw(t, "crowd") == 0 {
		// a long handler list: small-size thresholds are crossed
		nh = rapid.SampledFrom([]int{9, 17, 33, 65, 70, 130}).Draw(t, "crowdSize")
	}
	// one history in twelve: a long list of one type whose only claimable
	// Once handlers stand at the far end (behind 64 or more registrations
	// that no publish retires), everything subscribed before the first publish
	tail := rapid.IntRange(0, 11).Draw(t, "tailOnce") == 0
	if tail {
		nh = rapid.SampledFrom([]int{64, 65, 66, 70, 129}).Draw(t, "tailFront") + rapid.IntRange(1, 4).Draw(t, "tailOnces")
	}
	for i := 0; i < nh; i++ {
		c.Handlers = append(c.Handlers, genH(t, 3))
	}
	if tail {
		front := nh - rapid.IntRange(1, min(4, nh-64)).Draw(t, "tailK")
		for i := range c.Handlers {
			h := &c.Handlers[i]
			h.T = 0
			switch {
			case i >= front:
				h.Once, h.Filter = true, ""
			case h.Once:
				h.Filter = "none" // never claimed
			}
		}
	}
	// one history in eight is about cancellations in the middle of a
	// dispatch: synchronous handlers of one type only, one of them in the
	// middle of the list cancels, publishes mostly carry a context of their own
	mid := !tail && nh >= 2 && rapid.IntRange(0, 7).Draw(t, "midCancel") == 0
	if mid {
		for i := range c.Handlers {
			c.Handlers[i].Async, c.Handlers[i].T = false, 0
		}
		k := rapid.IntRange(0, nh-1).Draw(t, "midWho")
		c.Handlers[k].Once, c.Handlers[k].Cancels, c.Handlers[k].Filter = false, true, ""
	}
	// without asynchronous handlers the outcome of a cancellation in the
	// middle of a dispatch is determined: let some plain handlers cancel
	anyAsync := false
	for _, h := range c.Handlers {
		anyAsync = anyAsync || h.Async
	}
	if !anyAsync {
		for i := range c.Handlers {
			if !c.Handlers[i].Once && rapid.IntRange(0, 2).Draw(t, "cancels") == 0 {
				c.Handlers[i].Cancels = true
			}
		}
	}
	// a third of the histories let Once handlers arm a successor while they run
	if rapid.IntRange(0, 2).Draw(t, "arming") == 0 {
		for i := range c.Handlers {
			if c.Handlers[i].Once && rapid.Bool().Draw(t, "arms") {
				c.Handlers[i].Arms = 1 + rapid.IntRange(0, nh-1).Draw(t, "armsWhich")
			}
		}
	}
	// a third of the histories let Once handlers unsubscribe themselves while
	// they run (at most four per type: each needs a function of its own, and
	// no other registration may share it, so they are never armed)
	if rapid.IntRange(0, 2).Draw(t, "quitting") == 0 {
		slots := [2]int{}
		for i := range c.Handlers {
			h := &c.Handlers[i]
			if h.Once && slots[h.T] < 4 && rapid.IntRange(0, 2).Draw(t, "quits") != 0 {
				slots[h.T]++
				h.Quits, h.Ctx = slots[h.T], false
			}
		}
		for i := range c.Handlers {
			if a := c.Handlers[i].Arms; a > 0 && c.Handlers[a-1].Quits > 0 {
				c.Handlers[i].Arms = 0
			}
		}
	}
	subbed := 0
	n := rapid.IntRange(1, 25).Draw(t, "nsteps")
	if nh > 6 {
		n += nh
	}
	id := 0
	for i := 0; i < n; i++ {
		k := rapid.IntRange(0, 9).Draw(t, "kind")
		switch {
		case subbed < nh && (tail || k < 3 || subbed == 0 || (nh > 6 && k < 7)):
			c.Steps = append(c.Steps, Step{K: "sub", H: subbed})
			subbed++
		case k == 9:
			c.Steps = append(c.Steps, Step{K: "count", T: rapid.IntRange(0, 2).Draw(t, "ct")})
		default:
			id++
			s := Step{K: "pub", ID: id}
			s.T = rapid.SampledFrom([]int{0, 0, 0, 1, 1, 1, 2}).Draw(t, "pt")
			switch rapid.IntRange(0, 5).Draw(t, "ctxkind") {
			case 0, 1:
				s.Cancelled = true
			case 2:
				s.UseCtx = true
			}
			if mid && rapid.Bool().Draw(t, "midCtx") {
				s.Cancelled, s.UseCtx, s.T = false, true, 0
			}
			s.Any = rapid.IntRange(0, 3).Draw(t, "viaAny") == 0
			c.Steps = append(c.Steps, s)
		}
	}
	return c
}

func GenConc(t *rapid.T) *ConcCase {
	c := &ConcCase{Rounds: 20, SharedOpts: rapid.IntRange(0, 3).Draw(t, "sharedOpts") == 0}
	if rapid.Bool().Draw(t, "hasAmbient") {
		c.Ambient = rapid.IntRange(0, busmodel.AmbAll).Draw(t, "ambient")
		if rapid.IntRange(0, 3).Draw(t, "nilOpts") == 0 {
			c.Ambient |= busmodel.AmbNils
		}
	}
	nh := rapid.IntRange(1, 4).Draw(t, "nh")
	for i := 0; i < nh; i++ {
		c.Handlers = append(c.Handlers, genH(t, 5))
	}
	np := rapid.IntRange(2, 16).Draw(t, "np")
	id := 0
	for p := 0; p < np; p++ {
		m := rapid.IntRange(1, 4).Draw(t, "m")
		var ps []Pub
		for j := 0; j < m; j++ {
			id++
			pb := Pub{ID: id, T: rapid.SampledFrom([]int{0, 0, 0, 1, 1, 2}).Draw(t, "pt")}
			switch rapid.IntRange(0, 7).Draw(t, "ctxkind") {
			case 0:
				pb.Cancelled = true
			case 1:
				pb.UseCtx = true
			}
			pb.Any = rapid.IntRange(0, 3).Draw(t, "viaAny") == 0
			ps = append(ps, pb)
		}
		c.Publishers = append(c.Publishers, ps)
		c.Yield = append(c.Yield, rapid.IntRange(0, 3).Draw(t, "yield"))
	}
	c.Procs = rapid.SampledFrom([]int{1, 2, 4, 16}).Draw(t, "procs")
	if rapid.Bool().Draw(t, "hasLate") {
		c.Late = rapid.IntRange(1, 8).Draw(t, "late")
	}
	if rapid.IntRange(0, 2).Draw(t, "hasReaders") == 0 {
		c.Readers = rapid.IntRange(1, 3).Draw(t, "readers")
	}
	return c
}
