//go:build verif

package c09

import (
	"context"
	"encoding/json"
	"fmt"
	"reflect"

	eventbus "github.com/jilio/ebu"
	"pgregory.net/rapid"
	"verif/vkit"
)

// ShapesCase: events whose Go type has an unusual shape - no fields at all,
// a named non-struct kind, an encoding of its own that is not an object.
// Whatever the shape, the record's type is EventType(event) and its data is
// what json.Marshal(event) gives, and it decodes back to the published value.
type ShapesCase struct {
	Seq    []string `json:"seq"` // shape names, in publish order
	UseCtx bool     `json:"usectx,omitempty"`
	ViaAny bool     `json:"via_any,omitempty"`
}

// field-less types
type Tick struct{}

type Beat struct{}

func (Beat) MarshalJSON() ([]byte, error)    { return []byte(`"heartbeat"`), nil }
func (*Beat) UnmarshalJSON(d []byte) error { return expectJSON(d, `"heartbeat"`) }

type Mark struct{}

func (Mark) MarshalText() ([]byte, error)    { return []byte("mark"), nil }
func (*Mark) UnmarshalText(d []byte) error { return expectJSON(d, `mark`) }

type Pulse struct{}

func (*Pulse) MarshalJSON() ([]byte, error)  { return []byte(`{"pulse":true}`), nil }
func (*Pulse) UnmarshalJSON(d []byte) error { return expectJSON(d, `{"pulse":true}`) }

// one unexported field only: encodes as {} through reflection, as [n] here
type Hidden struct{ n int }

func (h Hidden) MarshalJSON() ([]byte, error) { return []byte(fmt.Sprintf("[%d]", h.n)), nil }
func (h *Hidden) UnmarshalJSON(d []byte) error {
	_, err := fmt.Sscanf(string(d), "[%d]", &h.n)
	return err
}

// named non-struct kinds
type Count int
type Label string
type Tags []string
type Attrs map[string]int
type Pair [2]int

func expectJSON(d []byte, want string) error {
	if string(d) != want {
		return fmt.Errorf("got %s, want %s", d, want)
	}
	return nil
}

var shapeNames = []string{"tick", "beat", "mark", "pulse", "hidden", "count", "label", "tags", "attrs", "pair", "emptytags", "nilattrs"}

func GenShapes(t *rapid.T) *ShapesCase {
	return &ShapesCase{Seq: rapid.SliceOfN(rapid.SampledFrom(shapeNames), 1, 12).Draw(t, "seq"), UseCtx: rapid.Bool().Draw(t, "usectx"), ViaAny: rapid.IntRange(0, 2).Draw(t, "viaAny") == 0}
}

func pubShape[T any](bus *eventbus.EventBus, c *ShapesCase, e T) any {
	switch {
	case c.ViaAny && c.UseCtx:
		eventbus.PublishContext[any](bus, context.Background(), e)
	case c.ViaAny:
		eventbus.Publish[any](bus, e)
	case c.UseCtx:
		eventbus.PublishContext(bus, context.Background(), e)
	default:
		eventbus.Publish(bus, e)
	}
	return e
}

func RunShapes(c *ShapesCase) *vkit.Outcome {
	o := &vkit.Outcome{}
	store := eventbus.NewMemoryStore()
	var perr []error
	bus := eventbus.New(eventbus.WithStore(store), eventbus.WithPersistenceErrorHandler(func(_ any, _ reflect.Type, err error) { perr = append(perr, err) }))
	var evs []any
	for i, s := range c.Seq {
		var ev any
		switch s {
		case "tick":
			ev = pubShape(bus, c, Tick{})
		case "beat":
			ev = pubShape(bus, c, Beat{})
		case "mark":
			ev = pubShape(bus, c, Mark{})
		case "pulse":
			ev = pubShape(bus, c, &Pulse{})
		case "hidden":
			ev = pubShape(bus, c, Hidden{n: i})
		case "count":
			ev = pubShape(bus, c, Count(i))
		case "label":
			ev = pubShape(bus, c, Label(fmt.Sprintf("l%d", i)))
		case "tags":
			ev = pubShape(bus, c, Tags{"a", fmt.Sprint(i)})
		case "emptytags":
			ev = pubShape(bus, c, Tags{})
		case "attrs":
			ev = pubShape(bus, c, Attrs{"i": i})
		case "nilattrs":
			ev = pubShape(bus, c, Attrs(nil))
		default:
			ev = pubShape(bus, c, Pair{i, -i})
		}
		evs = append(evs, ev)
	}
	if len(perr) > 0 {
		o.Failf("", "%v: the persistence error handler was called (%v) although every event has a JSON encoding", c.Seq, perr[0])
		return o
	}
	all, err := readAll(store)
	if err != nil || len(all) != len(evs) {
		o.Failf("", "%v: %d publishes left %d records (err %v)", c.Seq, len(evs), len(all), err)
		return o
	}
	fieldless := false
	for i, se := range all {
		want, _ := json.Marshal(evs[i])
		if se.Type != eventbus.EventType(evs[i]) {
			o.Failf("", "record %d (%s, %T): type %q, EventType(event) = %q", i, c.Seq[i], evs[i], se.Type, eventbus.EventType(evs[i]))
			return o
		}
		if !vkit.JSONEqual(se.Data, want) {
			o.Failf("", "record %d (%s, %T): data %s, json.Marshal(event) = %s", i, c.Seq[i], evs[i], se.Data, want)
			return o
		}
		// decoding the record into a fresh value of the event's type and
		// encoding that again gives the same JSON
		rt := reflect.TypeOf(evs[i])
		if rt.Kind() == reflect.Pointer {
			rt = rt.Elem()
		}
		fresh := reflect.New(rt)
		if derr := json.Unmarshal(se.Data, fresh.Interface()); derr != nil {
			o.Failf("", "record %d (%s, %T): data %s does not decode into the event's type: %v", i, c.Seq[i], evs[i], se.Data, derr)
			return o
		}
		var back []byte
		if reflect.TypeOf(evs[i]).Kind() == reflect.Pointer {
			back, _ = json.Marshal(fresh.Interface())
		} else {
			back, _ = json.Marshal(fresh.Elem().Interface())
		}
		if s := c.Seq[i]; s != "hidden" && s != "nilattrs" && s != "emptytags" && !vkit.JSONEqual(back, want) {
			o.Failf("", "record %d (%s, %T): decoded and encoded again gives %s, the event encodes as %s", i, c.Seq[i], evs[i], back, want)
			return o
		}
		switch c.Seq[i] {
		case "beat", "mark", "pulse", "hidden":
			fieldless = true
		}
	}
	o.Nontrivial = fieldless
	if fieldless {
		o.Class("field_less_type_with_an_encoding_of_its_own")
	}
	return o
}
