//go:build verif

package c09

import (
	"math"

	"pgregory.net/rapid"
)

var hookOpts = []string{"before", "beforectx", "after", "afterctx", "obs"}
var otherOpts = []string{"panic", "perr", "timeout", "batch", "substore", "upcast", "upcastself"}

func genVal(t *rapid.T) Val {
	v := Val{Shape: rapid.SampledFrom([]string{"plain", "plain", "ptr", "named", "namedptr", "namedvalptr", "envelope", "envelope", "ptrmarsh", "ptrmarshptr", "holder", "mutenv", "kindev"}).Draw(t, "shape")}
	v.S = rapid.OneOf(rapid.SampledFrom([]string{"", "x", "héllo", "日本語", " ", "<tag>&", "quote\"\\", "\x00ctl"}), rapid.StringN(0, 6, 20)).Draw(t, "s")
	v.F = rapid.OneOf(rapid.SampledFrom([]float64{0, -0.0, 1, 0.1, 1e308, 5e-324, -1.5e-10, math.MaxFloat64, 123456789.123456789}), rapid.Float64()).Draw(t, "f")
	if math.IsNaN(v.F) || math.IsInf(v.F, 0) {
		v.F = 0
	}
	v.I64 = rapid.OneOf(rapid.SampledFrom([]int64{0, math.MinInt64, math.MaxInt64, 1 << 53, -(1 << 53) - 1}), rapid.Int64()).Draw(t, "i64")
	v.U64 = rapid.OneOf(rapid.SampledFrom([]uint64{0, math.MaxUint64, 1<<53 + 1}), rapid.Uint64()).Draw(t, "u64")
	v.Deep = rapid.Bool().Draw(t, "deep")
	return v
}

func genOptions(t *rapid.T) []string {
	var opts []string
	for _, o := range hookOpts {
		if rapid.Bool().Draw(t, "has_"+o) {
			opts = append(opts, o)
		}
	}
	for _, o := range otherOpts {
		if rapid.IntRange(0, 3).Draw(t, "has_"+o) == 0 {
			opts = append(opts, o)
		}
	}
	opts = append(opts, "store")
	if rapid.IntRange(0, 4).Draw(t, "has_decoystore") == 0 {
		opts = append(opts, "decoystore") // only effective when it precedes "store"
	}
	return rapid.Permutation(opts).Draw(t, "order")
}

// Gen draws a case for a store kind; conc selects concurrent publishers.
func Gen(store string, conc bool) func(t *rapid.T) *Case {
	return func(t *rapid.T) *Case {
		c := &Case{Store: store, Options: genOptions(t)}
		c.Poison = rapid.IntRange(0, 3).Draw(t, "poison") == 0
		if store == "durable" {
			c.Chunk = rapid.SampledFrom([]int{1, 200, 0}).Draw(t, "chunk")
		}
		np := 1
		maxEv := 30
		if conc {
			np = rapid.IntRange(2, 8).Draw(t, "np")
			maxEv = 20
			c.Procs = rapid.SampledFrom([]int{1, 2, 4, 16}).Draw(t, "procs")
			if rapid.Bool().Draw(t, "noise") {
				// needs the persistence error handler among the options
				has := false
				for _, op := range c.Options {
					has = has || op == "perr"
				}
				if !has {
					c.Options = append(c.Options, "perr")
				}
				c.Noise = rapid.IntRange(5, 60).Draw(t, "nnoise")
			}
		}
		if store != "memory" {
			maxEv = 8
		}
		for p := 0; p < np; p++ {
			n := rapid.IntRange(1, maxEv).Draw(t, "nev")
			var vals []Val
			for i := 0; i < n; i++ {
				vals = append(vals, genVal(t))
			}
			c.Publishers = append(c.Publishers, vals)
		}
		return c
	}
}

// EnumOrders visits every order of every subset of the five hook-affecting
// options together with the store option.
func EnumOrders(visit func([]string)) {
	n := len(hookOpts)
	for mask := 0; mask < 1<<n; mask++ {
		set := []string{"store"}
		for i := 0; i < n; i++ {
			if mask&(1<<i) != 0 {
				set = append(set, hookOpts[i])
			}
		}
		permute(set, 0, visit)
	}
}

func permute(a []string, k int, visit func([]string)) {
	if k == len(a) {
		visit(append([]string{}, a...))
		return
	}
	for i := k; i < len(a); i++ {
		a[k], a[i] = a[i], a[k]
		permute(a, k+1, visit)
		a[k], a[i] = a[i], a[k]
	}
}
