//go:build verif

// Package c09 decides property C09: every publish on a persistent bus is
// recorded once, before it is delivered - for every option order, event
// shape, store and publisher interleaving.
package c09

import (
	"context"
	"encoding/json"
	"fmt"
	"math"
	"reflect"
	"runtime"
	"sort"
	"strings"
	"sync"
	"sync/atomic"
	"time"

	eventbus "github.com/jilio/ebu"
	"verif/storekit"
	"verif/vkit"
)

type Nested struct {
	A string            `json:"a"`
	B []int             `json:"b"`
	C map[string]string `json:"c,omitempty"`
	P *int              `json:"p"`
}

type Plain struct {
	ID  int     `json:"id"`
	S   string  `json:"s"`
	F   float64 `json:"f"`
	I64 int64   `json:"i64"`
	U64 uint64  `json:"u64"`
	N   Nested  `json:"n"`
	E   any     `json:"e"`
}

type Ptr struct {
	ID int    `json:"id"`
	S  string `json:"s"`
}

type Named struct {
	ID int     `json:"id"`
	F  float64 `json:"f"`
}

func (Named) EventTypeName() string { return "c09.named.v1" }

type NamedPtr struct {
	ID int    `json:"id"`
	S  string `json:"s"`
}

func (*NamedPtr) EventTypeName() string { return "c09.named-ptr.v2" }

// Envelope names itself by value: one Go type, many event type names.
type Envelope struct {
	ID   int    `json:"id"`
	Kind string `json:"kind"`
}

func (e Envelope) EventTypeName() string { return "c09.envelope." + e.Kind }

// KindEv is named by a field that legacy events leave empty: its type name is
// then the empty string, and that - not anything else - is the record's type.
type KindEv struct {
	ID   int    `json:"id"`
	Kind string `json:"kind"`
}

func (e KindEv) EventTypeName() string { return e.Kind }

// PtrMarsh has a pointer-receiver MarshalJSON: encoding/json uses it only for
// addressable values, so an event published by value encodes field by field
// (json.Marshal(event) is the stated reference).
type PtrMarsh struct {
	ID int    `json:"id"`
	S  string `json:"s"`
}

func (p *PtrMarsh) MarshalJSON() ([]byte, error) {
	return json.Marshal(map[string]any{"id": p.ID, "s": p.S, "via": "pointer-receiver"})
}

// Holder carries a non-pointer field whose type has a pointer-receiver
// MarshalText.
type Holder struct {
	ID  int     `json:"id"`
	Tag TextTag `json:"tag"`
}

type TextTag struct {
	V string `json:"v"`
}

func (t *TextTag) MarshalText() ([]byte, error) { return []byte("text:" + t.V), nil }

// MutEnv is published by pointer and names itself from a field that a
// before-publish hook fills in when it is empty (a hook that stamps defaults):
// the record's type name is that of the event as stored and delivered.
type MutEnv struct {
	ID   int    `json:"id"`
	Kind string `json:"kind"`
}

func (e *MutEnv) EventTypeName() string { return "c09.mut." + e.Kind }

// stamp is what the harness's before-publish hooks do to a MutEnv.
func stamp(ev any) {
	if m, ok := ev.(*MutEnv); ok && m.Kind == "" {
		m.Kind = "created"
	}
}

// Unenc has no JSON encoding: publishing it fails to persist (and is reported
// to the persistence error handler) without touching the log.
type Unenc struct {
	C chan int `json:"c"`
}

// Val describes the generated field values of one event.
type Val struct {
	Shape string  `json:"shape"` // plain ptr named namedptr namedvalptr envelope ptrmarsh ptrmarshptr holder
	S     string  `json:"s,omitempty"`
	F     float64 `json:"f,omitempty"`
	I64   int64   `json:"i64,omitempty"`
	U64   uint64  `json:"u64,omitempty"`
	Deep  bool    `json:"deep,omitempty"`
}

type Case struct {
	Options []string `json:"options"` // ordered; contains "store" exactly once
	Store   string   `json:"store"`   // memory sqlite durable
	Chunk   int      `json:"chunk,omitempty"`
	// Publishers: each a list of events; one publisher = sequential run
	Publishers [][]Val `json:"publishers"`
	Procs      int     `json:"procs,omitempty"`
	// Noise > 0 (concurrent runs with a persistence error handler): one more
	// goroutine publishes Noise unencodable events meanwhile.  Their failures
	// are reported; every encodable publish still appends exactly one record.
	Noise int `json:"noise,omitempty"`
	// Poison: before anything else one event of the struct type the case
	// publishes most (Plain) is published whose interface-typed field holds a
	// channel - that value has no JSON encoding, later values of the same Go
	// type have.  It leaves no record; the publishes that follow are recorded
	// as if it had never happened.
	Poison bool `json:"poison,omitempty"`
}

type obsNop struct{ calls *atomic.Int32 }

func (o obsNop) OnPublishStart(ctx context.Context, _ string, _ any) context.Context {
	o.calls.Add(1)
	return context.WithValue(ctx, obsKey{}, "x")
}
func (obsNop) OnPublishComplete(context.Context, string) {}
func (obsNop) OnHandlerStart(ctx context.Context, _ string, _ bool) context.Context {
	return ctx
}
func (obsNop) OnHandlerComplete(context.Context, time.Duration, error) {}
func (obsNop) OnPersistStart(ctx context.Context, _ string, _ int64) context.Context {
	return ctx
}
func (obsNop) OnPersistComplete(context.Context, time.Duration, error) {}

type obsKey struct{}

type rec struct {
	id   int
	typ  string
	data []byte
	off  eventbus.Offset
}

func readAll(store eventbus.EventStore) ([]*eventbus.StoredEvent, error) {
	var all []*eventbus.StoredEvent
	cur := eventbus.OffsetOldest
	for i := 0; i < 2000; i++ {
		page, next, err := store.Read(context.Background(), cur, 0)
		if err != nil {
			return nil, err
		}
		if len(page) == 0 {
			break
		}
		all = append(all, page...)
		cur = next
	}
	return all, nil
}

func idOf(data []byte) int {
	var x struct {
		ID int `json:"id"`
	}
	if json.Unmarshal(data, &x) != nil {
		return -1
	}
	return x.ID
}

func Run(c *Case) *vkit.Outcome {
	o := &vkit.Outcome{}
	storekit.SetVariant(vkit.HashOf(c))
	if c.Procs > 0 {
		defer runtime.GOMAXPROCS(runtime.GOMAXPROCS(c.Procs))
	}
	var store eventbus.EventStore
	switch c.Store {
	case "memory":
		store = eventbus.NewMemoryStore()
	case "sqlite":
		dir, cleanup := storekit.TempDir("c09-")
		defer cleanup()
		st, err := storekit.OpenSQLite(dir, "p.db")
		if err != nil {
			o.Failf("", "open sqlite: %v", err)
			return o
		}
		defer st.Close()
		store = st
	case "durable":
		st, err := storekit.NewDSServer(c.Chunk).Open("pub")
		if err != nil {
			o.Failf("", "open durable: %v", err)
			return o
		}
		store = st
	}
	var mu sync.Mutex
	var fails []string
	fail := func(format string, args ...any) {
		mu.Lock()
		if len(fails) < 5 {
			fails = append(fails, fmt.Sprintf(format, args...))
		}
		mu.Unlock()
	}
	var hookCalls, persistErrs, obsCalls, noiseReports atomic.Int32
	var decoy *eventbus.MemoryStore
	noiseWanted := 0
	var opts []eventbus.Option
	storeLast := true
	seenStore := false
	for _, name := range c.Options {
		if seenStore && (name == "before" || name == "beforectx" || name == "after" || name == "afterctx") {
			storeLast = false
		}
		switch name {
		case "store":
			opts = append(opts, eventbus.WithStore(store))
			seenStore = true
		case "decoystore":
			// an earlier WithStore naming another store (defaults overridden
			// later in the list): the last WithStore is the bus's store
			if !seenStore {
				decoy = eventbus.NewMemoryStore()
				opts = append(opts, eventbus.WithStore(decoy))
			}
		case "before":
			opts = append(opts, eventbus.WithBeforePublish(func(_ reflect.Type, ev any) { hookCalls.Add(1); stamp(ev) }))
		case "beforectx":
			opts = append(opts, eventbus.WithBeforePublishContext(func(_ context.Context, _ reflect.Type, ev any) { hookCalls.Add(1); stamp(ev) }))
		case "after":
			opts = append(opts, eventbus.WithAfterPublish(func(reflect.Type, any) { hookCalls.Add(1) }))
		case "afterctx":
			opts = append(opts, eventbus.WithAfterPublishContext(func(context.Context, reflect.Type, any) { hookCalls.Add(1) }))
		case "panic":
			opts = append(opts, eventbus.WithPanicHandler(func(any, reflect.Type, any) {}))
		case "perr":
			opts = append(opts, eventbus.WithPersistenceErrorHandler(func(ev any, _ reflect.Type, err error) {
				if p, isPlain := ev.(Plain); isPlain && p.ID < 0 {
					return // the poison value: expected to fail
				}
				if _, noise := ev.(Unenc); noise {
					// expected: the noise publisher's events have no JSON encoding
					noiseReports.Add(1)
					time.Sleep(200 * time.Microsecond)
					return
				}
				persistErrs.Add(1)
				fail("persistence error handler called for %#v: %v", ev, err)
			}))
		case "timeout":
			opts = append(opts, eventbus.WithPersistenceTimeout(time.Hour))
		case "batch":
			opts = append(opts, eventbus.WithReplayBatchSize(3))
		case "obs":
			opts = append(opts, eventbus.WithObservability(obsNop{&obsCalls}))
		case "substore":
			opts = append(opts, eventbus.WithSubscriptionStore(eventbus.NewMemoryStore()))
		case "upcast":
			opts = append(opts, eventbus.WithUpcast("old", "new", func(d json.RawMessage) (json.RawMessage, string, error) { return d, "new", nil }))
		case "upcastself":
			// upcasters whose SOURCE is a type that is being published (a rolling
			// migration): they apply when events are replayed, never when they are written
			for _, src := range []string{eventbus.EventType(Plain{}), eventbus.EventType(&Ptr{}), "c09.named.v1"} {
				opts = append(opts, eventbus.WithUpcast(src, src+".next", func(d json.RawMessage) (json.RawMessage, string, error) {
					return json.RawMessage(`{"id":-1,"migrated":true}`), src + ".next", nil
				}))
			}
		}
	}
	bus := eventbus.New(opts...)

	// expected record per event id
	type expect struct {
		typ  string
		data []byte
	}
	var expMu sync.Mutex
	exp := map[int]expect{}
	var handled atomic.Int32

	// inside a handler: the record of this publish is already readable
	inHandler := func(id int, ev any) {
		if id < 0 {
			return // the poison value: delivered, never recorded
		}
		handled.Add(1)
		all, err := readAll(store)
		if err != nil {
			fail("handler of event %d: reading the store failed: %v", id, err)
			return
		}
		n := 0
		for _, se := range all {
			if idOf(se.Data) == id {
				n++
				want, _ := json.Marshal(ev)
				if se.Type != eventbus.EventType(ev) {
					fail("handler of event %d: record type %q, EventType(event) = %q", id, se.Type, eventbus.EventType(ev))
				}
				if !vkit.JSONEqual(se.Data, want) {
					fail("handler of event %d: record data %s, json.Marshal(event) = %s", id, se.Data, want)
				}
			}
		}
		if n != 1 {
			fail("handler of event %d (%T) found %d records of this publish in the store while it ran (store holds %d records); the record must be readable before any handler runs", id, ev, n, len(all))
		}
	}
	eventbus.Subscribe(bus, func(e Plain) { inHandler(e.ID, e) })
	eventbus.Subscribe(bus, func(e *Ptr) { inHandler(e.ID, e) })
	eventbus.SubscribeContext(bus, func(_ context.Context, e Named) { inHandler(e.ID, e) })
	eventbus.Subscribe(bus, func(e *NamedPtr) { inHandler(e.ID, e) })
	eventbus.Subscribe(bus, func(e *Named) { inHandler(e.ID, e) })
	eventbus.Subscribe(bus, func(e Envelope) { inHandler(e.ID, e) })
	eventbus.Subscribe(bus, func(e KindEv) { inHandler(e.ID, e) })
	eventbus.Subscribe(bus, func(e PtrMarsh) { inHandler(e.ID, e) })
	eventbus.Subscribe(bus, func(e *PtrMarsh) { inHandler(e.ID, e) })
	eventbus.Subscribe(bus, func(e Holder) { inHandler(e.ID, e) })
	eventbus.Subscribe(bus, func(e *MutEnv) { inHandler(e.ID, e) })

	publish := func(id int, v Val) {
		var ev any
		switch v.Shape {
		case "plain":
			e := Plain{ID: id, S: v.S, F: v.F, I64: v.I64, U64: v.U64}
			if v.Deep {
				x := 7
				e.N = Nested{A: v.S, B: []int{1, 2, 3}, C: map[string]string{"k": v.S, "": "empty"}, P: &x}
				e.E = map[string]any{"x": []any{1.5, "s", nil, true}}
			}
			ev = e
			eventbus.Publish(bus, e)
		case "ptr":
			e := &Ptr{ID: id, S: v.S}
			ev = e
			eventbus.Publish(bus, e)
		case "named":
			e := Named{ID: id, F: v.F}
			ev = e
			eventbus.PublishContext(bus, context.Background(), e)
		case "envelope":
			// the name varies with the value: S picks one of a few kinds
			e := Envelope{ID: id, Kind: fmt.Sprintf("k%d", len(v.S)%3)}
			ev = e
			eventbus.Publish(bus, e)
		case "kindev":
			e := KindEv{ID: id}
			if len(v.S)%2 == 1 {
				e.Kind = "c09.kind.a"
			}
			ev = e
			eventbus.Publish(bus, e)
		case "ptrmarsh":
			e := PtrMarsh{ID: id, S: v.S}
			ev = e
			eventbus.Publish(bus, e)
		case "ptrmarshptr":
			e := &PtrMarsh{ID: id, S: v.S}
			ev = e
			eventbus.Publish(bus, e)
		case "mutenv":
			e := &MutEnv{ID: id}
			if len(v.S)%2 == 1 {
				e.Kind = "given"
			}
			ev = e
			eventbus.Publish(bus, e)
		case "holder":
			e := Holder{ID: id, Tag: TextTag{V: v.S}}
			ev = e
			eventbus.Publish(bus, e)
		case "namedvalptr":
			e := &Named{ID: id, F: v.F}
			ev = e
			eventbus.Publish(bus, e)
		default:
			e := &NamedPtr{ID: id, S: v.S}
			ev = e
			eventbus.Publish(bus, e)
		}
		data, _ := json.Marshal(ev)
		expMu.Lock()
		exp[id] = expect{typ: eventbus.EventType(ev), data: data}
		expMu.Unlock()
	}

	if c.Poison {
		eventbus.Publish(bus, Plain{ID: -1, S: "poison", E: make(chan int)})
		if evs, _ := readAll(store); len(evs) != 0 {
			o.Failf("", "options %v: an event without JSON encoding left %d records in the store", c.Options, len(evs))
			return o
		}
		o.Class("unencodable_value_of_the_same_go_type_published_first")
	}
	total := 0
	var order []int // publish order for a single publisher
	if len(c.Publishers) == 1 {
		for i, v := range c.Publishers[0] {
			publish(i+1, v)
			order = append(order, i+1)
			total++
		}
	} else {
		var start, done sync.WaitGroup
		start.Add(1)
		base := 0
		for _, vals := range c.Publishers {
			done.Add(1)
			go func(base int, vals []Val) {
				defer done.Done()
				start.Wait()
				for i, v := range vals {
					publish(base+i+1, v)
				}
			}(base, vals)
			base += len(vals)
			total += len(vals)
		}
		hasPerr := false
		for _, op := range c.Options {
			hasPerr = hasPerr || op == "perr"
		}
		if c.Noise > 0 && hasPerr {
			done.Add(1)
			go func() {
				defer done.Done()
				start.Wait()
				for i := 0; i < c.Noise; i++ {
					eventbus.Publish(bus, Unenc{C: make(chan int)})
				}
			}()
			noiseWanted = c.Noise
		}
		start.Done()
		done.Wait()
	}
	bus.Wait()
	if noiseWanted > 0 && int(noiseReports.Load()) != noiseWanted {
		o.Failf("", "options %v: %d unencodable events were published, the persistence error handler was called %d times for them", c.Options, noiseWanted, noiseReports.Load())
		return o
	}
	if noiseWanted > 0 {
		o.Class("unencodable_events_published_concurrently")
	}
	if decoy != nil {
		if evs, _, _ := decoy.Read(context.Background(), eventbus.OffsetOldest, 0); len(evs) != 0 {
			o.Failf("", "options %v: %d records went to the store of an earlier WithStore option; the last WithStore names the bus's store", c.Options, len(evs))
			return o
		}
		o.Class("an_earlier_WithStore_names_another_store")
	}

	for _, f := range fails {
		sig := ""
		if !storeLast {
			sig = ""
		}
		o.Failf(sig, "options %v store %s: %s", c.Options, c.Store, f)
	}
	if len(o.Viol) > 0 {
		return o
	}
	if int(handled.Load()) != total {
		o.Failf("", "options %v: %d publishes, %d handler invocations", c.Options, total, handled.Load())
		return o
	}
	all, err := readAll(store)
	if err != nil {
		o.Failf("", "reading the store after the run: %v", err)
		return o
	}
	if len(all) != total {
		o.Failf("", "options %v store %s: %d publishes produced %d records", c.Options, c.Store, total, len(all))
		return o
	}
	seen := map[eventbus.Offset]bool{}
	ids := map[int]bool{}
	for i, se := range all {
		if seen[se.Offset] {
			o.Failf("", "offset %q appears twice in the log", se.Offset)
			return o
		}
		seen[se.Offset] = true
		if i > 0 && !offsetLess(c.Store, all[i-1].Offset, se.Offset) {
			o.Failf("", "offsets not strictly increasing in log order: %q then %q", all[i-1].Offset, se.Offset)
			return o
		}
		id := idOf(se.Data)
		want, ok := exp[id]
		if !ok || ids[id] {
			o.Failf("", "record %d (%s %s) does not correspond to exactly one publish", i, se.Type, se.Data)
			return o
		}
		ids[id] = true
		if se.Type != want.typ {
			o.Failf("", "record of event %d has type %q, EventType(event) = %q", id, se.Type, want.typ)
			return o
		}
		if !vkit.JSONEqual(se.Data, want.data) {
			o.Failf("", "record of event %d has data %s, the event encodes as %s", id, se.Data, want.data)
			return o
		}
		if len(order) > 0 && order[i] != id {
			o.Failf("", "sequential run: record %d is event %d, published %d-th", i, id, i+1)
			return o
		}
		// decoding a record yields the published value
		if !decodesBack(se, want.data) {
			o.Failf("", "record of event %d does not decode back to the published value: %s", id, se.Data)
			return o
		}
	}
	if !storeLast || len(c.Publishers) >= 2 {
		o.Nontrivial = true
	}
	if !storeLast {
		o.Class("store_not_last_hook_option")
	}
	if len(c.Publishers) >= 2 {
		o.Class("concurrent_publishers")
	}
	o.Class("store_" + c.Store)
	_ = math.Pi
	_ = strings.Join
	_ = sort.Ints
	return o
}

// offsetLess: documented lexicographic order; for SQLite the digit-length
// caveat (C10 known finding) is not re-litigated here.
func offsetLess(store string, a, b eventbus.Offset) bool {
	if store == "sqlite" && len(a) != len(b) {
		return len(a) < len(b)
	}
	if store == "durable" {
		// synthetic "<chunk end>/<index>" offsets: compare chunk then index
		pa, pb := strings.SplitN(string(a), "/", 2), strings.SplitN(string(b), "/", 2)
		if len(pa) == 2 && len(pb) == 2 {
			if pa[0] != pb[0] {
				return pa[0] < pb[0]
			}
			var ia, ib int
			fmt.Sscan(pa[1], &ia)
			fmt.Sscan(pb[1], &ib)
			return ia < ib
		}
	}
	return a < b
}

func decodesBack(se *eventbus.StoredEvent, want []byte) bool {
	var v any
	switch se.Type {
	case eventbus.EventType(Plain{}):
		var e Plain
		if json.Unmarshal(se.Data, &e) != nil {
			return false
		}
		v = e
	case eventbus.EventType(&Ptr{}):
		var e Ptr
		if json.Unmarshal(se.Data, &e) != nil {
			return false
		}
		v = e
	case eventbus.EventType(PtrMarsh{}):
		var e PtrMarsh
		if json.Unmarshal(se.Data, &e) != nil {
			return false
		}
		v = e
	case eventbus.EventType(&PtrMarsh{}):
		var e PtrMarsh
		if json.Unmarshal(se.Data, &e) != nil {
			return false
		}
		v = &e
	case eventbus.EventType(Holder{}):
		// the stored form is what json.Marshal(event) gave; a value
		// decoded from it encodes the same way again
		var e Holder
		if json.Unmarshal(se.Data, &e) != nil {
			return false
		}
		v = e
	case "c09.mut.", "c09.mut.created", "c09.mut.given":
		var e MutEnv
		if json.Unmarshal(se.Data, &e) != nil || e.EventTypeName() != se.Type {
			return false
		}
		v = &e
	case "", "c09.kind.a":
		var e KindEv
		if json.Unmarshal(se.Data, &e) != nil || e.EventTypeName() != se.Type {
			return false
		}
		v = e
	case "c09.named.v1":
		var e Named
		if json.Unmarshal(se.Data, &e) != nil {
			return false
		}
		v = e
	case "c09.named-ptr.v2":
		var e NamedPtr
		if json.Unmarshal(se.Data, &e) != nil {
			return false
		}
		v = e
	case "c09.envelope.k0", "c09.envelope.k1", "c09.envelope.k2":
		var e Envelope
		if json.Unmarshal(se.Data, &e) != nil || e.EventTypeName() != se.Type {
			return false
		}
		v = e
	default:
		return false
	}
	back, err := json.Marshal(v)
	return err == nil && vkit.JSONEqual(back, want)
}
