//go:build verif

package c09

import (
	"testing"

	"verif/vkit"
)

const rule = "a drawn permutation of an option list containing WithStore once plus any subset of {before, before-context, after, after-context hooks, observability, panic handler, persistence error handler, large timeout, batch size, subscription store, upcast}; events of five shapes (struct, pointer, TypeNamer on value / pointer receiver, pointer to a value-receiver TypeNamer) with unicode strings, extreme ints, finite floats and nested values; memory / SQLite / durable-streams stores; one publisher (1-30 events) or 2-8 concurrent publishers. Oracle: from inside every handler the record of this publish is already readable (exactly one, Type == EventType(event), data JSON-equal to json.Marshal(event)); afterwards exactly N records, offsets distinct and increasing in log order, each decoding back to the published value; sequential runs keep publish order. Non-trivial = WithStore is not the last hook-affecting option, or >=2 concurrent publishers."

var collSeq = vkit.NewCollector("C09", "TestPersistSeq", rule)
var collConc = vkit.NewCollector("C09", "TestPersistConc", rule)
var collSQL = vkit.NewCollector("C09", "TestPersistSQLite", rule)
var collDS = vkit.NewCollector("C09", "TestPersistDurable", rule)
var collEnum = vkit.NewCollector("C09", "TestEnumOptionOrders", "complete enumeration: every order of every subset of the five hook-affecting options (before, before-context, after, after-context, observability) together with WithStore = 1631 option lists, each run with three publishes of different shapes on a memory store; same oracle.")

var collAbort = vkit.NewCollector("C09", "TestAbortedPublish", "a persistent bus (memory store) with a drawn permutation of WithStore, the four publish hooks, observability and a panic handler (option, SetPanicHandler or none); one of the hooks panics for a drawn subset of 1-12 events published by one or 2-4 goroutines (every Publish call is wrapped in recover); a synchronous and optionally an asynchronous handler read the store while they run. Oracle: a handler that receives an event finds exactly one record of it; events whose hooks did not panic have one record and one delivery; an event rejected by a before hook has at most one record and is delivered only if recorded; one rejected by an after hook is recorded and delivered once; offsets increase. Non-trivial = some publishes aborted and some not.")

var collShapes = vkit.NewCollector("C09", "TestShapes", "1-12 events of unusually shaped Go types published in a drawn order on a persistent bus (memory store; Publish or PublishContext, statically typed or through any): field-less structs (plain, with MarshalJSON on value or pointer receiver, with MarshalText), a struct with only an unexported field and its own encoding, named int / string / slice / map / array kinds, empty and nil containers. Oracle: one record per publish in publish order, Type == EventType(event), data JSON-equal to json.Marshal(event), decodable into the event's type (and encoding back to the same JSON); the persistence error handler stays silent. Non-trivial = a field-less type with an encoding of its own was published.")

func TestMain(m *testing.M) { vkit.Main(m) }

func TestShapes(t *testing.T) { vkit.Check(t, collShapes, GenShapes, RunShapes) }

func TestAbortedPublish(t *testing.T) { vkit.Check(t, collAbort, GenAbort, RunAbort) }

func TestPersistSeq(t *testing.T)     { vkit.Check(t, collSeq, Gen("memory", false), Run) }
func TestPersistConc(t *testing.T)    { vkit.Check(t, collConc, Gen("memory", true), Run) }
func TestPersistSQLite(t *testing.T)  { vkit.Check(t, collSQL, Gen("sqlite", false), Run) }
func TestPersistDurable(t *testing.T) { vkit.Check(t, collDS, Gen("durable", false), Run) }

func TestEnumOptionOrders(t *testing.T) {
	EnumOrders(func(opts []string) {
		c := &Case{Store: "memory", Options: opts, Publishers: [][]Val{{{Shape: "plain", S: "a", Deep: true}, {Shape: "namedptr", S: "b"}, {Shape: "named", F: 1.5}}}}
		if v := collEnum.Account(c, Run(c)); v != nil {
			vkit.SaveFail("C09", "TestEnumOptionOrders", c, v)
			t.Fatalf("%s", v.Error())
		}
	})
	collEnum.SetExhaustive(true)
}

func TestReplay(t *testing.T) {
	r := vkit.NeedReplay(t)
	_ = vkit.ReplayCase(t, r, collSeq, Run) || vkit.ReplayCase(t, r, collConc, Run) || vkit.ReplayCase(t, r, collSQL, Run) || vkit.ReplayCase(t, r, collDS, Run) || vkit.ReplayCase(t, r, collEnum, Run) || vkit.ReplayCase(t, r, collAbort, RunAbort) || vkit.ReplayCase(t, r, collShapes, RunShapes)
}
