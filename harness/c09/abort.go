//go:build verif

package c09

import (
	"context"
	"fmt"
	"reflect"
	"sync"
	"sync/atomic"

	eventbus "github.com/jilio/ebu"
	"pgregory.net/rapid"
	"verif/vkit"
)

// AbortCase: a persistent bus whose publish hooks panic for some events (a
// validating hook that rejects an event by panicking), with or without a
// panic handler installed.  Whatever the bus does with such a panic - let it
// reach the publisher or contain it - "the record is readable before any
// handler of that publish runs" stays: a handler that receives event id finds
// exactly one record of id in the store; every publish whose hooks did not
// panic has exactly one record and one delivery; a publish whose hook
// panicked leaves at most one record; offsets increase in log order.
type AbortCase struct {
	Options []string `json:"options"` // ordered: store, before, beforectx, after, afterctx, panic, obs
	// PanicIn: which hook panics for the events in Abort ("before",
	// "beforectx", "after", "afterctx"); it is always among Options.
	PanicIn    string `json:"panic_in"`
	Abort      []int  `json:"abort"`                   // event ids (1-based) for which the hook panics
	N          int    `json:"n"`                       // publishes
	SetPH      bool   `json:"set_ph,omitempty"`        // panic handler installed with SetPanicHandler after New instead of the option
	Publishers int    `json:"publishers,omitempty"`    // > 1: that many goroutines share the ids
	AsyncH     bool   `json:"async_handler,omitempty"` // a second, asynchronous handler
	// ShutdownAt > 0: right before event ShutdownAt is published, Shutdown is
	// called with a context that has already ended while an asynchronous
	// handler (of another event type) is still running.  It returns the
	// context's error and the bus stays in service: the publishes that
	// follow are recorded like the ones before.
	ShutdownAt int `json:"shutdown_at,omitempty"`
	// Echo: for these event ids a context-aware handler publishes the value
	// it received once more, with the context it was given (a retry, a
	// re-emitted tick).  Equal values are still two publishes: two records.
	Echo []int `json:"echo,omitempty"`
}

type gateEv struct {
	Gate bool `json:"gate"`
}

func GenAbort(t *rapid.T) *AbortCase {
	c := &AbortCase{N: rapid.IntRange(1, 12).Draw(t, "n")}
	c.PanicIn = rapid.SampledFrom([]string{"before", "before", "beforectx", "beforectx", "after", "afterctx"}).Draw(t, "panicIn")
	pool := []string{"store", c.PanicIn}
	for _, name := range []string{"before", "beforectx", "after", "afterctx", "obs"} {
		if name != c.PanicIn && rapid.IntRange(0, 2).Draw(t, "has_"+name) == 0 {
			pool = append(pool, name)
		}
	}
	switch rapid.IntRange(0, 3).Draw(t, "ph") {
	case 0:
	case 1:
		c.SetPH = true
	default:
		pool = append(pool, "panic")
	}
	c.Options = rapid.Permutation(pool).Draw(t, "order")
	for id := 1; id <= c.N; id++ {
		if rapid.IntRange(0, 2).Draw(t, "aborts") == 0 {
			c.Abort = append(c.Abort, id)
		}
	}
	if rapid.IntRange(0, 2).Draw(t, "conc") == 0 {
		c.Publishers = rapid.IntRange(2, 4).Draw(t, "publishers")
	}
	c.AsyncH = rapid.IntRange(0, 2).Draw(t, "asyncH") == 0
	if rapid.IntRange(0, 2).Draw(t, "echoing") == 0 {
		for id := 1; id <= c.N; id++ {
			if rapid.IntRange(0, 2).Draw(t, "echo") == 0 {
				c.Echo = append(c.Echo, id)
			}
		}
	}
	if rapid.IntRange(0, 2).Draw(t, "shutdown") == 0 {
		c.ShutdownAt = rapid.IntRange(1, c.N).Draw(t, "shutdownAt")
	}
	return c
}

func RunAbort(c *AbortCase) *vkit.Outcome {
	o := &vkit.Outcome{}
	store := eventbus.NewMemoryStore()
	abort := map[int]bool{}
	for _, id := range c.Abort {
		abort[id] = true
	}
	var mu sync.Mutex
	var fails []string
	fail := func(format string, args ...any) {
		mu.Lock()
		if len(fails) < 5 {
			fails = append(fails, fmt.Sprintf(format, args...))
		}
		mu.Unlock()
	}
	hook := func(name string, ev any) {
		if e, ok := ev.(Plain); ok && name == c.PanicIn && abort[e.ID] {
			panic(fmt.Sprintf("%s hook rejects event %d", name, e.ID))
		}
	}
	phCalls := 0
	ph := func(any, reflect.Type, any) { mu.Lock(); phCalls++; mu.Unlock() }
	var opts []eventbus.Option
	hasPH := c.SetPH
	for _, name := range c.Options {
		switch name {
		case "store":
			opts = append(opts, eventbus.WithStore(store))
		case "before":
			opts = append(opts, eventbus.WithBeforePublish(func(_ reflect.Type, ev any) { hook("before", ev) }))
		case "beforectx":
			opts = append(opts, eventbus.WithBeforePublishContext(func(_ context.Context, _ reflect.Type, ev any) { hook("beforectx", ev) }))
		case "after":
			opts = append(opts, eventbus.WithAfterPublish(func(_ reflect.Type, ev any) { hook("after", ev) }))
		case "afterctx":
			opts = append(opts, eventbus.WithAfterPublishContext(func(_ context.Context, _ reflect.Type, ev any) { hook("afterctx", ev) }))
		case "panic":
			opts = append(opts, eventbus.WithPanicHandler(ph))
			hasPH = true
		case "obs":
			opts = append(opts, eventbus.WithObservability(obsNop{new(atomic.Int32)}))
		}
	}
	bus := eventbus.New(opts...)
	if c.SetPH {
		bus.SetPanicHandler(ph)
	}
	delivered := map[int]int{}
	pubCount := map[int]int{} // publishes started per id (the echo is a second one)
	echo := map[int]bool{}
	for _, id := range c.Echo {
		echo[id] = true
	}
	inHandler := func(id int, async bool) {
		all, err := readAll(store)
		if err != nil {
			fail("handler of event %d: reading the store failed: %v", id, err)
			return
		}
		n := 0
		for _, se := range all {
			if idOf(se.Data) == id {
				n++
			}
		}
		mu.Lock()
		wantN := pubCount[id]
		mu.Unlock()
		if (!async && n != wantN) || (async && (n < 1 || n > wantN)) {
			why := ""
			if abort[id] {
				why = fmt.Sprintf(" (the %s hook panicked for this event)", c.PanicIn)
			}
			fail("a handler received event %d%s and found %d records of it in the store (%d records in all) after %d publishes of that value had begun: the record must be readable before any handler of the publish runs", id, why, n, len(all), wantN)
		}
	}
	echoed := map[int]bool{}
	eventbus.SubscribeContext(bus, func(ctx context.Context, e Plain) {
		mu.Lock()
		again := echo[e.ID] && !echoed[e.ID] && !abort[e.ID]
		if again {
			echoed[e.ID] = true
			pubCount[e.ID]++
		}
		mu.Unlock()
		if again {
			eventbus.PublishContext(bus, ctx, e)
		}
	})
	eventbus.Subscribe(bus, func(e Plain) {
		mu.Lock()
		delivered[e.ID]++
		mu.Unlock()
		inHandler(e.ID, false)
	})
	if c.AsyncH {
		eventbus.Subscribe(bus, func(e Plain) { inHandler(e.ID, true) }, eventbus.Async())
	}
	gate := make(chan struct{})
	shutdownErr := error(nil)
	if c.ShutdownAt > 0 {
		started := make(chan struct{})
		eventbus.Subscribe(bus, func(gateEv) { close(started); <-gate }, eventbus.Async())
		eventbus.Publish(bus, gateEv{true})
		<-started
	}
	reached := map[int]bool{} // the publish call returned or panicked
	publish := func(id int) {
		if id == c.ShutdownAt {
			ended, cancel := context.WithCancel(context.Background())
			cancel()
			shutdownErr = bus.Shutdown(ended)
		}
		defer func() {
			recover()
			mu.Lock()
			reached[id] = true
			mu.Unlock()
		}()
		mu.Lock()
		pubCount[id]++
		mu.Unlock()
		eventbus.Publish(bus, Plain{ID: id, S: "abort"})
	}
	if c.Publishers > 1 {
		var wg sync.WaitGroup
		for g := 0; g < c.Publishers; g++ {
			wg.Add(1)
			go func(g int) {
				defer wg.Done()
				for id := 1; id <= c.N; id++ {
					if id%c.Publishers == g {
						publish(id)
					}
				}
			}(g)
		}
		wg.Wait()
	} else {
		for id := 1; id <= c.N; id++ {
			publish(id)
		}
	}
	close(gate)
	bus.Wait()
	if c.ShutdownAt > 0 && shutdownErr == nil {
		// not this property's business (C06); nothing is claimed about
		// publishes after a Shutdown that reported success
		o.Class("shutdown_reported_success_case_not_judged")
		return o
	}
	for _, f := range fails {
		o.Failf("", "options %v (panic handler %v): %s", c.Options, hasPH, f)
	}
	if len(o.Viol) > 0 {
		return o
	}
	all, err := readAll(store)
	if err != nil {
		o.Failf("", "reading the store after the run: %v", err)
		return o
	}
	records := map[int]int{}
	for i, se := range all {
		records[idOf(se.Data)]++
		if i > 0 && !(all[i-1].Offset < se.Offset) {
			o.Failf("", "offsets not strictly increasing in log order: %q then %q", all[i-1].Offset, se.Offset)
			return o
		}
	}
	preAbort := c.PanicIn == "before" || c.PanicIn == "beforectx"
	for id := 1; id <= c.N; id++ {
		switch {
		case !abort[id]:
			if records[id] != pubCount[id] || delivered[id] != pubCount[id] {
				o.Failf("", "options %v: event %d (no hook panicked for it, %d publishes of that value) has %d records and %d deliveries", c.Options, id, pubCount[id], records[id], delivered[id])
				return o
			}
		case preAbort:
			if records[id] > 1 || delivered[id] > 1 || (delivered[id] == 1 && records[id] != 1) {
				o.Failf("", "options %v: event %d (the %s hook panicked for it) has %d records and %d deliveries", c.Options, id, c.PanicIn, records[id], delivered[id])
				return o
			}
		default:
			// the hook after dispatch panicked: the event was persisted and delivered before
			if records[id] != 1 || delivered[id] != 1 {
				o.Failf("", "options %v: event %d (the %s hook panicked for it, after dispatch) has %d records and %d deliveries, expected one each", c.Options, id, c.PanicIn, records[id], delivered[id])
				return o
			}
		}
	}
	if len(c.Abort) > 0 && len(c.Abort) < c.N {
		o.Nontrivial = true
		o.Class("some_publishes_aborted_by_a_panicking_hook_some_not")
	}
	if hasPH && len(c.Abort) > 0 && preAbort {
		o.Class("before_hook_panics_with_a_panic_handler_installed")
	}
	if c.Publishers > 1 {
		o.Class("concurrent_publishers")
	}
	if c.ShutdownAt > 0 && c.ShutdownAt <= c.N {
		o.Class("publishes_after_a_shutdown_attempt_that_timed_out")
	}
	return o
}
