//go:build verif

package c12

import (
	"testing"

	"pgregory.net/rapid"
	"verif/vkit"
)

const rule = "histories of 1-4 runs over persistent stores (memory objects kept across runs, a SQLite file reopened for every run or - a third of the SQLite cases - one :memory: SQLite store kept across the runs, a durable-streams server with a separate subscription store): each run builds a new bus on wrapper stores, calls SubscribeWithReplay for ids A, B (type T1) and C (type T2), publishes T1/T2/T3 events - also from inside the replay callback and from inside the store's LoadOffset call of a running SubscribeWithReplay - and ends cleanly, with a crash before/after the c-th store operation of the run (every Append, Read, stream row, SaveOffset, LoadOffset is a crash point), or with one store operation failing, or (SQLite file store) with a driver error on the k-th row fetch of the run; streaming or paged replay with batch sizes 1-3 or default; a final clean run subscribes every id. Oracle per subscription: every persisted event of its type is delivered (no loss), first deliveries follow log order, nothing is delivered twice within a run, an event is delivered again only if its position had not been saved when that run began, no repeats at all without crash or fault; saved offsets were issued by the store and never move backwards. Non-trivial = >=1 restart with a crash or fault."

var collMem = vkit.NewCollector("C12", "TestResumeMemory", rule)
var collSQL = vkit.NewCollector("C12", "TestResumeSQLite", rule)
var collDS = vkit.NewCollector("C12", "TestResumeDurable", rule)

func TestMain(m *testing.M) { vkit.Main(m) }

func TestResumeMemory(t *testing.T)  { vkit.Check(t, collMem, Gen("memory"), Run) }
func TestResumeSQLite(t *testing.T)  { vkit.Check(t, collSQL, Gen("sqlite"), Run) }
func TestResumeDurable(t *testing.T) { vkit.Check(t, collDS, Gen("durable"), Run) }

var collSched = vkit.NewCollector("C12", "TestScheduledPublishers", "1-3 publishers of 1-3 events each on a bus with a live replay subscription, run under the cooperative scheduler (context switches between a publish's append and its dispatch (the subscription's filter), at every handler and before every SaveOffset; the schedule is drawn), the process dying before a drawn scheduling step, then a restart with SubscribeWithReplay. Oracle: no persisted event of the type is lost, no repeats without a crash, first deliveries in log order. Non-trivial = >=2 publishers and a crash.")

func TestScheduledPublishers(t *testing.T) {
	rapid.Check(t, func(rt *rapid.T) {
		c := GenSched(rt)
		if v := collSched.Account(c, RunSched(t, c)); v != nil {
			vkit.SaveFail("C12", "TestScheduledPublishers", c, v)
			rt.Fatalf("%s", v.Error())
		}
	})
}

var collFree = vkit.NewCollector("C12", "TestFreePublishers", "2-6 free-running publishers x 1-10 events of the subscribed type on a bus with a live replay subscription (memory store), SaveOffset delayed by drawn yields, 10 fresh buses per case, race detector, drawn GOMAXPROCS. Oracle: every event delivered live exactly once, the sequence of completed SaveOffset calls never moves backwards, and after quiescence the saved offset is the last event's. Non-trivial = >=2 publishers.")

func TestFreePublishers(t *testing.T) { vkit.Check(t, collFree, GenFree, RunFree) }

var collProbe = vkit.NewCollector("C12", "TestKnownProbes", "deterministic replay of the history behind the listed known finding")

func TestKnownProbes(t *testing.T) {
	vs := Probes().Viol
	vs = append(vs, RunSched(t, SchedProbe()).Viol...)
	if v := collProbe.Judge(vs); v != nil {
		vkit.SaveFail("C12", "TestKnownProbes", map[string]string{"probe": v.Sig}, v)
		t.Fatalf("%s", v.Error())
	}
}

func TestReplay(t *testing.T) {
	r := vkit.NeedReplay(t)
	_ = vkit.ReplayCase(t, r, collSched, func(c *SchedCase) *vkit.Outcome { return RunSched(t, c) }) || vkit.ReplayCase(t, r, collFree, RunFree) || vkit.ReplayCase(t, r, collMem, Run) || vkit.ReplayCase(t, r, collSQL, Run) || vkit.ReplayCase(t, r, collDS, Run)
}
