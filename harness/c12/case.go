//go:build verif

// Package c12 decides property C12: a resumable subscription sees each event
// of its type once across restarts - under crashes after any store operation,
// single store faults and publishes interleaved with SubscribeWithReplay.
package c12

import (
	"context"
	"encoding/json"
	"fmt"
	"path/filepath"
	"sort"
	"strings"
	"time"

	eventbus "github.com/jilio/ebu"
	"github.com/jilio/ebu/stores/sqlite"
	"verif/busmodel"
	"verif/storekit"
	"verif/vkit"
)

type T1 struct {
	N int `json:"n"`
}
type T2 struct {
	N int `json:"n"`
}
type T3 struct {
	N int `json:"n"`
}

// T2 has a name method on the pointer receiver but is published and
// subscribed by value: a value does not carry that method, so its events go
// by the Go type name - on the publishing and on the subscribing side alike.
func (*T2) EventTypeName() string { return "c12.t2.named-on-the-pointer" }

// Subscriptions: id -> event type index (1 or 2).  A and B follow T1
// independently, C follows T2.
var subType = map[string]int{"A": 1, "B": 1, "C": 2}

type Step struct {
	K  string `json:"k"`            // sub pub
	ID string `json:"id,omitempty"` // sub: subscription id
	T  int    `json:"t,omitempty"`  // pub: event type 1..3
	// sub: publish an event of type NestT from inside the replay callback at its NestAt-th delivery (0 = never)
	NestAt int `json:"nest_at,omitempty"`
	NestT  int `json:"nest_t,omitempty"`
	// sub: publish an event of type StoreNestT from inside the store's LoadOffset call of this SubscribeWithReplay
	StoreNestT int `json:"store_nest_t,omitempty"`
	// StoreNestOp: the store operation of this SubscribeWithReplay call
	// (1-based, any kind: the load, page reads, saves) inside which that
	// event is published; 0 or 1 = its first operation (the LoadOffset).
	StoreNestOp int `json:"store_nest_op,omitempty"`
	// sub: when SubscribeWithReplay returns an error (an injected store
	// failure), the application calls it again on the same bus, as it would
	// after a transient failure
	Retry bool `json:"retry,omitempty"`
}

type RunSpec struct {
	Steps       []Step `json:"steps"`
	CrashAt     int    `json:"crash_at,omitempty"` // store operation (sequence number within the run) at which the process dies; 0 = clean stop
	CrashBefore bool   `json:"crash_before,omitempty"`
	FaultAt     int    `json:"fault_at,omitempty"` // store operation that fails with an injected error; 0 = none
	// RowFault > 0 (SQLite file store): the RowFault-th row fetch of the run
	// (database/sql Rows.Next, counted over all queries: saved-position
	// lookups, stream rows, page reads) fails with a driver error.
	RowFault int `json:"row_fault,omitempty"`
}

type Case struct {
	Store  string `json:"store"`  // memory sqlite durable
	Stream bool   `json:"stream"` // the wrapper exposes ReadStream (memory/sqlite)
	Batch  int    `json:"batch,omitempty"`
	// Amb is a busmodel.Ambient mask (observability, hooks, handlers,
	// persistence timeout of an hour) that must not change anything.
	Amb int `json:"amb,omitempty"`
	// HonourCtx makes the wrapped store refuse calls whose context is done.
	HonourCtx bool `json:"honour_ctx,omitempty"`
	// SubVia: how the bus learns where positions are kept.  "" = the event
	// store (wrapper) is itself a SubscriptionStore; "option" = the event
	// store is not, positions go through WithSubscriptionStore; "both" =
	// WithSubscriptionStore is given AND the event store is a
	// SubscriptionStore too (a second, unrelated position table): the
	// explicitly configured one is the subscription store.
	SubVia string    `json:"sub_via,omitempty"`
	Runs   []RunSpec `json:"runs"` // a final clean run subscribing every id is appended by the interpreter
}

type delivery struct {
	run int
	id  string
	n   int
}

type exec struct {
	c     *Case
	o     *vkit.Outcome
	inner eventbus.EventStore
	subIn eventbus.SubscriptionStore
	wrap  eventbus.EventStore
	base  *storekit.Base
	nextN int
	deliv []delivery
	swr   map[string]bool // ids whose SubscribeWithReplay is running
	// events appended while a SubscribeWithReplay was running: n -> ids
	during          map[int][]string
	curN            []int // stack of event numbers being appended (to attribute appends)
	savedAtStart    []map[string]eventbus.Offset
	cleanup         func()
	reopen          func() error
	plan            *storekit.FaultPlan        // SQLite file store: driver-level faults
	subOpt          eventbus.SubscriptionStore // given to WithSubscriptionStore when SubVia is option/both
	decoy           *eventbus.MemoryStore
	anyCrashOrFault bool
	retried         bool // a failed SubscribeWithReplay was called again on the same bus
}

func (x *exec) open() error {
	switch x.c.Store {
	case "memory":
		ms := eventbus.NewMemoryStore()
		x.inner, x.subIn = ms, ms
		x.reopen = func() error { return nil }
	case "sqlitemem":
		// a :memory: database: one store object kept across the runs
		st, err := sqlite.New(":memory:")
		if err != nil {
			return err
		}
		x.inner, x.subIn = st, st
		x.cleanup = func() { st.Close() }
		x.reopen = func() error { return nil }
	case "sqlite":
		dir, cl := storekit.TempDir("c12-")
		st, plan, err := storekit.OpenSQLiteFaulty(filepath.Join(dir, "sub.db"))
		if err != nil {
			cl()
			return err
		}
		x.inner, x.subIn, x.plan = st, st, plan
		x.cleanup = func() {
			if c, ok := x.inner.(interface{ Close() error }); ok {
				c.Close()
			}
			cl()
		}
		x.reopen = func() error {
			if c, ok := x.inner.(interface{ Close() error }); ok {
				c.Close()
			}
			st, plan, err := storekit.OpenSQLiteFaulty(filepath.Join(dir, "sub.db"))
			if err != nil {
				return err
			}
			x.inner, x.subIn, x.plan = st, st, plan
			return nil
		}
	case "durable":
		srv := storekit.NewDSServer(1) // one event per chunk: offsets of events are then true resume points
		st, err := srv.Open("subs")
		if err != nil {
			return err
		}
		x.inner = st
		x.subIn = eventbus.NewMemoryStore() // durable-streams has no subscription store: positions live in a separate one
		x.reopen = func() error {
			st, err := srv.Open("subs")
			if err != nil {
				return err
			}
			x.inner = st
			return nil
		}
	}
	return nil
}

func (x *exec) buildWrapper() {
	b := &storekit.Base{Inner: x.inner, SubInner: x.subIn}
	x.base = b
	_, canStream := x.inner.(eventbus.EventStoreStreamer)
	stream := x.c.Stream && canStream
	x.subOpt = nil
	switch x.c.SubVia {
	case "option":
		x.subOpt = storekit.SubOnly{Base: b}
		if stream {
			x.wrap = storekit.Streaming{Base: b}
		} else {
			x.wrap = storekit.Paged{Base: b}
		}
	case "both":
		x.subOpt = storekit.SubOnly{Base: b}
		if x.decoy == nil {
			x.decoy = eventbus.NewMemoryStore()
		}
		if stream {
			x.wrap = decoyStreaming{storekit.Streaming{Base: b}, x.decoy}
		} else {
			x.wrap = decoyPaged{storekit.Paged{Base: b}, x.decoy}
		}
	default:
		if stream {
			x.wrap = storekit.StreamingSub{Base: b}
		} else {
			x.wrap = storekit.PagedSub{Base: b}
		}
	}
}

// decoyPaged / decoyStreaming: an event store that also offers a position
// table of its own (kept across the runs), unrelated to the one configured
// with WithSubscriptionStore.
type decoyPaged struct {
	storekit.Paged
	d *eventbus.MemoryStore
}

func (s decoyPaged) SaveOffset(ctx context.Context, id string, off eventbus.Offset) error {
	return s.d.SaveOffset(ctx, id, off)
}
func (s decoyPaged) LoadOffset(ctx context.Context, id string) (eventbus.Offset, error) {
	return s.d.LoadOffset(ctx, id)
}

type decoyStreaming struct {
	storekit.Streaming
	d *eventbus.MemoryStore
}

func (s decoyStreaming) SaveOffset(ctx context.Context, id string, off eventbus.Offset) error {
	return s.d.SaveOffset(ctx, id, off)
}
func (s decoyStreaming) LoadOffset(ctx context.Context, id string) (eventbus.Offset, error) {
	return s.d.LoadOffset(ctx, id)
}

func (x *exec) publish(bus *eventbus.EventBus, t int) {
	x.nextN++
	n := x.nextN
	x.curN = append(x.curN, n)
	defer func() { x.curN = x.curN[:len(x.curN)-1] }()
	switch t {
	case 1:
		eventbus.Publish(bus, T1{N: n})
	case 2:
		eventbus.Publish(bus, T2{N: n})
	default:
		eventbus.Publish(bus, T3{N: n})
	}
}

func guard(f func()) (crashed bool) {
	defer func() {
		if r := recover(); r != nil {
			if _, ok := r.(storekit.Crash); ok {
				crashed = true
				return
			}
			panic(r)
		}
	}()
	f()
	return false
}

func (x *exec) subscribe(ctx context.Context, bus *eventbus.EventBus, run int, st Step) error {
	id := st.ID
	count := 0
	record := func(n int) {
		if x.base.Dead() {
			return // the process is gone: nothing after the crash point counts
		}
		x.deliv = append(x.deliv, delivery{run, id, n})
		count++
		if st.NestAt > 0 && count == st.NestAt && x.swr[id] {
			x.publish(bus, st.NestT)
		}
	}
	x.swr[id] = true
	defer func() { x.swr[id] = false }()
	switch subType[id] {
	case 1:
		return eventbus.SubscribeWithReplay(ctx, bus, id, func(e T1) { record(e.N) })
	default:
		return eventbus.SubscribeWithReplay(ctx, bus, id, func(e T2) { record(e.N) })
	}
}

func (x *exec) run(ri int, r RunSpec, final bool) {
	ctx := context.Background()
	if err := x.reopen(); err != nil {
		x.o.Failf("", "run %d: reopening the store failed: %v", ri, err)
		return
	}
	x.buildWrapper()
	// saved positions when the run begins (read from the inner store directly)
	saved := map[string]eventbus.Offset{}
	for id := range subType {
		off, _ := x.subIn.LoadOffset(ctx, id)
		saved[id] = off
	}
	x.savedAtStart = append(x.savedAtStart, saved)
	if x.plan != nil && r.RowFault > 0 {
		x.plan.Reset()
		x.plan.NextFail = r.RowFault
		x.plan.Arm(true)
		defer func() {
			if nexts, _, _, _ := x.plan.Counts(); nexts >= r.RowFault {
				x.anyCrashOrFault = true
				x.o.Class("driver_row_fetch_fault_fired")
			}
			x.plan.Reset()
		}()
	}
	var bus *eventbus.EventBus
	var curStep *Step
	subOps := 0 // store operations since the current sub step began
	x.base.AfterOp = func(op string) {
		if op == "append" && len(x.curN) > 0 {
			n := x.curN[len(x.curN)-1]
			for id, on := range x.swr {
				if on {
					x.during[n] = append(x.during[n], id)
				}
			}
		}
	}
	x.base.SetHook(func(op string, n, seq int, _ context.Context) storekit.Action {
		if r.CrashAt > 0 && seq == r.CrashAt {
			x.anyCrashOrFault = true
			if r.CrashBefore {
				return storekit.Action{CrashBefore: true}
			}
			return storekit.Action{CrashAfter: true}
		}
		if r.FaultAt > 0 && seq == r.FaultAt {
			x.anyCrashOrFault = true
			return storekit.Action{Err: storekit.ErrInjected}
		}
		if curStep != nil && curStep.StoreNestT > 0 && bus != nil {
			subOps++
			at := curStep.StoreNestOp
			if at < 1 {
				at = 1
			}
			if subOps == at {
				t := curStep.StoreNestT
				curStep.StoreNestT = 0
				if op != "load" {
					x.o.Class("publish_inside_a_later_store_operation_of_SubscribeWithReplay_" + op)
				}
				x.publish(bus, t)
			}
		}
		return storekit.Action{}
	})
	opts := []eventbus.Option{eventbus.WithStore(x.wrap)}
	if x.subOpt != nil {
		opts = append(opts, eventbus.WithSubscriptionStore(x.subOpt))
	}
	if x.c.Batch > 0 {
		opts = append(opts, eventbus.WithReplayBatchSize(x.c.Batch))
	}
	opts = append(opts, busmodel.Ambient(x.c.Amb&^(busmodel.AmbStore|busmodel.AmbBatchSize))...)
	x.base.HonourCtx = x.c.HonourCtx
	bus = eventbus.New(opts...)
	// an unrelated plain subscriber of every type (never re-publishes)
	eventbus.Subscribe(bus, func(T1) {})
	eventbus.Subscribe(bus, func(T3) {})
	for si := range r.Steps {
		st := r.Steps[si]
		if x.base.Dead() {
			break
		}
		crashed := guard(func() {
			switch st.K {
			case "sub":
				cp := st
				curStep = &cp
				subOps = 0
				err := x.subscribe(ctx, bus, ri, cp)
				if err != nil && cp.Retry && !x.base.Dead() {
					x.retried = true
					cp.NestAt, cp.StoreNestT = 0, 0
					_ = x.subscribe(ctx, bus, ri, cp)
				}
				curStep = nil
			case "pub":
				x.publish(bus, st.T)
			}
		})
		if crashed {
			break
		}
	}
	guard(func() { bus.Wait() })
	x.base.SetHook(nil)
	x.base.AfterOp = nil
}

// Run executes the whole history and evaluates the oracle.
// Run executes the case under a watchdog (nothing in it waits on purpose):
// 30 s without an end, twice, is a hang.
func Run(c *Case) *vkit.Outcome {
	var res *vkit.Outcome
	timedOut, dump := vkit.Watchdog(30*time.Second, func() { res = run(c) })
	if timedOut {
		again, dump2 := vkit.Watchdog(30*time.Second, func() { res = run(c) })
		if again {
			o := &vkit.Outcome{}
			if len(dump2) > 6000 {
				dump2 = dump2[:6000]
			}
			o.Failf("", "store %s: the history did not finish within 30 s, twice (SubscribeWithReplay, a publish or a store call blocked); goroutines:\n%s", c.Store, dump2)
			return o
		}
		_ = dump
	}
	return res
}

func run(c *Case) *vkit.Outcome {
	o := &vkit.Outcome{}
	storekit.SetVariant(vkit.HashOf(c))
	x := &exec{c: c, o: o, swr: map[string]bool{}, during: map[int][]string{}}
	if err := x.open(); err != nil {
		o.Failf("", "open: %v", err)
		return o
	}
	if x.cleanup != nil {
		defer x.cleanup()
	}
	runs := append([]RunSpec{}, c.Runs...)
	// the final clean run subscribes every id
	runs = append(runs, RunSpec{Steps: []Step{{K: "sub", ID: "A"}, {K: "sub", ID: "B"}, {K: "sub", ID: "C"}}})
	var allSaves [][2]string
	for ri, r := range runs {
		x.run(ri, r, ri == len(runs)-1)
		if len(o.Viol) > 0 {
			return o
		}
		allSaves = append(allSaves, x.base.Saves...)
	}
	x.reopen()
	// the persisted log
	ctx := context.Background()
	var log []*eventbus.StoredEvent
	cur := eventbus.OffsetOldest
	for i := 0; i < 10000; i++ {
		page, next, err := x.inner.Read(ctx, cur, 0)
		if err != nil {
			o.Failf("", "reading the final log: %v", err)
			return o
		}
		if len(page) == 0 {
			break
		}
		log = append(log, page...)
		cur = next
	}
	typeNames := map[string]int{eventbus.EventType(T1{}): 1, eventbus.EventType(T2{}): 2, eventbus.EventType(T3{}): 3}
	pos := map[int]int{}            // event number -> log position (1-based)
	L := map[int][]int{}            // type -> event numbers in log order
	offPos := map[string]int{"": 0} // offset string -> position
	for i, se := range log {
		var e struct {
			N int `json:"n"`
		}
		json.Unmarshal(se.Data, &e)
		pos[e.N] = i + 1
		t := typeNames[se.Type]
		L[t] = append(L[t], e.N)
		offPos[string(se.Offset)] = i + 1
	}
	// offsets handed out by Append differ from read offsets on durable-streams
	posOfOffset := func(off string) (int, bool) {
		if p, ok := offPos[off]; ok {
			return p, true
		}
		if off == "0" {
			return 0, true
		}
		if c.Store == "durable" {
			s := off
			if i := strings.Index(s, "/"); i >= 0 {
				s = s[:i]
			}
			var n int
			if _, err := fmt.Sscanf(s, "%d", &n); err == nil {
				return n, true
			}
		}
		return 0, false
	}

	desc := fmt.Sprintf("store %s stream=%v batch=%d", c.Store, c.Stream, c.Batch)
	for id, t := range subType {
		var D []delivery
		for _, d := range x.deliv {
			if d.id == id {
				D = append(D, d)
			}
		}
		// within one run nothing is delivered twice; repeats across runs only for unsaved positions
		seenRun := map[[2]int]bool{}
		first := map[int]bool{}
		var firsts []int
		for _, d := range D {
			p, persisted := pos[d.n]
			if !persisted {
				continue // a publish whose append failed: delivered live, not part of the log
			}
			if seenRun[[2]int{d.run, d.n}] {
				o.Failf("", "%s: subscription %s received event %d twice within run %d", desc, id, d.n, d.run)
				return o
			}
			seenRun[[2]int{d.run, d.n}] = true
			if first[d.n] {
				// redelivery: only allowed if its position was not saved when this run began
				sp, known := posOfOffset(string(x.savedAtStart[d.run][id]))
				if known && sp >= p {
					sig := ""
					o.Failf(sig, "%s: subscription %s received event %d (log position %d) again in run %d although position %d had been saved before that run started; deliveries %v, runs %+v", desc, id, d.n, p, d.run, sp, fmtDeliv(D), c.Runs)
					return o
				}
				continue
			}
			first[d.n] = true
			firsts = append(firsts, d.n)
		}
		if !x.anyCrashOrFault {
			var all []int
			for _, d := range D {
				if _, ok := pos[d.n]; ok {
					all = append(all, d.n)
				}
			}
			if len(all) != len(firsts) {
				o.Failf("", "%s: no crash and no fault, yet subscription %s received repeats: %v", desc, id, fmtDeliv(D))
				return o
			}
		}
		// no loss, log order
		want := L[t]
		lost := []int{}
		got := map[int]bool{}
		for _, n := range firsts {
			got[n] = true
		}
		for _, n := range want {
			if !got[n] {
				lost = append(lost, n)
			}
		}
		var unexplained []int
		for _, n := range lost {
			explained := false
			for _, did := range x.during[n] {
				if did == id {
					explained = true
				}
			}
			if explained {
				o.Failf("gap:appended-during-subscribe-with-replay", "%s: subscription %s never received event %d, which was appended while its SubscribeWithReplay call was running (in neither the replay nor the live phase)", desc, id, n)
			} else {
				unexplained = append(unexplained, n)
			}
		}
		if len(unexplained) > 0 {
			o.Failf("", "%s: subscription %s never received persisted events %v of its type (log %v, first deliveries %v); runs %+v", desc, id, unexplained, want, firsts, c.Runs)
			return o
		}
		// order of first deliveries == log order (ignoring known gaps)
		idx := 0
		lostSet := map[int]bool{}
		for _, n := range lost {
			lostSet[n] = true
		}
		for _, n := range want {
			if lostSet[n] {
				continue
			}
			if idx >= len(firsts) || firsts[idx] != n {
				// order deviations caused by an event appended during SubscribeWithReplay are the same known gap
				o.Failf(orderSig(x, id, firsts, want), "%s: subscription %s received events in order %v, log order is %v", desc, id, firsts, want)
				break
			}
			idx++
		}
	}
	// saved positions never move backwards, and every saved offset is one the store issued
	last := map[string]int{}
	for _, sv := range allSaves {
		p, known := posOfOffset(sv[1])
		if !known {
			o.Failf("", "%s: subscription %s saved offset %q, which the store never issued", desc, sv[0], sv[1])
			return o
		}
		if p < last[sv[0]] {
			o.Failf("", "%s: the saved offset of subscription %s moved backwards: position %d after %d (offset %q); saves %v", desc, sv[0], p, last[sv[0]], sv[1], allSaves)
			return o
		}
		last[sv[0]] = p
	}
	// classification
	restarts := len(c.Runs)
	if restarts >= 1 && x.anyCrashOrFault {
		o.Nontrivial = true
		o.Class("restart_with_crash_or_fault")
	}
	if len(x.during) > 0 {
		o.Class("publish_during_subscribe_with_replay")
	}
	o.Class("store_" + c.Store)
	if x.retried {
		o.Class("failed_SubscribeWithReplay_retried_on_the_same_bus")
	}
	if c.SubVia != "" {
		o.Class("positions_through_WithSubscriptionStore_" + c.SubVia)
	}
	return o
}

func orderSig(x *exec, id string, firsts, want []int) string {
	for n, ids := range x.during {
		for _, d := range ids {
			if d == id {
				_ = n
				return "gap:appended-during-subscribe-with-replay"
			}
		}
	}
	return ""
}

func fmtDeliv(D []delivery) string {
	var parts []string
	for _, d := range D {
		parts = append(parts, fmt.Sprintf("r%d:%d", d.run, d.n))
	}
	return "[" + strings.Join(parts, " ") + "]"
}

var _ = sort.Ints
