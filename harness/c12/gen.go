//go:build verif

package c12

import "pgregory.net/rapid"

func Gen(store string) func(t *rapid.T) *Case {
	return func(t *rapid.T) *Case {
		c := &Case{Store: store, Stream: rapid.Bool().Draw(t, "stream"), Batch: rapid.SampledFrom([]int{0, 0, 1, 2, 3}).Draw(t, "batch")}
		if store == "durable" {
			c.Stream = false
			c.Batch = 0
		}
		nr := rapid.IntRange(1, 4).Draw(t, "nruns")
		for r := 0; r < nr; r++ {
			var rs RunSpec
			ns := rapid.IntRange(1, 10).Draw(t, "nsteps")
			subbed := map[string]bool{}
			for i := 0; i < ns; i++ {
				if rapid.IntRange(0, 3).Draw(t, "issub") == 0 {
					id := rapid.SampledFrom([]string{"A", "A", "B", "C"}).Draw(t, "id")
					if subbed[id] {
						rs.Steps = append(rs.Steps, Step{K: "pub", T: rapid.SampledFrom([]int{1, 1, 2, 3}).Draw(t, "pt")})
						continue
					}
					subbed[id] = true
					st := Step{K: "sub", ID: id}
					switch rapid.IntRange(0, 5).Draw(t, "nest") {
					case 0:
						st.NestAt = rapid.IntRange(1, 3).Draw(t, "nestAt")
						st.NestT = rapid.SampledFrom([]int{1, 2, 3}).Draw(t, "nestT")
					case 1:
						st.StoreNestT = rapid.SampledFrom([]int{1, 2}).Draw(t, "storeNestT")
					}
					rs.Steps = append(rs.Steps, st)
				} else {
					rs.Steps = append(rs.Steps, Step{K: "pub", T: rapid.SampledFrom([]int{1, 1, 1, 2, 3}).Draw(t, "pt")})
				}
			}
			switch rapid.IntRange(0, 3).Draw(t, "end") {
			case 0:
				rs.CrashAt = rapid.IntRange(1, 30).Draw(t, "crashAt")
				rs.CrashBefore = rapid.Bool().Draw(t, "crashBefore")
			case 1:
				rs.FaultAt = rapid.IntRange(1, 30).Draw(t, "faultAt")
			}
			c.Runs = append(c.Runs, rs)
		}
		return c
	}
}
