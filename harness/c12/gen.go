//go:build verif

package c12

import (
	"pgregory.net/rapid"
	"verif/busmodel"
)

func Gen(store string) func(t *rapid.T) *Case {
	return func(t *rapid.T) *Case {
		c := &Case{Store: store, Stream: rapid.Bool().Draw(t, "stream"), Batch: rapid.SampledFrom([]int{0, 0, 1, 2, 3}).Draw(t, "batch")}
		if rapid.Bool().Draw(t, "ambient") {
			c.Amb = rapid.IntRange(0, busmodel.AmbAll).Draw(t, "amb")
		}
		c.HonourCtx = rapid.Bool().Draw(t, "honourctx")
		c.SubVia = rapid.SampledFrom([]string{"", "", "option", "both"}).Draw(t, "subVia")
		if store == "sqlite" && rapid.IntRange(0, 2).Draw(t, "inmemory") == 0 {
			c.Store = "sqlitemem"
		}
		if store == "durable" {
			c.Stream = false
			c.Batch = 0
		}
		nr := rapid.IntRange(1, 4).Draw(t, "nruns")
		for r := 0; r < nr; r++ {
			var rs RunSpec
			ns := rapid.IntRange(1, 10).Draw(t, "nsteps")
			subbed := map[string]bool{}
			for i := 0; i < ns; i++ {
				if rapid.IntRange(0, 3).Draw(t, "issub") == 0 {
					id := rapid.SampledFrom([]string{"A", "A", "B", "C"}).Draw(t, "id")
					if subbed[id] {
						rs.Steps = append(rs.Steps, Step{K: "pub", T: rapid.SampledFrom([]int{1, 1, 2, 3}).Draw(t, "pt")})
						continue
					}
					subbed[id] = true
					st := Step{K: "sub", ID: id, Retry: rapid.Bool().Draw(t, "retry")}
					switch rapid.IntRange(0, 5).Draw(t, "nest") {
					case 0:
						st.NestAt = rapid.IntRange(1, 3).Draw(t, "nestAt")
						st.NestT = rapid.SampledFrom([]int{1, 2, 3}).Draw(t, "nestT")
					case 1, 2:
						st.StoreNestT = rapid.SampledFrom([]int{1, 2}).Draw(t, "storeNestT")
						st.StoreNestOp = rapid.IntRange(1, 8).Draw(t, "storeNestOp")
					}
					rs.Steps = append(rs.Steps, st)
				} else {
					rs.Steps = append(rs.Steps, Step{K: "pub", T: rapid.SampledFrom([]int{1, 1, 1, 2, 3}).Draw(t, "pt")})
				}
			}
			switch rapid.IntRange(0, 3).Draw(t, "end") {
			case 0:
				rs.CrashAt = rapid.IntRange(1, 30).Draw(t, "crashAt")
				rs.CrashBefore = rapid.Bool().Draw(t, "crashBefore")
			case 1:
				rs.FaultAt = rapid.IntRange(1, 30).Draw(t, "faultAt")
			case 2:
				if c.Store == "sqlite" {
					rs.RowFault = rapid.IntRange(1, 8).Draw(t, "rowFault")
				}
			}
			c.Runs = append(c.Runs, rs)
		}
		return c
	}
}

func GenSched(t *rapid.T) *SchedCase {
	c := &SchedCase{}
	nt := rapid.IntRange(1, 3).Draw(t, "ntasks")
	for i := 0; i < nt; i++ {
		n := rapid.IntRange(1, 3).Draw(t, "nev")
		var evs []int
		for j := 0; j < n; j++ {
			evs = append(evs, rapid.SampledFrom([]int{1, 1, 1, 3}).Draw(t, "ty"))
		}
		c.Tasks = append(c.Tasks, evs)
	}
	c.Schedule = rapid.SliceOfN(rapid.IntRange(0, 2), 0, 40).Draw(t, "schedule")
	if rapid.IntRange(0, 3).Draw(t, "crash") != 0 {
		c.CrashStep = rapid.IntRange(1, 25).Draw(t, "crashStep")
	}
	return c
}

func GenFree(t *rapid.T) *FreeCase {
	c := &FreeCase{Rounds: 10, Procs: rapid.SampledFrom([]int{2, 4, 16}).Draw(t, "procs")}
	np := rapid.IntRange(2, 6).Draw(t, "np")
	for i := 0; i < np; i++ {
		c.Publishers = append(c.Publishers, rapid.IntRange(1, 10).Draw(t, "n"))
	}
	c.SaveNoise = rapid.SliceOfN(rapid.IntRange(0, 4), 1, 5).Draw(t, "noise")
	return c
}
