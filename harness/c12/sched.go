//go:build verif

package c12

import (
	"context"
	"encoding/json"
	"fmt"
	"runtime"
	"sync"
	"sync/atomic"
	"testing"
	"time"

	eventbus "github.com/jilio/ebu"
	"verif/sched"
	"verif/storekit"
	"verif/vkit"
)

// SchedCase: concurrent publishers on a bus with a live replay subscription,
// under the cooperative scheduler, with the process dying at a drawn step;
// then a restart.
type SchedCase struct {
	Tasks     [][]int `json:"tasks"` // per publisher: event types (1 = subscribed type, 3 = other)
	Schedule  []int   `json:"schedule"`
	CrashStep int     `json:"crash_step"` // the process dies before this scheduling decision (0 = never)
}

func RunSched(t *testing.T, c *SchedCase) *vkit.Outcome {
	o := &vkit.Outcome{}
	ctx := context.Background()
	ms := eventbus.NewMemoryStore()
	base := &storekit.Base{Inner: ms, SubInner: ms}
	wrap := storekit.StreamingSub{Base: base}
	var mu sync.Mutex
	type deliv struct {
		run, n int
	}
	var D []deliv
	handling := map[uint64]int{} // goroutine -> event it is handling (live phase)
	type saveRec struct {
		off     string
		byEvent int
		seen    map[int]bool // events delivered so far when the save was issued
	}
	var saves []saveRec
	delivered := map[int]bool{}
	var s0 *sched.S
	yield := func(p string) {
		if s0 != nil {
			s0.Yield(p)
		}
	}
	// No yield inside Append: the bus calls the store under its store mutex,
	// and a task parked there would block the others on a (non-durable) mutex.
	// The window "appended but not yet dispatched" is reached through the
	// subscription's filter, which runs after the append and before the handler.
	base.SetHook(func(op string, n, seq int, _ context.Context) storekit.Action {
		if op == "save" {
			mu.Lock()
			g := vkit.Goid()
			seen := map[int]bool{}
			for k := range delivered {
				seen[k] = true
			}
			saves = append(saves, saveRec{byEvent: handling[g], seen: seen})
			mu.Unlock()
			// no yield here: the live handler reads and saves the offset under
			// a lock of its own, and a task parked inside it would block the others
		}
		return storekit.Action{}
	})
	bus := eventbus.New(eventbus.WithStore(wrap))
	err := eventbus.SubscribeWithReplay(ctx, bus, "A", func(e T1) {
		if base.Dead() {
			return
		}
		mu.Lock()
		D = append(D, deliv{0, e.N})
		delivered[e.N] = true
		handling[vkit.Goid()] = e.N
		mu.Unlock()
		yield("handler")
	}, eventbus.WithFilter(func(e T1) bool { yield("filter"); return true }))
	if err != nil {
		o.Failf("", "SubscribeWithReplay: %v", err)
		return o
	}
	nextN := 0
	var bodies []func(*sched.S)
	for _, evs := range c.Tasks {
		evs := evs
		bodies = append(bodies, func(s *sched.S) {
			s0 = s
			for _, ty := range evs {
				if base.Dead() {
					return
				}
				mu.Lock()
				nextN++
				n := nextN
				mu.Unlock()
				guard(func() {
					if ty == 1 {
						eventbus.Publish(bus, T1{N: n})
					} else {
						eventbus.Publish(bus, T3{N: n})
					}
				})
			}
		})
	}
	var abnormal string
	timedOut, _ := vkit.Watchdog(60*time.Second, func() {
		_, abnormal = sched.RunOpts(t, c.Schedule, bodies, func(step int) {
			if c.CrashStep > 0 && step == c.CrashStep {
				base.Kill()
			}
		})
	})
	if timedOut || abnormal != "" {
		o.Failf("", "scheduled run did not finish (timedOut=%v, %s)", timedOut, abnormal)
		return o
	}
	s0 = nil
	crashed := base.Dead()
	firstRunSaves := append([][2]string{}, base.Saves...)
	// restart
	base2 := &storekit.Base{Inner: ms, SubInner: ms}
	bus2 := eventbus.New(eventbus.WithStore(storekit.StreamingSub{Base: base2}))
	if err := eventbus.SubscribeWithReplay(ctx, bus2, "A", func(e T1) {
		mu.Lock()
		D = append(D, deliv{1, e.N})
		mu.Unlock()
	}); err != nil {
		o.Failf("", "SubscribeWithReplay after restart: %v", err)
		return o
	}
	log, _, _ := ms.Read(ctx, eventbus.OffsetOldest, 0)
	pos := map[int]int{}
	offPos := map[string]int{"": 0}
	var L []int
	t1 := eventbus.EventType(T1{})
	for i, se := range log {
		var e struct {
			N int `json:"n"`
		}
		json.Unmarshal(se.Data, &e)
		pos[e.N] = i + 1
		offPos[string(se.Offset)] = i + 1
		if se.Type == t1 {
			L = append(L, e.N)
		}
	}
	count := map[int]int{}
	var firsts []int
	for _, d := range D {
		if _, ok := pos[d.n]; !ok {
			continue
		}
		if count[d.n] == 0 {
			firsts = append(firsts, d.n)
		}
		count[d.n]++
	}
	multi := len(c.Tasks) >= 2
	for _, n := range L {
		if count[n] == 0 {
			// lost: is it explained by a save issued for another event while n was appended but undelivered?
			sig := ""
			if multi {
				for i, sv := range saves {
					if i < len(firstRunSaves) && offPos[firstRunSaves[i][1]] >= pos[n] && sv.byEvent != n && !sv.seen[n] {
						sig = "live-save:bus-last-offset-ahead"
					}
				}
			}
			o.Failf(sig, "subscription A never received persisted event %d (log position %d); a publisher had appended it but not yet dispatched it when another publisher's handler saved the bus's last offset; tasks %v schedule %v crash step %d, saves %v", n, pos[n], c.Tasks, c.Schedule, c.CrashStep, firstRunSaves)
		}
		if count[n] > 1 && !crashed {
			o.Failf("", "subscription A received event %d %d times without any crash", n, count[n])
		}
	}
	// order of first deliveries vs log order: with concurrent publishers append and dispatch are not atomic
	if fmt.Sprint(firsts) != fmt.Sprint(L) && len(firsts) == len(L) {
		sig := ""
		if multi {
			sig = "live-save:bus-last-offset-ahead"
		}
		o.Failf(sig, "subscription A received events in order %v, log order is %v (append and dispatch of concurrent publishers interleave)", firsts, L)
	}
	if multi && c.CrashStep > 0 {
		o.Nontrivial = true
		o.Class("concurrent_publishers_with_crash")
	}
	return o
}

// FreeCase: free-running concurrent publishers on a bus with a live replay
// subscription; the store's SaveOffset is slowed down by drawn yields so that
// a stale offset read earlier can be written late.
type FreeCase struct {
	Publishers []int `json:"publishers"` // events per publisher (all of the subscribed type)
	SaveNoise  []int `json:"save_noise"` // Gosched calls before a save takes effect (cyclic)
	Procs      int   `json:"procs"`
	Rounds     int   `json:"rounds"`
}

func RunFree(c *FreeCase) *vkit.Outcome {
	o := &vkit.Outcome{}
	if c.Procs > 0 {
		defer runtime.GOMAXPROCS(runtime.GOMAXPROCS(c.Procs))
	}
	ctx := context.Background()
	for round := 0; round < c.Rounds; round++ {
		ms := eventbus.NewMemoryStore()
		base := &storekit.Base{Inner: ms, SubInner: ms}
		var k atomic.Int32
		base.SetHook(func(op string, n, seq int, _ context.Context) storekit.Action {
			if op == "save" && len(c.SaveNoise) > 0 {
				for i := 0; i < c.SaveNoise[int(k.Add(1))%len(c.SaveNoise)]; i++ {
					runtime.Gosched()
				}
			}
			return storekit.Action{}
		})
		bus := eventbus.New(eventbus.WithStore(storekit.StreamingSub{Base: base}))
		var got atomic.Int32
		if err := eventbus.SubscribeWithReplay(ctx, bus, "A", func(e T1) { got.Add(1) }); err != nil {
			o.Failf("", "SubscribeWithReplay: %v", err)
			return o
		}
		var start, done sync.WaitGroup
		start.Add(1)
		total := 0
		for pi, n := range c.Publishers {
			done.Add(1)
			total += n
			go func(pi, n int) {
				defer done.Done()
				start.Wait()
				for i := 0; i < n; i++ {
					eventbus.Publish(bus, T1{N: pi*1000 + i})
				}
			}(pi, n)
		}
		start.Done()
		done.Wait()
		bus.Wait()
		if int(got.Load()) != total {
			o.Failf("", "round %d: %d events published, %d delivered live", round, total, got.Load())
			return o
		}
		// saved positions never move backwards (memory offsets are zero-padded, so string order is log order)
		last := ""
		for _, sv := range base.Saves {
			if sv[1] < last {
				o.Failf("", "round %d: the saved offset of subscription A moved backwards: %q after %q (concurrent live handlers; saves %v)", round, sv[1], last, base.Saves)
				return o
			}
			last = sv[1]
		}
		// after quiescence the saved position covers the whole log: a clean restart redelivers nothing
		all, _, _ := ms.Read(ctx, eventbus.OffsetOldest, 0)
		saved, _ := ms.LoadOffset(ctx, "A")
		if len(all) > 0 && saved != all[len(all)-1].Offset {
			o.Failf("", "round %d: all %d events were handled, yet the saved offset is %q (last event %q): a clean restart would deliver events again", round, len(all), saved, all[len(all)-1].Offset)
			return o
		}
	}
	if len(c.Publishers) >= 2 {
		o.Nontrivial = true
		o.Class("concurrent_live_publishers")
	}
	return o
}
