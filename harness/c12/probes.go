//go:build verif

package c12

import (
	"verif/vkit"
)

// SchedProbe is the recorded schedule behind live-save:bus-last-offset-ahead.
func SchedProbe() *SchedCase {
	return &SchedCase{Tasks: [][]int{{1}, {1}}, Schedule: []int{0, 1, 1, 1}, CrashStep: 4}
}

// Probes replays the recorded histories behind the known findings of C12.
func Probes() *vkit.Outcome {
	o := &vkit.Outcome{}
	// D12: event published from inside the replay callback of a streaming store
	c := &Case{Store: "memory", Stream: true, Runs: []RunSpec{
		{Steps: []Step{{K: "pub", T: 1}, {K: "pub", T: 1}}},
		{Steps: []Step{{K: "sub", ID: "A", NestAt: 1, NestT: 1}, {K: "pub", T: 1}}},
	}}
	r := Run(c)
	o.Viol = append(o.Viol, r.Viol...)
	return o
}
