//go:build verif

package c17

import (
	"context"
	"fmt"

	eventbus "github.com/jilio/ebu"
	"pgregory.net/rapid"
	"verif/vkit"
)

// LongCase: one chain t0 -> t1 -> ... -> tL of raw upcasters, registered in a
// drawn order (oldest first, newest first, shuffled), with one stored event
// at each of a few drawn levels.  The length of a chain is not limited by
// anything in the contract: every registration of the acyclic chain is
// accepted and every event is carried to tL, its trail listing each step.
type LongCase struct {
	L      int   `json:"l"`
	Order  []int `json:"order"`  // registration order: a permutation of the steps 0..L-1
	Levels []int `json:"levels"` // levels of the stored events
}

func GenLong(t *rapid.T) *LongCase {
	c := &LongCase{L: rapid.SampledFrom([]int{2, 7, 8, 9, 10, 17, 33, 64}).Draw(t, "l")}
	steps := make([]int, c.L)
	for i := range steps {
		steps[i] = i
	}
	switch rapid.IntRange(0, 2).Draw(t, "order") {
	case 0:
		c.Order = steps
	case 1:
		for i := c.L - 1; i >= 0; i-- {
			c.Order = append(c.Order, i)
		}
	default:
		c.Order = rapid.Permutation(steps).Draw(t, "perm")
	}
	c.Levels = []int{0, c.L}
	n := rapid.IntRange(0, 3).Draw(t, "nlevels")
	for i := 0; i < n; i++ {
		c.Levels = append(c.Levels, rapid.IntRange(0, c.L).Draw(t, "level"))
	}
	return c
}

func RunLong(c *LongCase) *vkit.Outcome {
	o := &vkit.Outcome{}
	store := eventbus.NewMemoryStore()
	bus := eventbus.New(eventbus.WithStore(store))
	regIndex := make([]int, c.L) // step -> index in registration order
	for ri, step := range c.Order {
		e := Edge{From: step, To: step + 1}
		regIndex[step] = ri
		if err := eventbus.RegisterUpcastFunc(bus, name(e.From), name(e.To), rawUpcaster(ri, e)); err != nil {
			o.Failf("", "registering step %d of an acyclic chain of %d (registration %d in order %v) failed: %v", step, c.L, ri, c.Order, err)
			return o
		}
	}
	ctx := context.Background()
	for _, lv := range c.Levels {
		store.Append(ctx, &eventbus.Event{Type: name(lv), Data: withTrail(`{"lv":`+fmt.Sprint(lv)+`}`, nil)})
	}
	i := 0
	err := bus.ReplayWithUpcast(ctx, eventbus.OffsetOldest, func(se *eventbus.StoredEvent) error {
		if i < len(c.Levels) {
			lv := c.Levels[i]
			var trail []int
			for s := lv; s < c.L; s++ {
				trail = append(trail, regIndex[s])
			}
			want := withTrail(`{"lv":`+fmt.Sprint(lv)+`}`, trail)
			if se.Type != name(c.L) || !vkit.JSONEqual(se.Data, want) {
				o.Failf("", "chain of %d steps (registration order %v): the event stored at level %d reached the callback as type %q data %s; every step must have been applied: type %q data %s", c.L, c.Order, lv, se.Type, se.Data, name(c.L), want)
			}
		}
		i++
		return nil
	})
	if err != nil || i != len(c.Levels) {
		o.Failf("", "ReplayWithUpcast delivered %d of %d events, err %v", i, len(c.Levels), err)
	}
	if c.L >= 9 {
		o.Nontrivial = true
		o.Class("chain_of_9_or_more_steps")
	}
	return o
}
