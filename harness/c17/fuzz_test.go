//go:build verif

package c17

import (
	"encoding/json"
	"testing"

	"verif/vkit"
)

var collFuzz = vkit.NewCollector("C17", "FuzzGraph", "native go fuzzing: bytes are decoded into an acyclic upcaster multigraph over 6 names (two bytes per edge, oriented low->high, one optional failing edge) and a JSON object payload stored under every name; same oracle as TestRawGraph")

func caseFromBytes(graph []byte, payload string, opts byte) *Case {
	c := &Case{ErrHandler: opts&1 == 0, Option: opts&2 != 0, Perm: []int{0, 1, 2, 3, 4, 5}}
	failAt := -1
	if opts&4 != 0 && len(graph) >= 2 {
		failAt = int(opts>>3) % (len(graph) / 2)
	}
	for i := 0; i+1 < len(graph) && len(c.Edges) < 12; i += 2 {
		a, b := int(graph[i])%NNames, int(graph[i+1])%NNames
		if a == b {
			continue
		}
		if a > b {
			a, b = b, a
		}
		c.Edges = append(c.Edges, Edge{From: a, To: b, Fail: len(c.Edges) == failAt})
	}
	var m map[string]json.RawMessage
	if json.Unmarshal([]byte(payload), &m) != nil {
		payload = "{}"
	}
	for ty := -1; ty < NNames; ty++ {
		c.Events = append(c.Events, Stored{Type: ty, Payload: payload})
	}
	return c
}

func FuzzGraph(f *testing.F) {
	f.Add([]byte{0, 1, 1, 2, 2, 3}, `{"a":1}`, byte(0))
	f.Add([]byte{0, 1, 0, 2, 1, 3, 2, 3, 3, 5}, `{"id":"x","n":[1,2]}`, byte(4|8))
	f.Add([]byte{4, 5, 0, 5, 0, 4}, `{}`, byte(2))
	f.Fuzz(func(t *testing.T, graph []byte, payload string, opts byte) {
		c := caseFromBytes(graph, payload, opts)
		if v := collFuzz.Account(c, Run(c)); v != nil {
			vkit.SaveFail("C17", "FuzzGraph", c, v)
			t.Fatalf("%s", v.Error())
		}
	})
}
