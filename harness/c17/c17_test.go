//go:build verif

package c17

import (
	"testing"

	"verif/vkit"
)

var collRaw = vkit.NewCollector("C17", "TestRawGraph", "acyclic upcaster multigraphs over 6 type names (edges oriented along a drawn permutation, several upcasters per source in drawn registration order, registered by RegisterUpcastFunc or WithUpcast options), raw upcasters that append their id to a trail and keep all other fields, at most one failing upcaster; in a third of the RegisterUpcastFunc cases a suffix of the edges (half of the time all of them, so the registry is empty when the replay starts) is registered by the replay callback itself while it handles a drawn event, and every later event must be upcast along them; one stored event of every name and of an unknown name with generated payloads. Oracle = model walk along first-registered upcasters: composed trail and final type, offset and timestamp unchanged, events without upcasters untouched, a failing step leaves the original event and calls the upcast error handler exactly once with the failing step's input. Non-trivial = a walk of length >=2 through a source with >=2 upcasters, or a failure at a non-first step.")
var collTyped = vkit.NewCollector("C17", "TestTypedChain", "typed chain V1->V2->V3 (or V1->V2 only) registered with RegisterUpcast over stored V1/V2/V3/unrelated events with generated field values and malformed stored data; the intermediate type V2 is deliberately not stable under a JSON round trip (an unexported field and an int held in an any field set by the first function, a decoder that rejects a == 13), so every step must work on the value decoded from the previous step's JSON; oracle: ReplayWithUpcast shows json.Marshal(f(decoded)) and the final type, or the original on any failing step with one error-handler call; SubscribeWithReplay[V3]/[V2] delivers exactly the fully upcast events. Non-trivial = >=2 events.")

var collConc = vkit.NewCollector("C17", "TestConcurrentReplays", "the graphs, failing edges and payloads of TestRawGraph with the event list stored 1, 4 or 12 times over; 2-8 goroutines, started together, each run ReplayWithUpcast over the whole log 1-4 times on one bus. Oracle: every callback of every replay sees exactly the model walk a replay running alone sees (type, composed trail), every replay delivers every stored event once, and the (mutex-protected) upcast error handler is called once per failing event per replay with the failing step's error. Non-trivial = some event has a walk of length >= 2.")

var collDuring = vkit.NewCollector("C17", "TestClearDuringChain", "the graphs and payloads of TestRawGraph (no failing edges); while the replay is inside a drawn upcaster application (1st-12th of the run) another goroutine calls ClearUpcasts or ClearUpcastsForType(drawn type) and the upcaster gives it 5 ms to get in before returning. Oracle: events delivered before that point equal the model walk over the full registry; every later event equals the walk over the registry before the clear or the walk over the registry after it - never a chain resolved partly in one and partly in the other; the replay and the writer both return. Non-trivial = the clear was started inside a chain of >= 2 hops whose walk differs between the two registries.")

func TestClearDuringChain(t *testing.T) { vkit.Check(t, collDuring, GenDuring, RunDuring) }

var collLong = vkit.NewCollector("C17", "TestLongChain", "one chain of 2-64 raw upcasters t0->t1->...->tL registered oldest-first, newest-first or in a drawn permutation; stored events at level 0, at tL and at up to 3 drawn levels. Oracle: every registration of the acyclic chain is accepted, every event reaches tL and its trail lists every step from its level on (no cap on the length of a chain). Non-trivial = a chain of 9 or more steps.")

func TestLongChain(t *testing.T) { vkit.Check(t, collLong, GenLong, RunLong) }

func TestMain(m *testing.M) { vkit.Main(m) }

func TestRawGraph(t *testing.T)          { vkit.Check(t, collRaw, GenRaw, Run) }
func TestTypedChain(t *testing.T)        { vkit.Check(t, collTyped, GenTyped, RunTyped) }
func TestConcurrentReplays(t *testing.T) { vkit.Check(t, collConc, GenConc, RunConc) }

func TestReplay(t *testing.T) {
	r := vkit.NeedReplay(t)
	_ = vkit.ReplayCase(t, r, collFuzz, Run) || vkit.ReplayCase(t, r, collRaw, Run) || vkit.ReplayCase(t, r, collTyped, RunTyped) || vkit.ReplayCase(t, r, collConc, RunConc) || vkit.ReplayCase(t, r, collDuring, RunDuring) || vkit.ReplayCase(t, r, collLong, RunLong)
}
