//go:build verif

package c17

import (
	"context"
	"encoding/json"
	"errors"
	"fmt"
	"sync"
	"time"

	eventbus "github.com/jilio/ebu"
	"pgregory.net/rapid"
	"verif/vkit"
)

// ConcCase: several upcasting replays of one log run at the same time on one
// bus (ReplayWithUpcast from Readers goroutines, started together, Rounds
// times each).  Upcasting is a read of the registry, so every replay must see
// exactly what a replay running alone sees: the model walk of Run.
type ConcCase struct {
	Edges      []Edge   `json:"edges"`
	Perm       []int    `json:"perm"`
	Events     []Stored `json:"events"`
	Rep        int      `json:"rep"` // the event list is stored Rep times over
	Readers    int      `json:"readers"`
	Rounds     int      `json:"rounds"`
	ErrHandler bool     `json:"err_handler"`
}

func GenConc(t *rapid.T) *ConcCase {
	base := Gen(t)
	for i := range base.Edges {
		// upcasters shared by concurrent replays must not write to their input
		base.Edges[i].Scribble = false
	}
	c := &ConcCase{Edges: base.Edges, Perm: base.Perm, Events: base.Events, ErrHandler: base.ErrHandler}
	c.Rep = rapid.SampledFrom([]int{1, 4, 12}).Draw(t, "rep")
	c.Readers = rapid.IntRange(2, 8).Draw(t, "readers")
	c.Rounds = rapid.IntRange(1, 4).Draw(t, "rounds")
	return c
}

type concWant struct {
	typ  string
	data []byte
	fail bool
}

func (c *ConcCase) model() (wants []concWant, fails int, deep bool) {
	first := map[int]int{}
	for i := len(c.Edges) - 1; i >= 0; i-- {
		first[c.Edges[i].From] = i
	}
	for _, ev := range c.Events {
		tn := "unknown"
		if ev.Type >= 0 {
			tn = name(ev.Type)
		}
		w := concWant{typ: tn, data: withTrail(ev.Payload, nil)}
		cur := ev.Type
		var trail []int
		for cur >= 0 {
			ei, ok := first[cur]
			if !ok {
				break
			}
			e := c.Edges[ei]
			if e.Fail {
				w = concWant{typ: tn, data: withTrail(ev.Payload, nil), fail: true}
				fails++
				trail = nil
				break
			}
			trail = append(trail, ei)
			cur = e.To
			w.typ, w.data = name(cur), withTrail(ev.Payload, trail)
		}
		if len(trail) >= 2 {
			deep = true
		}
		wants = append(wants, w)
	}
	return
}

func RunConc(c *ConcCase) *vkit.Outcome {
	var res *vkit.Outcome
	run := func() { res = runConc(c) }
	if timedOut, _ := vkit.Watchdog(30*time.Second, run); timedOut {
		o := &vkit.Outcome{}
		again, dump := vkit.Watchdog(30*time.Second, run)
		if again {
			if len(dump) > 6000 {
				dump = dump[:6000]
			}
			o.Failf("", "%d concurrent upcasting replays did not finish within 30 s, twice; goroutines:\n%s", c.Readers, dump)
			return o
		}
		o.Class("slow_first_run_not_reproduced")
		return o
	}
	return res
}

func runConc(c *ConcCase) *vkit.Outcome {
	o := &vkit.Outcome{}
	store := eventbus.NewMemoryStore()
	var mu sync.Mutex
	ehCalls, ehBad := 0, ""
	opts := []eventbus.Option{eventbus.WithStore(store)}
	if c.ErrHandler {
		opts = append(opts, eventbus.WithUpcastErrorHandler(func(t string, d json.RawMessage, err error) {
			mu.Lock()
			ehCalls++
			if !errors.Is(err, errStep) && ehBad == "" {
				ehBad = fmt.Sprintf("(%s, %s, %v)", t, d, err)
			}
			mu.Unlock()
		}))
	}
	bus := eventbus.New(opts...)
	for i, e := range c.Edges {
		if err := eventbus.RegisterUpcastFunc(bus, name(e.From), name(e.To), rawUpcaster(i, e)); err != nil {
			o.Failf("", "registering acyclic edge %d %+v failed: %v", i, e, err)
			return o
		}
	}
	wants, fails, deep := c.model()
	ctx := context.Background()
	for r := 0; r < c.Rep; r++ {
		for i, ev := range c.Events {
			_ = i
			store.Append(ctx, &eventbus.Event{Type: c.storedName(i), Data: withTrail(ev.Payload, nil)})
		}
	}
	total := c.Rep * len(c.Events)
	var wg sync.WaitGroup
	start := make(chan struct{})
	for rd := 0; rd < c.Readers; rd++ {
		wg.Add(1)
		go func(rd int) {
			defer wg.Done()
			<-start
			for round := 0; round < c.Rounds; round++ {
				idx := 0
				err := bus.ReplayWithUpcast(ctx, eventbus.OffsetOldest, func(se *eventbus.StoredEvent) error {
					if idx < total {
						w := wants[idx%len(wants)]
						if se.Type != w.typ || !vkit.JSONEqual(se.Data, w.data) {
							mu.Lock()
							o.Failf("", "reader %d round %d event %d (stored type %q): callback saw type %q data %s while %d replays ran concurrently; a replay running alone sees type %q data %s (edges %+v)", rd, round, idx, c.storedName(idx%len(wants)), se.Type, se.Data, c.Readers, w.typ, w.data, c.Edges)
							mu.Unlock()
						}
					}
					idx++
					return nil
				})
				if err != nil || idx != total {
					mu.Lock()
					o.Failf("", "reader %d round %d: callback invoked %d times for %d stored events, err %v", rd, round, idx, total, err)
					mu.Unlock()
				}
			}
		}(rd)
	}
	close(start)
	wg.Wait()
	if c.ErrHandler {
		want := fails * c.Rep * c.Readers * c.Rounds
		if ehCalls != want {
			o.Failf("", "upcast error handler called %d times over %d replays of %d failing events, expected %d", ehCalls, c.Readers*c.Rounds, fails*c.Rep, want)
		}
		if ehBad != "" {
			o.Failf("", "upcast error handler received an error that is not the failing step's: %s", ehBad)
		}
	}
	if deep {
		o.Nontrivial = true
		o.Class("walk_of_length_2_or_more_under_concurrent_replays")
	}
	if fails > 0 {
		o.Class("failing_step_under_concurrent_replays")
	}
	if total >= 40 {
		o.Class("log_of_40_or_more_events")
	}
	return o
}

func (c *ConcCase) storedName(i int) string {
	if c.Events[i].Type < 0 {
		return "unknown"
	}
	return name(c.Events[i].Type)
}
