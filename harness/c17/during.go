//go:build verif

package c17

import (
	"context"
	"encoding/json"
	"fmt"
	"sync/atomic"
	"time"

	eventbus "github.com/jilio/ebu"
	"pgregory.net/rapid"
	"verif/vkit"
)

// DuringCase: while an upcasting replay is inside the At-th upcaster
// application, another goroutine clears upcasters (all of them, or those of
// one source type).  The chain of an event is resolved against one state of
// the registry: every event the callback sees is the model walk over the
// registry as it was before the clear or as it is after it - never a chain
// that starts in one registry and ends in the other (a partly upcast event).
type DuringCase struct {
	Edges  []Edge   `json:"edges"`
	Perm   []int    `json:"perm"`
	Events []Stored `json:"events"`
	At     int      `json:"at"`     // 1-based upcaster application that starts the writer
	W      string   `json:"w"`      // clear | cleartype
	WType  int      `json:"w_type"` // cleartype: the source type whose upcasters are removed
}

func GenDuring(t *rapid.T) *DuringCase {
	base := Gen(t)
	for i := range base.Edges {
		// upcasters shared by concurrent replays must not write to their input
		base.Edges[i].Scribble = false
	}
	c := &DuringCase{Edges: base.Edges, Perm: base.Perm, Events: base.Events}
	for i := range c.Edges {
		c.Edges[i].Fail = false
	}
	c.At = rapid.IntRange(1, 12).Draw(t, "at")
	c.W = rapid.SampledFrom([]string{"clear", "clear", "cleartype"}).Draw(t, "w")
	c.WType = rapid.IntRange(0, NNames-1).Draw(t, "wtype")
	return c
}

// walk is the model: first-registered upcaster of the current type, repeated.
func walk(edges []Edge, alive func(int) bool, ev Stored) (string, []byte, int) {
	tn := "unknown"
	if ev.Type >= 0 {
		tn = name(ev.Type)
	}
	typ, data := tn, withTrail(ev.Payload, nil)
	cur := ev.Type
	var trail []int
	for cur >= 0 {
		first := -1
		for i, e := range edges {
			if e.From == cur && alive(i) {
				first = i
				break
			}
		}
		if first < 0 {
			break
		}
		trail = append(trail, first)
		cur = edges[first].To
		typ, data = name(cur), withTrail(ev.Payload, trail)
	}
	return typ, data, len(trail)
}

func RunDuring(c *DuringCase) *vkit.Outcome {
	var res *vkit.Outcome
	run := func() { res = runDuring(c) }
	if timedOut, _ := vkit.Watchdog(30*time.Second, run); timedOut {
		o := &vkit.Outcome{}
		again, dump := vkit.Watchdog(30*time.Second, run)
		if again {
			if len(dump) > 6000 {
				dump = dump[:6000]
			}
			o.Failf("", "an upcasting replay with a concurrent %s did not finish within 30 s, twice; goroutines:\n%s", c.W, dump)
			return o
		}
		o.Class("slow_first_run_not_reproduced")
		return o
	}
	return res
}

func runDuring(c *DuringCase) *vkit.Outcome {
	o := &vkit.Outcome{}
	store := eventbus.NewMemoryStore()
	bus := eventbus.New(eventbus.WithStore(store))
	var applications atomic.Int32
	var delivered atomic.Int32
	triggerEvent := -1
	writerDone := make(chan struct{})
	started := false
	for i, e := range c.Edges {
		inner := rawUpcaster(i, e)
		up := func(data json.RawMessage) (json.RawMessage, string, error) {
			if int(applications.Add(1)) == c.At && !started {
				started = true
				triggerEvent = int(delivered.Load())
				go func() {
					defer close(writerDone)
					if c.W == "clear" {
						bus.ClearUpcasts()
					} else {
						bus.ClearUpcastsForType(name(c.WType))
					}
				}()
				// give the writer time to get in; on a registry that keeps
				// its read lock for the whole chain it cannot, and we move on
				select {
				case <-writerDone:
				case <-time.After(5 * time.Millisecond):
				}
			}
			return inner(data)
		}
		if err := eventbus.RegisterUpcastFunc(bus, name(e.From), name(e.To), up); err != nil {
			o.Failf("", "registering acyclic edge %d %+v failed: %v", i, e, err)
			return o
		}
	}
	ctx := context.Background()
	for _, ev := range c.Events {
		tn := "unknown"
		if ev.Type >= 0 {
			tn = name(ev.Type)
		}
		store.Append(ctx, &eventbus.Event{Type: tn, Data: withTrail(ev.Payload, nil)})
	}
	all := func(int) bool { return true }
	after := func(i int) bool {
		if c.W == "clear" {
			return false
		}
		return c.Edges[i].From != c.WType
	}
	type seen struct {
		typ  string
		data []byte
	}
	var got []seen
	err := bus.ReplayWithUpcast(ctx, eventbus.OffsetOldest, func(se *eventbus.StoredEvent) error {
		got = append(got, seen{se.Type, append([]byte(nil), se.Data...)})
		delivered.Add(1)
		return nil
	})
	if err != nil || len(got) != len(c.Events) {
		o.Failf("", "ReplayWithUpcast delivered %d of %d events, err %v", len(got), len(c.Events), err)
		return o
	}
	if started {
		select {
		case <-writerDone:
		case <-time.After(20 * time.Second):
			o.Failf("", "%s started during upcaster application %d had not returned 20 s after the replay ended", c.W, c.At)
			return o
		}
	}
	hybridPossible := false
	for i, ev := range c.Events {
		pt, pd, plen := walk(c.Edges, all, ev)
		at, ad, alen := walk(c.Edges, after, ev)
		okPre := got[i].typ == pt && vkit.JSONEqual(got[i].data, pd)
		okPost := got[i].typ == at && vkit.JSONEqual(got[i].data, ad)
		switch {
		case !started || i < triggerEvent:
			if !okPre {
				o.Failf("", "event %d (before the %s): callback saw type %q data %s, the model walk gives type %q data %s", i, c.W, got[i].typ, got[i].data, pt, pd)
				return o
			}
		default:
			if !okPre && !okPost {
				o.Failf("", "event %d: a %s (type %s) ran on another goroutine during upcaster application %d; the callback saw type %q data %s, which is neither the walk over the registry before it (type %q data %s) nor the walk over the registry after it (type %q data %s): the chain was resolved partly in one registry and partly in the other (edges %+v)", i, c.W, name(c.WType), c.At, got[i].typ, got[i].data, pt, pd, at, ad, c.Edges)
				return o
			}
			if i == triggerEvent && plen >= 2 && (alen != plen) {
				hybridPossible = true
			}
		}
	}
	if started && hybridPossible {
		o.Nontrivial = true
		o.Class("registry_cleared_inside_a_chain_of_two_or_more_hops")
	}
	if started {
		o.Class("writer_started_during_an_upcaster_application")
	}
	_ = fmt.Sprint
	return o
}
