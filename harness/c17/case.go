//go:build verif

// Package c17 decides property C17: upcasting applies the whole chain or
// nothing.
package c17

import (
	"context"
	"encoding/json"
	"errors"
	"fmt"
	"time"

	eventbus "github.com/jilio/ebu"
	"verif/vkit"
)

const NNames = 6

// The type names are distinct strings that a normalising lookup would
// confuse: a name and the same name behind "*" (what publishing through a
// pointer stores), names differing only in case, and a name that is a prefix
// of another.  Each is a type of its own.
var typeNames = [NNames]string{"t0", "*t0", "pkg.Order", "*pkg.Order", "pkg.order", "t0.v2"}

func name(i int) string {
	if i < NNames {
		return typeNames[i]
	}
	if i%2 == 1 {
		return fmt.Sprintf("*t%d", i-1) // the pointer spelling of the name before it
	}
	return fmt.Sprintf("t%d", i)
}

type Edge struct {
	From int  `json:"from"`
	To   int  `json:"to"`
	Fail bool `json:"fail,omitempty"`
	// Ret > 0 (raw-graph test only): the upcaster returns type name(Ret-1)
	// instead of its declared target - a raw upcaster that routes by payload.
	// The walk continues from the type that was returned.
	Ret int `json:"ret,omitempty"`
	// Scribble: before it builds its result the upcaster extends the slice it
	// was given in place (append(data, ...), bytes.NewBuffer(data).Write: a
	// common idiom).  That touches only spare capacity behind its own input.
	Scribble bool `json:"scribble,omitempty"`
}

// next is the type an application of e leads to.
func (e Edge) next() int {
	if e.Ret > 0 {
		return e.Ret - 1
	}
	return e.To
}

type Stored struct {
	Type    int    `json:"type"`    // 0..NNames-1, or -1 = unknown name
	Payload string `json:"payload"` // JSON object text (without the trail)
}

type Case struct {
	Edges      []Edge   `json:"edges"` // registration order; acyclic by construction (From precedes To in Perm)
	Perm       []int    `json:"perm"`
	Events     []Stored `json:"events"`
	ErrHandler bool     `json:"err_handler"`
	Option     bool     `json:"option,omitempty"` // register through WithUpcast options instead of RegisterUpcastFunc
	// Late registration: edges with index >= LateFrom are registered from
	// inside the replay callback while it handles event LateAt (0-based), so
	// every later event must already be upcast along them.  LateFrom 0 means
	// the registry is empty when the replay starts.  Disabled when LateOn is
	// false.
	LateOn   bool `json:"late_on,omitempty"`
	LateAt   int  `json:"late_at,omitempty"`
	LateFrom int  `json:"late_from,omitempty"`
	// CancelEdge > 0: the function of edge CancelEdge-1 cancels the replay's
	// context the first time it is applied (a shutdown arriving in the middle
	// of a chain).  The event in flight is still seen whole - composed or
	// original, never half way - and the replay may then end with the
	// context's error.
	CancelEdge int `json:"cancel_edge,omitempty"`
}

// early: number of edges registered before the replay starts.
func (c *Case) early() int {
	if !c.LateOn || c.Option {
		return len(c.Edges)
	}
	if c.LateFrom > len(c.Edges) {
		return len(c.Edges)
	}
	return c.LateFrom
}

var errStep = errors.New("upcast step failed")

func withTrail(payload string, trail []int) []byte {
	var m map[string]json.RawMessage
	if json.Unmarshal([]byte(payload), &m) != nil || m == nil {
		m = map[string]json.RawMessage{}
	}
	t, _ := json.Marshal(trail)
	if trail == nil {
		t = []byte("[]")
	}
	m["trail"] = t
	b, _ := json.Marshal(m)
	return b
}

var scribbleSink []byte

func rawUpcaster(id int, e Edge) eventbus.UpcastFunc {
	return func(data json.RawMessage) (json.RawMessage, string, error) {
		if e.Scribble {
			scribbleSink = append(data, "################################"...)
		}
		if e.Fail {
			return nil, "", fmt.Errorf("edge %d: %w", id, errStep)
		}
		var m map[string]json.RawMessage
		if err := json.Unmarshal(data, &m); err != nil {
			return nil, "", err
		}
		var trail []int
		json.Unmarshal(m["trail"], &trail)
		trail = append(trail, id)
		t, _ := json.Marshal(trail)
		m["trail"] = t
		out, _ := json.Marshal(m)
		return out, name(e.next()), nil
	}
}

type ehCall struct {
	typ  string
	data string
}

func Run(c *Case) *vkit.Outcome {
	o := &vkit.Outcome{}
	replayCtx, replayCancel := context.WithCancel(context.Background())
	defer replayCancel()
	rawUpcaster := func(i int, e Edge) eventbus.UpcastFunc {
		f := rawUpcaster(i, e)
		if c.CancelEdge != i+1 {
			return f
		}
		return func(d json.RawMessage) (json.RawMessage, string, error) {
			replayCancel()
			return f(d)
		}
	}
	store := eventbus.NewMemoryStore()
	var ehCalls []ehCall
	opts := []eventbus.Option{eventbus.WithStore(store)}
	if c.ErrHandler {
		opts = append(opts, eventbus.WithUpcastErrorHandler(func(t string, d json.RawMessage, err error) {
			ehCalls = append(ehCalls, ehCall{t, string(d)})
			if !errors.Is(err, errStep) {
				ehCalls = append(ehCalls, ehCall{"bad-error", fmt.Sprint(err)})
			}
		}))
	}
	if c.Option {
		for i, e := range c.Edges {
			opts = append(opts, eventbus.WithUpcast(name(e.From), name(e.To), rawUpcaster(i, e)))
		}
	}
	bus := eventbus.New(opts...)
	if !c.Option {
		for i, e := range c.Edges[:c.early()] {
			if err := eventbus.RegisterUpcastFunc(bus, name(e.From), name(e.To), rawUpcaster(i, e)); err != nil {
				o.Failf("", "registering acyclic edge %d %+v failed: %v", i, e, err)
				return o
			}
		}
	}
	// the graph as registered so far: all edges, or the early prefix for
	// events replayed up to and including the one whose callback registers the rest
	graphOf := func(n int) (map[int]int, map[int]int) {
		first := map[int]int{} // source -> index of first registered edge
		for i := n - 1; i >= 0; i-- {
			first[c.Edges[i].From] = i
		}
		nSrc := map[int]int{}
		for _, e := range c.Edges[:n] {
			nSrc[e.From]++
		}
		return first, nSrc
	}
	ctx := context.Background()
	type want struct {
		typ    string
		data   []byte
		off    eventbus.Offset
		ts     time.Time
		failAt *ehCall
		// loop: the walk returned to a type already passed; ambiguous: see below
		loop, ambiguous, deviated bool
	}
	var wants, origs []want
	for i, ev := range c.Events {
		tn := "unknown"
		if ev.Type >= 0 {
			tn = name(ev.Type)
		}
		orig := withTrail(ev.Payload, nil)
		ts := time.Unix(1700000000+int64(i), int64(i)*1000).UTC()
		off, _ := store.Append(ctx, &eventbus.Event{Type: tn, Data: orig, Timestamp: ts})
		w := want{typ: tn, data: orig, off: off, ts: ts}
		origs = append(origs, w)
		// model walk
		nEdges := len(c.Edges)
		if c.early() < len(c.Edges) && i <= c.LateAt {
			nEdges = c.early()
		}
		first, nSrc := graphOf(nEdges)
		cur := ev.Type
		var trail []int
		steps := 0
		multi := false
		visited := map[int]bool{cur: true}
		for cur >= 0 {
			ei, ok := first[cur]
			if !ok {
				break
			}
			if nSrc[cur] >= 2 {
				multi = true
			}
			e := c.Edges[ei]
			if visited[e.To] {
				// a returned type led the walk to an upcaster whose declared
				// target was already passed: giving up here (the callback
				// sees the original event) and applying it are both accepted
				w.ambiguous = true
			}
			if e.Fail {
				w.typ, w.data = tn, orig
				w.failAt = &ehCall{name(cur), string(withTrail(ev.Payload, trail))}
				if steps >= 1 {
					o.Nontrivial = true
					o.Class("failure_at_non_first_step")
				}
				trail = nil
				break
			}
			trail = append(trail, ei)
			steps++
			if visited[e.next()] {
				// the walk came back to a type it had already passed: it can
				// never reach a type without upcaster, so the callback sees
				// the original event
				w.typ, w.data, w.loop = tn, orig, true
				o.Class("returned_type_leads_back_to_a_type_already_passed")
				break
			}
			cur = e.next()
			visited[cur] = true
			w.typ, w.data = name(cur), withTrail(ev.Payload, trail)
			if e.Ret > 0 && e.next() != e.To {
				w.deviated = true
			}
		}
		if w.deviated && !w.loop && w.failAt == nil {
			o.Nontrivial = true
			o.Class("walk_follows_a_returned_type_other_than_the_declared_target")
		}
		if w.failAt == nil && steps >= 2 && multi {
			o.Nontrivial = true
			o.Class("walk_of_length_2_through_source_with_several_upcasters")
		}
		wants = append(wants, w)
	}
	// ReplayWithUpcast
	idx := 0
	lateDone := false
	err := bus.ReplayWithUpcast(replayCtx, eventbus.OffsetOldest, func(se *eventbus.StoredEvent) error {
		if idx >= len(wants) {
			return fmt.Errorf("extra event")
		}
		w := wants[idx]
		idx++
		if w.ambiguous && se.Type == origs[idx-1].typ && vkit.JSONEqual(se.Data, origs[idx-1].data) {
			// stopped at the declared-target check: accepted
		} else if se.Type != w.typ || !vkit.JSONEqual(se.Data, w.data) {
			o.Failf("", "event %d (stored type %q): callback saw type %q data %s; the model walk along first-registered upcasters gives type %q data %s (edges %+v)", idx-1, c.storedName(idx-1), se.Type, se.Data, w.typ, w.data, c.Edges)
		}
		if se.Offset != w.off || !se.Timestamp.Equal(w.ts) {
			o.Failf("", "event %d: offset/timestamp changed by upcasting: %q %v, stored %q %v", idx-1, se.Offset, se.Timestamp, w.off, w.ts)
		}
		if c.early() < len(c.Edges) && idx-1 == c.LateAt {
			// the consumer registers further migrations when it meets this event
			for i := c.early(); i < len(c.Edges); i++ {
				e := c.Edges[i]
				if err := eventbus.RegisterUpcastFunc(bus, name(e.From), name(e.To), rawUpcaster(i, e)); err != nil {
					o.Failf("", "registering acyclic edge %d %+v from the replay callback failed: %v", i, e, err)
				}
			}
			lateDone = true
		}
		return nil
	})
	cancelled := c.CancelEdge > 0 && replayCtx.Err() != nil
	if cancelled {
		o.Class("replay_context_cancelled_from_inside_an_upcaster")
		if err != nil && !errors.Is(err, context.Canceled) {
			o.Failf("", "ReplayWithUpcast returned %v after its context was cancelled inside an upcaster", err)
		}
		if err == nil && idx != len(wants) {
			o.Failf("", "ReplayWithUpcast returned nil after %d of %d events although its context was cancelled", idx, len(wants))
		}
	} else {
		if err != nil {
			o.Failf("", "ReplayWithUpcast returned %v", err)
		}
		if idx != len(wants) {
			o.Failf("", "callback invoked %d times for %d stored events", idx, len(wants))
		}
	}
	if lateDone && c.LateAt < len(c.Events)-1 {
		o.Class("upcasters_registered_from_the_callback_with_events_still_to_come")
		if c.early() == 0 {
			o.Class("registry_empty_when_the_replay_started")
		}
	}
	loops := false
	for _, w := range wants {
		loops = loops || w.loop || w.ambiguous
	}
	if c.ErrHandler && !loops && !cancelled {
		var wantCalls []ehCall
		for _, w := range wants {
			if w.failAt != nil {
				wantCalls = append(wantCalls, *w.failAt)
			}
		}
		if len(ehCalls) != len(wantCalls) {
			o.Failf("", "upcast error handler called %d times, expected once per failing event (%d): got %v", len(ehCalls), len(wantCalls), ehCalls)
		} else {
			for i := range wantCalls {
				if ehCalls[i].typ != wantCalls[i].typ || !vkit.JSONEqual([]byte(ehCalls[i].data), []byte(wantCalls[i].data)) {
					o.Failf("", "upcast error handler call %d: got (%s, %s), expected the failing step's input (%s, %s)", i, ehCalls[i].typ, ehCalls[i].data, wantCalls[i].typ, wantCalls[i].data)
					break
				}
			}
		}
	}
	// an upcasting replay is a read: a plain Replay afterwards still shows
	// every event as it was stored
	j := 0
	perr := bus.Replay(ctx, eventbus.OffsetOldest, func(se *eventbus.StoredEvent) error {
		if j < len(origs) {
			w := origs[j]
			if se.Type != w.typ || !vkit.JSONEqual(se.Data, w.data) || se.Offset != w.off {
				o.Failf("", "after ReplayWithUpcast the store shows event %d as type %q data %s; it was stored as type %q data %s", j, se.Type, se.Data, w.typ, w.data)
			}
		}
		j++
		return nil
	})
	if perr != nil || j != len(origs) {
		o.Failf("", "plain Replay after the upcasting replay: %d of %d events, err %v", j, len(origs), perr)
	}
	return o
}

func (c *Case) storedName(i int) string {
	if c.Events[i].Type < 0 {
		return "unknown"
	}
	return name(c.Events[i].Type)
}

// ---------------------------------------------------------------------------
// typed chain V1 -> V2 -> V3

type V1 struct {
	A int    `json:"a"`
	S string `json:"s"`
}

// V2 is deliberately not stable under a JSON round trip: memo is unexported
// (lost), Extra holds an int that comes back as float64, and decoding rejects
// A == 13.  A typed chain hands every step the value DECODED from the previous
// step's JSON output, so f23 never sees memo or an int Extra, and a V2 with
// A == 13 fails the second step.
type V2 struct {
	A     int    `json:"a"`
	S     string `json:"s"`
	B     bool   `json:"b"`
	Extra any    `json:"extra,omitempty"`
	memo  int
}

func (v *V2) UnmarshalJSON(b []byte) error {
	type plain V2
	var p plain
	if err := json.Unmarshal(b, &p); err != nil {
		return err
	}
	if p.A == 13 {
		return errors.New("V2: a == 13 is not a valid version-2 document")
	}
	*v = V2(p)
	return nil
}

type V3 struct {
	Total int    `json:"total"`
	Label string `json:"label"`
}

func f12(v V1) V2 {
	return V2{A: v.A + 1, S: v.S + "!", B: v.A%2 == 0, Extra: 7, memo: v.A*3 + 1}
}
func f23(v V2) V3 {
	t := v.A*2 + v.memo
	if v.B {
		t++
	}
	if _, isInt := v.Extra.(int); isInt {
		t += 1000
	}
	return V3{Total: t, Label: "<" + v.S + ">"}
}

type TypedEvent struct {
	Ver int    `json:"ver"` // 1,2,3 or 0 = unrelated type
	A   int    `json:"a"`
	S   string `json:"s"`
	B   bool   `json:"b,omitempty"`
	Bad string `json:"bad,omitempty"` // if set, stored data is this text instead (malformed for the type)
}

type TypedCase struct {
	Events []TypedEvent `json:"events"`
	Only12 bool         `json:"only12,omitempty"` // register only V1->V2
}

func RunTyped(c *TypedCase) *vkit.Outcome {
	o := &vkit.Outcome{}
	store := eventbus.NewMemoryStore()
	nErr := 0
	bus := eventbus.New(eventbus.WithStore(store), eventbus.WithUpcastErrorHandler(func(string, json.RawMessage, error) { nErr++ }))
	if err := eventbus.RegisterUpcast(bus, f12); err != nil {
		o.Failf("", "RegisterUpcast V1->V2: %v", err)
		return o
	}
	if !c.Only12 {
		if err := eventbus.RegisterUpcast(bus, f23); err != nil {
			o.Failf("", "RegisterUpcast V2->V3: %v", err)
			return o
		}
	}
	n1, n2, n3 := eventbus.EventType(V1{}), eventbus.EventType(V2{}), eventbus.EventType(V3{})
	ctx := context.Background()
	type want struct {
		typ  string
		data []byte
	}
	var wants []want
	var wantV3 []V3
	var wantV2 []V2
	wantErrs := 0
	for _, ev := range c.Events {
		var tn string
		var data []byte
		switch ev.Ver {
		case 1:
			tn = n1
			data, _ = json.Marshal(V1{ev.A, ev.S})
		case 2:
			tn = n2
			data, _ = json.Marshal(V2{A: ev.A, S: ev.S, B: ev.B})
		case 3:
			tn = n3
			data, _ = json.Marshal(V3{ev.A, ev.S})
		default:
			tn = "c17.Other"
			data, _ = json.Marshal(map[string]any{"a": ev.A})
		}
		if ev.Bad != "" {
			data = []byte(ev.Bad)
		}
		store.Append(ctx, &eventbus.Event{Type: tn, Data: data, Timestamp: time.Unix(1, 0)})
		w := want{tn, data}
		// model
		var v1 V1
		var v2 V2
		stage := ev.Ver
		okSoFar := true
		if stage == 1 {
			if json.Unmarshal(data, &v1) != nil {
				okSoFar = false
				wantErrs++
			} else {
				v2 = f12(v1)
				stage = 2
				d, _ := json.Marshal(v2)
				w = want{n2, d}
			}
		} else if stage == 2 {
			if json.Unmarshal(data, &v2) != nil {
				okSoFar = false
				if !c.Only12 {
					wantErrs++
				}
			}
		}
		if okSoFar && stage == 2 && !c.Only12 {
			// second step decodes the first step's output
			var in V2
			src := w.data
			if json.Unmarshal(src, &in) != nil {
				okSoFar = false
				wantErrs++
				w = want{tn, data}
			} else {
				v3 := f23(in)
				d, _ := json.Marshal(v3)
				w = want{n3, d}
				stage = 3
			}
		}
		if !okSoFar {
			w = want{tn, data}
		}
		wants = append(wants, w)
		if w.typ == n3 {
			var v V3
			if json.Unmarshal(w.data, &v) == nil {
				wantV3 = append(wantV3, v)
			} else {
				wantV3 = append(wantV3, V3{Total: -999})
			}
		}
		if w.typ == n2 {
			var v V2
			json.Unmarshal(w.data, &v)
			wantV2 = append(wantV2, v)
		}
	}
	idx := 0
	err := bus.ReplayWithUpcast(ctx, eventbus.OffsetOldest, func(se *eventbus.StoredEvent) error {
		w := wants[idx]
		idx++
		if se.Type != w.typ || !(vkit.JSONEqual(se.Data, w.data) || string(se.Data) == string(w.data)) {
			o.Failf("", "typed chain event %d %+v: callback saw (%s, %s), expected (%s, %s): a typed upcaster must produce json.Marshal(f(decoded)) and a failing step must leave the original", idx-1, c.Events[idx-1], se.Type, se.Data, w.typ, w.data)
		}
		return nil
	})
	if err != nil || idx != len(wants) {
		o.Failf("", "ReplayWithUpcast: err %v, %d of %d callbacks", err, idx, len(wants))
	}
	if nErr != wantErrs {
		o.Failf("", "upcast error handler called %d times during the replay, expected %d (once per failing event)", nErr, wantErrs)
	}
	// SubscribeWithReplay[V3] / [V2] on a fresh bus with the same upcasts
	bus2 := eventbus.New(eventbus.WithStore(store))
	eventbus.RegisterUpcast(bus2, f12)
	if !c.Only12 {
		eventbus.RegisterUpcast(bus2, f23)
		var got []V3
		serr := eventbus.SubscribeWithReplay(ctx, bus2, "typed", func(v V3) { got = append(got, v) })
		malformedV3 := false
		for _, v := range wantV3 {
			if v.Total == -999 {
				malformedV3 = true
			}
		}
		if malformedV3 {
			// decoding failures of the subscribed type itself are outside C17
			_ = serr
		} else if serr != nil || fmt.Sprint(got) != fmt.Sprint(wantV3) {
			o.Failf("", "SubscribeWithReplay[V3] delivered %v (err %v), expected the fully upcast events %v", got, serr, wantV3)
		}
	} else {
		var got []V2
		serr := eventbus.SubscribeWithReplay(ctx, bus2, "typed2", func(v V2) { got = append(got, v) })
		bad := false
		for i, w := range wants {
			if w.typ == n2 && c.Events[i].Bad != "" && c.Events[i].Ver == 2 {
				bad = true
			}
		}
		if !bad && (serr != nil || fmt.Sprint(got) != fmt.Sprint(wantV2)) {
			o.Failf("", "SubscribeWithReplay[V2] delivered %v (err %v), expected %v", got, serr, wantV2)
		}
	}
	if wantErrs > 0 {
		o.Class("malformed_stored_data")
	}
	if len(c.Events) >= 2 {
		o.Nontrivial = true
	}
	return o
}
