//go:build verif

package c17

import (
	"encoding/json"

	"pgregory.net/rapid"
)

func genPayload(t *rapid.T) string {
	m := map[string]any{}
	n := rapid.IntRange(0, 3).Draw(t, "nfields")
	for i := 0; i < n; i++ {
		k := rapid.SampledFrom([]string{"a", "b", "id", "ü", "x y"}).Draw(t, "key")
		switch rapid.IntRange(0, 3).Draw(t, "vk") {
		case 0:
			m[k] = rapid.Int().Draw(t, "int")
		case 1:
			m[k] = rapid.StringN(0, 6, 16).Draw(t, "str")
		case 2:
			m[k] = []any{1, "two", nil}
		default:
			m[k] = map[string]any{"n": rapid.Float64Range(-1e6, 1e6).Draw(t, "f")}
		}
	}
	b, _ := json.Marshal(m)
	return string(b)
}

func Gen(t *rapid.T) *Case {
	c := &Case{ErrHandler: rapid.IntRange(0, 3).Draw(t, "eh") != 0, Option: rapid.IntRange(0, 3).Draw(t, "opt") == 0}
	c.Perm = rapid.Permutation([]int{0, 1, 2, 3, 4, 5}).Draw(t, "perm")
	pos := make([]int, NNames)
	for i, v := range c.Perm {
		pos[v] = i
	}
	ne := rapid.IntRange(0, 10).Draw(t, "nedges")
	for i := 0; i < ne; i++ {
		a := rapid.IntRange(0, NNames-1).Draw(t, "a")
		b := rapid.IntRange(0, NNames-1).Draw(t, "b")
		if a == b {
			continue
		}
		if pos[a] > pos[b] {
			a, b = b, a
		}
		c.Edges = append(c.Edges, Edge{From: a, To: b})
	}
	if len(c.Edges) > 0 && rapid.IntRange(0, 2).Draw(t, "scribbling") == 0 {
		for i := range c.Edges {
			c.Edges[i].Scribble = rapid.Bool().Draw(t, "scribble")
		}
	}
	if len(c.Edges) > 0 && rapid.Bool().Draw(t, "hasFail") {
		c.Edges[rapid.IntRange(0, len(c.Edges)-1).Draw(t, "failIdx")].Fail = true
	}
	for ty := -1; ty < NNames; ty++ {
		c.Events = append(c.Events, Stored{Type: ty, Payload: genPayload(t)})
	}
	extra := rapid.IntRange(0, 4).Draw(t, "extra")
	for i := 0; i < extra; i++ {
		c.Events = append(c.Events, Stored{Type: rapid.IntRange(-1, NNames-1).Draw(t, "ety"), Payload: genPayload(t)})
	}
	if !c.Option && len(c.Edges) > 0 && rapid.IntRange(0, 2).Draw(t, "late") == 0 {
		// some (half of the time: all) upcasters are registered by the replay
		// callback itself when it meets a drawn event
		c.LateOn = true
		c.LateAt = rapid.IntRange(0, len(c.Events)-1).Draw(t, "lateAt")
		if !rapid.Bool().Draw(t, "allLate") {
			c.LateFrom = rapid.IntRange(0, len(c.Edges)-1).Draw(t, "lateFrom")
		}
	}
	return c
}

// GenRaw is Gen plus, in a third of the cases, raw upcasters that return a
// type other than their declared target (any of the names, so the walk may
// also be led back to a type it has already passed).
func GenRaw(t *rapid.T) *Case {
	c := Gen(t)
	if len(c.Edges) > 0 && !c.LateOn && rapid.IntRange(0, 4).Draw(t, "cancelling") == 0 {
		c.CancelEdge = 1 + rapid.IntRange(0, len(c.Edges)-1).Draw(t, "cancelEdge")
	}
	if len(c.Edges) > 0 && rapid.IntRange(0, 2).Draw(t, "deviating") == 0 {
		n := rapid.IntRange(1, 2).Draw(t, "ndev")
		for i := 0; i < n; i++ {
			ei := rapid.IntRange(0, len(c.Edges)-1).Draw(t, "devEdge")
			c.Edges[ei].Ret = 1 + rapid.IntRange(0, NNames-1).Draw(t, "devTo")
		}
	}
	return c
}

func GenTyped(t *rapid.T) *TypedCase {
	c := &TypedCase{Only12: rapid.IntRange(0, 3).Draw(t, "only12") == 0}
	n := rapid.IntRange(1, 8).Draw(t, "n")
	for i := 0; i < n; i++ {
		ev := TypedEvent{Ver: rapid.SampledFrom([]int{1, 1, 2, 2, 3, 0}).Draw(t, "ver"), A: rapid.IntRange(-1000, 1000).Draw(t, "a"),
			S: rapid.OneOf(rapid.SampledFrom([]string{"", "x", "ü", "<&>"}), rapid.StringN(0, 5, 12)).Draw(t, "s"), B: rapid.Bool().Draw(t, "b")}
		if rapid.IntRange(0, 5).Draw(t, "bad") == 0 {
			ev.Bad = rapid.SampledFrom([]string{`{"a":"not-a-number"}`, `[]`, `"str"`, `{"a":1.5}`, `{"s":5}`, `null`, `{"b":"x"}`,
				// a complete JSON value followed by more bytes is not a JSON document
				`{"a":1,"s":"x"} trailing`, `{"a":1}{"a":2}`, `{"a":1}]`, "{\"a\":2}\n{\"a\":3}", `{"a":4} ,`, `{"a":1`}).Draw(t, "badtext")
		}
		if c.Only12 && (ev.A == 12 || ev.A == 13) {
			// with the chain ending at V2 a rejected V2 document would be the
			// subscription's own payload; that is not what this test is about
			ev.A += 2
		}
		if !c.Only12 && rapid.IntRange(0, 5).Draw(t, "rejected13") == 0 {
			// a version-2 document with a == 13 is rejected by V2's decoder: as a
			// stored V2 event, or (a == 12 in a V1 event) as the first step's output
			if ev.Ver == 1 {
				ev.A = 12
			} else if ev.Ver == 2 {
				ev.A = 13
			}
		}
		c.Events = append(c.Events, ev)
	}
	return c
}
