//go:build verif

package c03

import (
	"fmt"

	"pgregory.net/rapid"
	"verif/busmodel"
)

var busOps = []string{"pub", "pub", "pubany", "pubany", "pubctx", "pubcancel", "sub", "sub", "unsub", "unsub", "clear", "clearall", "has", "count", "wait"}
var persistOps = []string{"replay", "replayup", "subreplay", "regupcast", "regupcast", "regupcasttyped", "clearupcasts", "clearupcaststype", "s_append", "s_append", "s_read", "s_stream", "s_save", "s_load"}
var stateOps = []string{"m_apply", "m_apply", "m_replay", "m_last", "c_get", "c_all", "m_register"}
var nestedOps = []string{"pub", "pubany", "sub", "unsub", "clear", "has", "count", "regupcast", "m_apply", "c_get", "s_read"}

func genOp(t *rapid.T, pool []string, ntypes int) Op {
	op := Op{K: rapid.SampledFrom(pool).Draw(t, "k"), T: rapid.IntRange(0, ntypes-1).Draw(t, "t"), N: rapid.IntRange(0, 63).Draw(t, "n"), Yield: rapid.IntRange(0, 2).Draw(t, "yield")}
	if op.K == "sub" || op.K == "unsub" {
		op.Slot = rapid.IntRange(0, busmodel.K-1).Draw(t, "slot")
		op.Ctx = rapid.Bool().Draw(t, "ctx")
	}
	if op.K == "sub" {
		op.Once = rapid.IntRange(0, 3).Draw(t, "once") == 0
		op.Async = rapid.IntRange(0, 2).Draw(t, "async") == 0
		op.Seq = rapid.IntRange(0, 4).Draw(t, "seq") == 0
		op.Filt = rapid.IntRange(0, 3).Draw(t, "filt") == 0
	}
	return op
}

func Gen(t *rapid.T) *Case {
	c := &Case{Store: rapid.SampledFrom([]string{"memory", "memory", "memory", "none", "sqlite", "durable"}).Draw(t, "store"),
		Hooks: rapid.Bool().Draw(t, "hooks"), Obs: rapid.Bool().Draw(t, "obs"), Procs: rapid.SampledFrom([]int{2, 4, 8, 16}).Draw(t, "procs"), Nested: map[string][]Op{}}
	if rapid.IntRange(0, 2).Draw(t, "panics") == 0 {
		c.PanicEvery = rapid.IntRange(1, 4).Draw(t, "panicEvery")
	}
	groups := busmodel.ShardGroups()
	g := groups[rapid.IntRange(0, len(groups)-1).Draw(t, "group")]
	c.Types = []int{busmodel.ByName("E00"), g[0], g[1]}
	nt := len(c.Types)
	// setup: some subscriptions so that publishes deliver
	ns := rapid.IntRange(2, 8).Draw(t, "nsetup")
	for i := 0; i < ns; i++ {
		op := genOp(t, []string{"sub"}, nt)
		c.Setup = append(c.Setup, op)
	}
	pool := append([]string{}, busOps...)
	if c.Store != "none" {
		pool = append(pool, persistOps...)
	} else {
		pool = append(pool, "regupcast", "clearupcasts")
	}
	pool = append(pool, stateOps...)
	ng := rapid.IntRange(2, 8).Draw(t, "ng")
	maxOps := 12
	if c.Store == "sqlite" {
		maxOps = 6
	}
	for i := 0; i < ng; i++ {
		n := rapid.IntRange(3, maxOps).Draw(t, "nops")
		var ops []Op
		for j := 0; j < n; j++ {
			ops = append(ops, genOp(t, pool, nt))
		}
		if i == 0 && rapid.IntRange(0, 3).Draw(t, "shutdown") == 0 {
			ops = append(ops, Op{K: "shutdown"})
		}
		c.Goroutines = append(c.Goroutines, ops)
	}
	// nested scripts for some subscribed handlers, filters and hooks
	keys := []string{"before", "after"}
	for _, op := range c.Setup {
		keys = append(keys, hkeyOf(op.T, op.Slot, op.Ctx))
		if op.Filt {
			keys = append(keys, "f/"+itoa(op.T)+"/"+itoa(op.Slot))
		}
	}
	nn := rapid.IntRange(0, 4).Draw(t, "nnested")
	for i := 0; i < nn; i++ {
		k := rapid.SampledFrom(keys).Draw(t, "nkey")
		n := rapid.IntRange(1, 2).Draw(t, "nlen")
		var ops []Op
		for j := 0; j < n; j++ {
			op := genOp(t, nestedOps, nt)
			op.Seq = false
			ops = append(ops, op)
		}
		// a handler that unsubscribes itself (or re-subscribes) is the classic re-entrant pattern
		if len(k) > 2 && k[0] == 'h' && rapid.IntRange(0, 2).Draw(t, "selfUnsub") == 0 {
			var ht, hs int
			var hc bool
			if _, err := fmtSscanf(k, &ht, &hs, &hc); err == nil {
				ops[0] = Op{K: "unsub", T: ht, Slot: hs, Ctx: hc}
			}
		}
		// ... and so is a handler that publishes the type it handles (a
		// Sequential one never does: see OnHandler)
		if len(k) > 2 && k[0] == 'h' && rapid.IntRange(0, 3).Draw(t, "selfPub") == 0 {
			var ht, hs int
			var hc bool
			if _, err := fmtSscanf(k, &ht, &hs, &hc); err == nil {
				ops[len(ops)-1] = Op{K: rapid.SampledFrom([]string{"pub", "pubany"}).Draw(t, "selfPubKind"), T: ht}
			}
		}
		c.Nested[k] = ops
	}
	return c
}

func itoa(n int) string {
	return string(rune('0' + n))
}

func fmtSscanf(k string, t, slot *int, ctx *bool) (int, error) {
	return fmt.Sscanf(k, "h/%d/%d/%t", t, slot, ctx)
}
