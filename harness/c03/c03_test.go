//go:build verif

package c03

import (
	"testing"

	"pgregory.net/rapid"
	"verif/vkit"
)

var coll = vkit.NewCollector("C03", "TestPrograms", "generated concurrent programs: 2-8 goroutines x 3-12 operations drawn from the public surface except the configuration setters (publish, subscribe/unsubscribe/clear/clearAll/has/count over three event types of which two share a routing shard, Wait, Shutdown (as a goroutine's last operation), Replay, ReplayWithUpcast, SubscribeWithReplay, RegisterUpcast(Func), ClearUpcasts(ForType), direct Append/Read/ReadStream/SaveOffset/LoadOffset on the memory, SQLite or durable-streams store, Materializer Apply/Replay/LastOffset, collection Get/All, RegisterCollection) on a bus with hooks, panic handler, store and observability; handlers, filters and hooks carry nested scripts (publish, subscribe, unsubscribe, clear, ...) bounded by a fuel counter; barrier start, drawn GOMAXPROCS and Gosched noise; binary built with the race detector. Oracle: the race detector's report file grows while the case runs (kept only if a frame of jilio/ebu is involved), an operation panics, or the program hangs for 60 s twice. Non-trivial = conflicting operation kinds were in flight together (in-flight counters) or a nested call from a handler/filter/hook executed.")

var collStorm = vkit.NewCollector("C03", "TestMaterializerStorm", "2-8 goroutines share one state.Materializer (strict or not, with or without an OnError callback that reads LastOffset) and each repeat a drawn cycle of 1-4 operations 50, 400 or 3000 times: Apply of insert/update/delete/reset messages, Apply of changes the materializer rejects (a value that does not decode into the collection's type, an unregistered entity type, an undefined operation, truncated JSON), LastOffset, collection Get/All, RegisterCollection; barrier start, drawn GOMAXPROCS, race detector on. Oracle: every call returns (60 s watchdog with deadlock evidence from the goroutine dump, or twice), none panics, no race report involving jilio/ebu. Non-trivial = rejected changes and state writers in the same case.")

func TestMaterializerStorm(t *testing.T) { vkit.Check(t, collStorm, GenStorm, RunStorm) }

func TestMain(m *testing.M) { vkit.Main(m) }

func TestPrograms(t *testing.T) {
	rapid.Check(t, func(rt *rapid.T) {
		c := Gen(rt)
		vkit.SaveCurrent("C03", "TestPrograms", c)
		if v := coll.Account(c, Run(c)); v != nil {
			vkit.SaveFail("C03", "TestPrograms", c, v)
			rt.Fatalf("%s", v.Error())
		}
	})
}

func TestReplay(t *testing.T) {
	r := vkit.NeedReplay(t)
	// schedule-dependent: try the case repeatedly
	if vkit.ReplayCase(t, r, collStorm, func(c *StormCase) *vkit.Outcome {
		var o *vkit.Outcome
		for i := 0; i < 10; i++ {
			if o = RunStorm(c); len(o.Viol) > 0 {
				return o
			}
		}
		return o
	}) {
		return
	}
	vkit.ReplayCase(t, r, coll, func(c *Case) *vkit.Outcome {
		var o *vkit.Outcome
		for i := 0; i < 30; i++ {
			o = Run(c)
			if len(o.Viol) > 0 {
				return o
			}
		}
		return o
	})
}
