//go:build verif

package c03

import (
	"encoding/json"
	"fmt"
	"os"
	"runtime"
	"strings"
	"sync"
	"sync/atomic"
	"time"

	eventbus "github.com/jilio/ebu"
	"github.com/jilio/ebu/state"
	"pgregory.net/rapid"
	"verif/vkit"
)

// StormCase: goroutines hammer one Materializer with a drawn mix of
// operations, among them changes that the materializer rejects (a value that
// does not decode into the collection's type, an entity type that is not
// registered on a strict materializer, an undefined operation, junk bytes).
// "Materialize state" is in C03's list of operations that may run
// concurrently: whatever the mix, every call returns, nothing panics and the
// race detector stays silent.
type StormCase struct {
	Strict  bool       `json:"strict,omitempty"`
	OnError bool       `json:"on_error,omitempty"` // an OnError callback that itself reads the materializer
	Workers [][]string `json:"workers"`            // per goroutine: the cycle of operation kinds it repeats
	Iters   int        `json:"iters"`              // operations per goroutine
	Procs   int        `json:"procs"`
}

var stormKinds = []string{"insert", "insert", "update", "delete", "badvalue", "badvalue", "unknowntype", "badop", "junk", "reset", "last", "get", "all", "register"}

func GenStorm(t *rapid.T) *StormCase {
	c := &StormCase{Strict: rapid.Bool().Draw(t, "strict"), OnError: rapid.Bool().Draw(t, "onError"),
		Iters: rapid.SampledFrom([]int{50, 400, 3000}).Draw(t, "iters"), Procs: rapid.SampledFrom([]int{2, 4, 16}).Draw(t, "procs")}
	n := rapid.IntRange(2, 8).Draw(t, "workers")
	for i := 0; i < n; i++ {
		k := rapid.IntRange(1, 4).Draw(t, "cycle")
		var cyc []string
		for j := 0; j < k; j++ {
			cyc = append(cyc, rapid.SampledFrom(stormKinds).Draw(t, "kind"))
		}
		c.Workers = append(c.Workers, cyc)
	}
	return c
}

func stormMsg(kind string, n int) []byte {
	key := fmt.Sprint(n % 7)
	var msg any
	switch kind {
	case "insert":
		msg, _ = state.Insert(key, Ent{ID: key, N: n}, state.WithEntityType("ent"))
	case "update":
		msg, _ = state.Update(key, Ent{ID: key, N: n}, state.WithEntityType("ent"))
	case "delete":
		msg, _ = state.Delete[Ent](key, state.WithEntityType("ent"))
	case "reset":
		msg = state.Reset("")
	case "badvalue":
		return []byte(fmt.Sprintf(`{"type":"ent","key":%q,"value":"not an object","headers":{"operation":"insert"}}`, key))
	case "unknowntype":
		return []byte(fmt.Sprintf(`{"type":"nobody","key":%q,"value":{"id":"z","n":1},"headers":{"operation":"insert"}}`, key))
	case "badop":
		return []byte(fmt.Sprintf(`{"type":"ent","key":%q,"value":{"id":"z","n":1},"headers":{"operation":"upsert"}}`, key))
	default:
		return []byte(`{"type":`)
	}
	d, _ := json.Marshal(msg)
	return d
}

func RunStorm(c *StormCase) *vkit.Outcome {
	o := &vkit.Outcome{}
	before, _ := raceLogSize()
	var panicked atomic.Value
	var rejected, applied atomic.Int64
	body := func() {
		if c.Procs > 0 {
			defer runtime.GOMAXPROCS(runtime.GOMAXPROCS(c.Procs))
		}
		var mat *state.Materializer
		var mopts []state.MaterializerOption
		if c.Strict {
			mopts = append(mopts, state.WithStrictSchema())
		}
		if c.OnError {
			mopts = append(mopts, state.WithOnError(func(error) {
				if mat != nil {
					mat.LastOffset()
				}
			}))
		}
		mat = state.NewMaterializer(mopts...)
		coll := state.NewTypedCollectionWithType[Ent](state.NewMemoryStore[Ent](), "ent")
		state.RegisterCollection(mat, coll)
		var start, done sync.WaitGroup
		start.Add(1)
		for wi, cyc := range c.Workers {
			done.Add(1)
			go func(wi int, cyc []string) {
				defer done.Done()
				defer func() {
					if r := recover(); r != nil {
						buf := make([]byte, 4096)
						panicked.CompareAndSwap(nil, fmt.Sprintf("%v\n%s", r, buf[:runtime.Stack(buf, false)]))
					}
				}()
				start.Wait()
				for i := 0; i < c.Iters; i++ {
					n := wi*1000000 + i
					switch k := cyc[i%len(cyc)]; k {
					case "last":
						mat.LastOffset()
					case "get":
						coll.Get(state.CompositeKey("ent", fmt.Sprint(n%7)))
					case "all":
						coll.All()
					case "register":
						state.RegisterCollection(mat, state.NewTypedCollectionWithType[Ent](state.NewMemoryStore[Ent](), fmt.Sprintf("extra%d", n%3)))
					default:
						err := mat.Apply(&eventbus.StoredEvent{Offset: eventbus.Offset(fmt.Sprintf("%012d", n)), Data: stormMsg(k, n)})
						if err != nil {
							rejected.Add(1)
						} else {
							applied.Add(1)
						}
					}
				}
			}(wi, cyc)
		}
		start.Done()
		done.Wait()
	}
	timedOut, deadlock, dump := vkit.Hang(60*time.Second, body, "github.com/jilio/ebu", "verif/c03")
	if timedOut && deadlock {
		if len(dump) > 8000 {
			dump = dump[:8000]
		}
		o.Failf("", "concurrent use of one Materializer did not finish: after more than a minute every goroutine is blocked waiting for another one, at least one inside jilio/ebu: deadlock. Case %+v. Goroutines:\n%s", *c, dump)
		return o
	}
	if timedOut {
		again, _, dump2 := vkit.Hang(60*time.Second, body, "github.com/jilio/ebu", "verif/c03")
		if again {
			if len(dump2) > 8000 {
				dump2 = dump2[:8000]
			}
			o.Failf("", "concurrent use of one Materializer did not finish within 60 s, twice. Case %+v. Goroutines of the second run:\n%s", *c, dump2)
			return o
		}
		o.Class("slow_first_run_not_reproduced")
	}
	if p, _ := panicked.Load().(string); p != "" {
		o.Failf("", "a Materializer call panicked under concurrent use: %s", p)
		return o
	}
	time.Sleep(time.Millisecond)
	after, file := raceLogSize()
	if after > before {
		rep := readTail(file, 0)
		if raceInEbu(rep) {
			o.Failf("", "the race detector reported a data race involving jilio/ebu while goroutines shared one Materializer:\n%s", rep)
		} else {
			o.Class("race_outside_ebu_ignored")
		}
		os.Remove(file)
	}
	hasBad, hasWriter := false, false
	for _, cyc := range c.Workers {
		for _, k := range cyc {
			switch k {
			case "badvalue", "badop", "junk":
				hasBad = true
			case "unknowntype":
				hasBad = hasBad || c.Strict
			case "insert", "update", "delete", "reset", "register":
				hasWriter = true
			}
		}
	}
	if hasBad && hasWriter {
		o.Nontrivial = true
		o.Class("rejected_changes_concurrent_with_state_writers")
	}
	if rejected.Load() > 0 && applied.Load() > 0 {
		o.Class("some_applied_some_rejected")
	}
	_ = strings.TrimSpace
	return o
}
