//go:build verif

// Package c03 decides property C03: concurrent use of the API is free of data
// races and deadlocks.  Generated concurrent programs run free on real
// goroutines under the race detector; the oracle is the detector's report
// file (attributed per case) and a watchdog.
package c03

import (
	"context"
	"encoding/json"
	"fmt"
	"os"
	"path/filepath"
	"reflect"
	"runtime"
	"strings"
	"sync"
	"sync/atomic"
	"time"

	eventbus "github.com/jilio/ebu"
	"github.com/jilio/ebu/state"
	"verif/busmodel"
	"verif/storekit"
	"verif/vkit"
)

type Op struct {
	K     string `json:"k"`
	T     int    `json:"t,omitempty"` // index into Case.Types
	Slot  int    `json:"slot,omitempty"`
	Ctx   bool   `json:"ctx,omitempty"`
	Once  bool   `json:"once,omitempty"`
	Async bool   `json:"async,omitempty"`
	Seq   bool   `json:"seq,omitempty"`
	Filt  bool   `json:"filt,omitempty"`
	N     int    `json:"n,omitempty"`
	Yield int    `json:"yield,omitempty"` // Gosched calls before the op
}

type Case struct {
	Types      []int           `json:"types"`
	Store      string          `json:"store"` // none memory sqlite durable
	Hooks      bool            `json:"hooks"`
	Obs        bool            `json:"obs"`
	Setup      []Op            `json:"setup"`
	Goroutines [][]Op          `json:"goroutines"`
	Nested     map[string][]Op `json:"nested,omitempty"` // "h/<t>/<slot>/<ctx>", "f/<t>/<slot>", "before", "after"
	Procs      int             `json:"procs"`
	// PanicEvery > 0: every handler panics (after its nested script) on events
	// whose id is a multiple of it.
	PanicEvery int `json:"panic_every,omitempty"`
}

type Ent struct {
	ID string `json:"id"`
	N  int    `json:"n"`
}

type obsNop struct{}

func (obsNop) OnPublishStart(ctx context.Context, _ string, _ any) context.Context { return ctx }
func (obsNop) OnPublishComplete(context.Context, string)                           {}
func (obsNop) OnHandlerStart(ctx context.Context, _ string, _ bool) context.Context {
	return ctx
}
func (obsNop) OnHandlerComplete(context.Context, time.Duration, error) {}
func (obsNop) OnPersistStart(ctx context.Context, _ string, _ int64) context.Context {
	return ctx
}
func (obsNop) OnPersistComplete(context.Context, time.Duration, error) {}

type world struct {
	c        *Case
	bus      *eventbus.EventBus
	store    eventbus.EventStore
	mat      *state.Materializer
	coll     *state.TypedCollection[Ent]
	fuel     atomic.Int32
	seqKeys  map[string]bool // handler keys ever subscribed Sequential: no nested script there
	inflight [8]atomic.Int32 // per op class: registry-write, publish, store-write, store-read, upcast-write, state
	overlap  atomic.Int32    // conflicting classes observed in flight together
	nestedN  atomic.Int32
	ids      atomic.Int32
	mu       sync.Mutex
	viol     []*vkit.Violation
}

func (w *world) fail(sig, format string, args ...any) {
	w.mu.Lock()
	if len(w.viol) < 3 {
		w.viol = append(w.viol, vkit.Violf(sig, format, args...))
	}
	w.mu.Unlock()
}

func hkeyOf(t, slot int, ctx bool) string { return fmt.Sprintf("h/%d/%d/%v", t, slot, ctx) }

// OnHandler implements busmodel.Env: handlers run their nested script.
func (w *world) OnHandler(ti, slot int, ctxAware bool, ctx context.Context, id int) {
	t := -1
	for i, g := range w.c.Types {
		if g == ti {
			t = i
		}
	}
	k := hkeyOf(t, slot, ctxAware)
	// A handler that is (ever) subscribed Sequential runs its nested script
	// too - unsubscribe, subscribe, clear, queries - but no publishes: a
	// publish from inside it could be delivered back to a Sequential handler
	// that is on a call stack (the documented self-delivery and its
	// transitive forms).
	w.runNestedOpts(k, w.seqKeys[k])
	if w.c.PanicEvery > 0 && id%w.c.PanicEvery == 0 {
		// a handler that fails: the bus contains the panic (C05) and stays usable
		panic(fmt.Sprintf("handler %s failed on event %d", k, id))
	}
}

func (w *world) runNested(key string) { w.runNestedOpts(key, false) }

func (w *world) runNestedOpts(key string, noPublish bool) {
	ops := w.c.Nested[key]
	for _, op := range ops {
		if noPublish && (op.K == "pub" || op.K == "pubany" || op.K == "pubctx" || op.K == "pubcancel") {
			continue
		}
		if w.fuel.Add(-1) < 0 {
			return
		}
		w.nestedN.Add(1)
		w.exec(op, true)
	}
}

const (
	clsRegW = iota
	clsPub
	clsStoreW
	clsStoreR
	clsUpW
	clsState
)

func (w *world) enter(cls int) func() {
	w.inflight[cls].Add(1)
	// conflicting pairs in flight together
	conf := map[int][]int{clsRegW: {clsPub, clsRegW}, clsPub: {clsRegW, clsStoreR, clsUpW}, clsStoreW: {clsStoreR, clsStoreW}, clsStoreR: {clsStoreW, clsPub}, clsUpW: {clsPub, clsStoreR, clsUpW}, clsState: {clsState}}
	for _, o := range conf[cls] {
		n := w.inflight[o].Load()
		if (o == cls && n >= 2) || (o != cls && n >= 1) {
			w.overlap.Add(1)
			break
		}
	}
	return func() { w.inflight[cls].Add(-1) }
}

func (w *world) exec(op Op, nested bool) {
	defer func() {
		if r := recover(); r != nil {
			if _, ok := r.(storekit.Crash); ok {
				return
			}
			s := fmt.Sprint(r)
			sig := ""
			if strings.Contains(s, "WaitGroup") {
				sig = "waitgroup-misuse-publish-concurrent-with-wait"
			}
			w.fail(sig, "operation %+v panicked: %v", op, r)
		}
	}()
	for i := 0; i < op.Yield; i++ {
		runtime.Gosched()
	}
	bus := w.bus
	var tops *busmodel.TypeOps
	if op.T < len(w.c.Types) {
		tops = busmodel.Types[w.c.Types[op.T]]
	}
	ctx := context.Background()
	switch op.K {
	case "pub":
		defer w.enter(clsPub)()
		tops.Pub(bus, nil, int(w.ids.Add(1)))
	case "pubany":
		// through the static type any: handlers are found by the dynamic type
		// and called through the reflective path
		defer w.enter(clsPub)()
		if op.N%2 == 0 {
			tops.PubAny(bus, nil, int(w.ids.Add(1)))
		} else {
			tops.PubAny(bus, context.WithValue(ctx, ctxKey{}, 3), int(w.ids.Add(1)))
		}
	case "pubctx":
		defer w.enter(clsPub)()
		tops.Pub(bus, context.WithValue(ctx, ctxKey{}, 1), int(w.ids.Add(1)))
	case "pubcancel":
		// a publish whose context is cancelled by another goroutine while it
		// is (possibly) still being dispatched
		defer w.enter(clsPub)()
		cctx, cancel := context.WithCancel(context.WithValue(ctx, ctxKey{}, 2))
		go func() {
			for y := 0; y < op.N%4; y++ {
				runtime.Gosched()
			}
			cancel()
		}()
		tops.Pub(bus, cctx, int(w.ids.Add(1)))
		cancel()
	case "sub":
		defer w.enter(clsRegW)()
		var so []eventbus.SubscribeOption
		if op.Once {
			so = append(so, eventbus.Once())
		}
		if op.Async {
			so = append(so, eventbus.Async())
		}
		if op.Seq {
			so = append(so, eventbus.Sequential())
		}
		var filter func(int) bool
		if op.Filt {
			fk := fmt.Sprintf("f/%d/%d", op.T, op.Slot)
			filter = func(id int) bool { w.runNested(fk); return id%3 != 0 }
		}
		tops.Sub(bus, w, op.Slot, op.Ctx, filter, so...)
	case "unsub":
		defer w.enter(clsRegW)()
		tops.Unsub(bus, w, op.Slot, op.Ctx)
	case "clear":
		defer w.enter(clsRegW)()
		tops.Clear(bus)
	case "clearall":
		defer w.enter(clsRegW)()
		eventbus.ClearAll(bus)
	case "has":
		tops.Has(bus)
	case "count":
		tops.Count(bus)
	case "wait":
		if !nested {
			bus.Wait()
		}
	case "shutdown":
		if !nested {
			sctx, cancel := context.WithTimeout(ctx, 50*time.Millisecond)
			bus.Shutdown(sctx)
			cancel()
		}
	case "replay":
		if w.store != nil {
			defer w.enter(clsStoreR)()
			n := 0
			bus.Replay(ctx, eventbus.OffsetOldest, func(*eventbus.StoredEvent) error { n++; return nil })
		}
	case "replayup":
		if w.store != nil {
			defer w.enter(clsStoreR)()
			bus.ReplayWithUpcast(ctx, eventbus.OffsetOldest, func(*eventbus.StoredEvent) error { return nil })
		}
	case "subreplay":
		if w.store != nil && !nested {
			if _, ok := w.store.(eventbus.SubscriptionStore); ok {
				defer w.enter(clsRegW)()
				eventbus.SubscribeWithReplay(ctx, bus, fmt.Sprintf("sub%d", op.N%3), func(e busmodel.E00) {})
			}
		}
	case "regupcast":
		defer w.enter(clsUpW)()
		from, to := fmt.Sprintf("v%d", op.N%4), fmt.Sprintf("v%d", (op.N/4)%4)
		eventbus.RegisterUpcastFunc(bus, from, to, func(d json.RawMessage) (json.RawMessage, string, error) { return d, to, nil })
	case "regupcasttyped":
		defer w.enter(clsUpW)()
		eventbus.RegisterUpcast(bus, func(e busmodel.E00) busmodel.E01 { return busmodel.E01{ID: e.ID} })
	case "clearupcasts":
		defer w.enter(clsUpW)()
		bus.ClearUpcasts()
	case "clearupcaststype":
		defer w.enter(clsUpW)()
		bus.ClearUpcastsForType(fmt.Sprintf("v%d", op.N%4))
	case "s_append":
		if w.store != nil {
			defer w.enter(clsStoreW)()
			var data []byte
			typ := "v0"
			if op.N%2 == 0 {
				msg, _ := state.Insert(fmt.Sprint(op.N%5), Ent{ID: fmt.Sprint(op.N % 5), N: op.N}, state.WithEntityType("ent"))
				data, _ = json.Marshal(msg)
				typ = "state.ChangeMessage"
			} else {
				data = []byte(fmt.Sprintf(`{"id":%d}`, op.N))
			}
			w.store.Append(ctx, &eventbus.Event{Type: typ, Data: data, Timestamp: time.Unix(int64(op.N), 0)})
		}
	case "s_read":
		if w.store != nil {
			defer w.enter(clsStoreR)()
			w.store.Read(ctx, eventbus.OffsetOldest, op.N%4)
		}
	case "s_stream":
		if s, ok := w.store.(eventbus.EventStoreStreamer); ok {
			defer w.enter(clsStoreR)()
			n := 0
			for _, err := range s.ReadStream(ctx, eventbus.OffsetOldest) {
				if err != nil || n > 50 {
					break
				}
				n++
			}
		}
	case "s_save":
		if s, ok := w.store.(eventbus.SubscriptionStore); ok {
			defer w.enter(clsStoreW)()
			s.SaveOffset(ctx, fmt.Sprintf("sub%d", op.N%3), eventbus.OffsetOldest)
		}
	case "s_load":
		if s, ok := w.store.(eventbus.SubscriptionStore); ok {
			defer w.enter(clsStoreR)()
			s.LoadOffset(ctx, fmt.Sprintf("sub%d", op.N%3))
		}
	case "m_apply":
		defer w.enter(clsState)()
		var msg any
		switch op.N % 4 {
		case 0:
			msg, _ = state.Insert(fmt.Sprint(op.N%5), Ent{ID: "x", N: op.N}, state.WithEntityType("ent"))
		case 1:
			msg, _ = state.Delete[Ent](fmt.Sprint(op.N%5), state.WithEntityType("ent"))
		case 2:
			msg = state.Reset("")
		default:
			msg, _ = state.Update(fmt.Sprint(op.N%5), Ent{ID: "y", N: op.N}, state.WithEntityType("ent"))
		}
		d, _ := json.Marshal(msg)
		w.mat.Apply(&eventbus.StoredEvent{Offset: eventbus.Offset(fmt.Sprintf("%08d", op.N)), Data: d})
	case "m_replay":
		if w.store != nil && !nested {
			defer w.enter(clsState)()
			w.mat.Replay(ctx, bus, eventbus.OffsetOldest)
		}
	case "m_last":
		w.mat.LastOffset()
	case "c_get":
		w.coll.Get(fmt.Sprint(op.N % 5))
	case "c_all":
		w.coll.All()
	case "m_register":
		defer w.enter(clsState)()
		state.RegisterCollection(w.mat, state.NewTypedCollectionWithType[Ent](state.NewMemoryStore[Ent](), fmt.Sprintf("ent%d", op.N%3)))
	}
}

type ctxKey struct{}

// raceLogSize sums the sizes of the race detector's report files.
func raceLogSize() (int64, string) {
	dir := os.Getenv("VERIF_OUT")
	if dir == "" {
		return 0, ""
	}
	files, _ := filepath.Glob(filepath.Join(dir, "race.*"))
	var total int64
	last := ""
	for _, f := range files {
		if st, err := os.Stat(f); err == nil {
			total += st.Size()
			last = f
		}
	}
	return total, last
}

func readTail(path string, from int64) string {
	b, err := os.ReadFile(path)
	if err != nil || int64(len(b)) < from {
		return ""
	}
	s := string(b[from:])
	if len(s) > 12000 {
		s = s[:12000] + "\n...[truncated]"
	}
	return s
}

// raceInEbu reports whether a race report involves non-test code of jilio/ebu.
func raceInEbu(report string) bool {
	return strings.Contains(report, "github.com/jilio/ebu")
}

func runOnce(c *Case) (*world, bool, string) {
	w := &world{c: c, seqKeys: map[string]bool{}}
	w.fuel.Store(150)
	mark := func(ops []Op) {
		for _, op := range ops {
			if op.K == "sub" && op.Seq {
				w.seqKeys[hkeyOf(op.T, op.Slot, op.Ctx)] = true
			}
		}
	}
	mark(c.Setup)
	for _, g := range c.Goroutines {
		mark(g)
	}
	for _, ops := range c.Nested {
		mark(ops)
	}
	var cleanup func()
	switch c.Store {
	case "memory":
		w.store = eventbus.NewMemoryStore()
	case "sqlite":
		dir, cl := storekit.TempDir("c03-")
		st, err := storekit.OpenSQLite(dir, "r.db")
		if err != nil {
			cl()
			w.fail("", "open sqlite: %v", err)
			return w, false, ""
		}
		w.store = st
		cleanup = func() { st.Close(); cl() }
	case "durable":
		st, err := storekit.NewDSServer(200).Open("race")
		if err != nil {
			w.fail("", "open durable: %v", err)
			return w, false, ""
		}
		w.store = st
	}
	if cleanup != nil {
		defer cleanup()
	}
	var opts []eventbus.Option
	if w.store != nil {
		opts = append(opts, eventbus.WithStore(w.store))
	}
	opts = append(opts, eventbus.WithPanicHandler(func(any, reflect.Type, any) {}), eventbus.WithPersistenceErrorHandler(func(any, reflect.Type, error) {}))
	if c.Hooks {
		opts = append(opts,
			eventbus.WithBeforePublish(func(reflect.Type, any) { w.runNested("before") }),
			eventbus.WithAfterPublishContext(func(context.Context, reflect.Type, any) { w.runNested("after") }),
			eventbus.WithBeforePublishContext(func(context.Context, reflect.Type, any) {}),
			eventbus.WithAfterPublish(func(reflect.Type, any) {}))
	}
	if c.Obs {
		opts = append(opts, eventbus.WithObservability(obsNop{}))
	}
	w.bus = eventbus.New(opts...)
	w.mat = state.NewMaterializer()
	w.coll = state.NewTypedCollectionWithType[Ent](state.NewMemoryStore[Ent](), "ent")
	state.RegisterCollection(w.mat, w.coll)

	if c.Procs > 0 {
		defer runtime.GOMAXPROCS(runtime.GOMAXPROCS(c.Procs))
	}
	timedOut, deadlock, dump := vkit.Hang(60*time.Second, func() {
		for _, op := range c.Setup {
			w.exec(op, false)
		}
		var start, done sync.WaitGroup
		start.Add(1)
		for _, ops := range c.Goroutines {
			done.Add(1)
			go func(ops []Op) {
				defer done.Done()
				start.Wait()
				for _, op := range ops {
					w.exec(op, false)
				}
			}(ops)
		}
		start.Done()
		done.Wait()
		w.bus.Wait()
	}, "github.com/jilio/ebu", "verif/c03")
	if deadlock {
		dump = "DEADLOCK\n" + dump
	}
	return w, timedOut, dump
}

// Run executes the program; a data race reported while it ran, a panic or a
// reproducible hang is a violation.
func Run(c *Case) *vkit.Outcome {
	o := &vkit.Outcome{}
	before, _ := raceLogSize()
	w, timedOut, dump := runOnce(c)
	if timedOut && strings.HasPrefix(dump, "DEADLOCK\n") {
		// no need to reproduce: 65 s into the run every goroutine of the
		// program waits for another one and none can move
		if len(dump) > 8000 {
			dump = dump[:8000]
		}
		o.Failf("", "the program did not finish: after more than a minute every goroutine of it is blocked waiting for another goroutine (none runnable, sleeping or in I/O), at least one of them inside the bus: deadlock / lost wake-up. Goroutines:\n%s", dump)
		return o
	}
	if timedOut {
		_, again, dump2 := runOnce(c)
		if again {
			if len(dump2) > 8000 {
				dump2 = dump2[:8000]
			}
			o.Failf("", "the program did not finish within 60 s, twice (no operation waits on purpose): deadlock. Goroutines of the second run:\n%s", dump2)
			return o
		}
		_ = dump
		o.Class("slow_first_run_not_reproduced")
	}
	o.Viol = append(o.Viol, w.viol...)
	time.Sleep(time.Millisecond) // let the detector flush its report
	after, file := raceLogSize()
	if after > before {
		rep := readTail(file, 0)
		if raceInEbu(rep) {
			o.Failf("", "the race detector reported a data race involving jilio/ebu while this program ran:\n%s", rep)
		} else {
			o.Class("race_outside_ebu_ignored")
		}
		// start the next case from a clean report file
		os.Remove(file)
	}
	if w.overlap.Load() > 0 || w.nestedN.Load() > 0 {
		o.Nontrivial = true
	}
	if w.overlap.Load() > 0 {
		o.Class("conflicting_operations_in_flight_together")
	}
	if w.nestedN.Load() > 0 {
		o.Class("nested_call_from_handler_filter_or_hook")
	}
	o.Class("store_" + c.Store)
	return o
}
