package c05

import "pgregory.net/rapid"

func Gen(t *rapid.T) *Case {
	c := &Case{PanicHandler: rapid.IntRange(0, 3).Draw(t, "ph") != 0, Publishes: rapid.IntRange(1, 5).Draw(t, "pubs")}
	c.NilPH = rapid.SampledFrom([]string{"", "", "option", "setter", "unset"}).Draw(t, "nilPH")
	if c.PanicHandler {
		c.PHDelayUs = rapid.SampledFrom([]int{0, 0, 100, 1000, 3000}).Draw(t, "phdelay")
		c.PHResets = rapid.IntRange(0, 2).Draw(t, "phResets") == 0
	}
	c.CancelLast = rapid.IntRange(0, 2).Draw(t, "cancelLast") == 0
	c.Obs = rapid.IntRange(0, 2).Draw(t, "obs") == 0
	c.Via = rapid.SampledFrom([]string{"", "", "", "any", "iface"}).Draw(t, "via")
	c.Hooks = rapid.IntRange(0, 3).Draw(t, "hooks") == 0
	c.Store = rapid.IntRange(0, 3).Draw(t, "store") == 0
	n := rapid.IntRange(1, 8).Draw(t, "nh")
	for i := 0; i < n; i++ {
		h := H{
			Ctx:   rapid.Bool().Draw(t, "ctx"),
			Once:  rapid.IntRange(0, 3).Draw(t, "once") == 0,
			Async: rapid.IntRange(0, 2).Draw(t, "async") == 0,
			Seq:   rapid.IntRange(0, 2).Draw(t, "seq") == 0,
		}
		switch rapid.IntRange(0, 3).Draw(t, "panic") {
		case 0:
			h.Panic = "always"
		case 1:
			h.Panic = "nth"
			h.N = rapid.IntRange(1, c.Publishes).Draw(t, "n")
		}
		if h.Panic != "" {
			h.ValKind = rapid.SampledFrom([]string{"string", "error", "int", "struct", "nilerrptr", "badstringer", "nil", "slice", "map", "structslice"}).Draw(t, "val")
		}
		h.Replay = c.Store && !h.Ctx && rapid.Bool().Draw(t, "replaySub")
		c.Handlers = append(c.Handlers, h)
	}
	if c.PanicHandler && rapid.IntRange(0, 3).Draw(t, "swapping") == 0 {
		c.SwapAt = rapid.IntRange(1, len(c.Handlers)).Draw(t, "swapAt")
	}
	return c
}

func GenRe(t *rapid.T) *ReCase {
	c := &ReCase{Publishes: rapid.IntRange(1, 4).Draw(t, "pubs"), Wait: rapid.IntRange(0, 3).Draw(t, "wait") == 0}
	n := rapid.IntRange(1, 4).Draw(t, "nh")
	for i := 0; i < n; i++ {
		h := H{Ctx: rapid.Bool().Draw(t, "ctx"), Async: rapid.IntRange(0, 2).Draw(t, "async") == 0, Seq: rapid.Bool().Draw(t, "seq")}
		switch rapid.IntRange(0, 2).Draw(t, "panic") {
		case 0:
			h.Panic = "always"
		case 1:
			h.Panic = "nth"
			h.N = rapid.IntRange(1, c.Publishes).Draw(t, "n")
		}
		c.Handlers = append(c.Handlers, h)
	}
	return c
}
