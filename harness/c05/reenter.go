package c05

import (
	"context"
	"fmt"
	"reflect"
	"sort"
	"sync"
	"time"

	eventbus "github.com/jilio/ebu"
	"verif/vkit"
)

// ReCase: the panic handler itself uses the bus - it publishes a retry event
// of the same type (with an id that makes no handler panic) before it returns.
type ReCase struct {
	Handlers  []H  `json:"handlers"` // Once is ignored here
	Publishes int  `json:"publishes"`
	Wait      bool `json:"wait,omitempty"` // the panic handler hands the retry to another goroutine and waits for it
}

func RunRe(c *ReCase) *vkit.Outcome {
	var res *vkit.Outcome
	timedOut, dump := vkit.Watchdog(20*time.Second, func() { res = runRe(c) })
	if timedOut {
		t2, dump2 := vkit.Watchdog(20*time.Second, func() { res = runRe(c) })
		if t2 {
			o := &vkit.Outcome{}
			if len(dump2) > 6000 {
				dump2 = dump2[:6000]
			}
			o.Failf("", "%+v: Publish/Wait did not return within 20 s (twice) when the panic handler publishes a retry on the same bus; goroutines:\n%s", *c, dump2)
			return o
		}
		_ = dump
	}
	return res
}

func runRe(c *ReCase) *vkit.Outcome {
	o := &vkit.Outcome{}
	var mu sync.Mutex
	seen := make([]map[int]int, len(c.Handlers))
	for i := range seen {
		seen[i] = map[int]int{}
	}
	phCalls := map[string]int{}
	var bus *eventbus.EventBus
	bus = eventbus.New(eventbus.WithPanicHandler(func(ev any, _ reflect.Type, v any) {
		e, _ := ev.(Ev)
		mu.Lock()
		phCalls[fmt.Sprint(v)]++
		mu.Unlock()
		var hi, eid int
		fmt.Sscanf(fmt.Sprint(v), "h%d/e%d", &hi, &eid)
		retry := Ev{ID: 1000*(hi+1) + e.ID} // one retry per panic, never a panicking id
		if c.Wait {
			done := make(chan struct{})
			go func() { defer close(done); eventbus.Publish(bus, retry) }()
			<-done
		} else {
			eventbus.Publish(bus, retry)
		}
	}))
	for hi, h := range c.Handlers {
		hi, h := hi, h
		body := func(id int) {
			mu.Lock()
			seen[hi][id]++
			mu.Unlock()
			if id < 1000 && (h.Panic == "always" || (h.Panic == "nth" && id == h.N)) {
				panic(fmt.Sprintf("h%d/e%d", hi, id))
			}
		}
		var so []eventbus.SubscribeOption
		if h.Async {
			so = append(so, eventbus.Async())
		}
		if h.Seq {
			so = append(so, eventbus.Sequential())
		}
		if h.Ctx {
			eventbus.SubscribeContext(bus, func(_ context.Context, e Ev) { body(e.ID) }, so...)
		} else {
			eventbus.Subscribe(bus, func(e Ev) { body(e.ID) }, so...)
		}
	}
	for p := 1; p <= c.Publishes; p++ {
		func() {
			defer func() {
				if r := recover(); r != nil {
					o.Failf("", "publish %d: panic reached the publisher: %v", p, r)
				}
			}()
			eventbus.Publish(bus, Ev{p})
		}()
	}
	bus.Wait()
	if len(o.Viol) > 0 {
		return o
	}
	mu.Lock()
	defer mu.Unlock()
	// expected: every handler sees every original id once and one retry event
	// per panic (of any handler)
	wantPanics := map[string]bool{}
	for hi, h := range c.Handlers {
		for p := 1; p <= c.Publishes; p++ {
			if h.Panic == "always" || (h.Panic == "nth" && p == h.N) {
				wantPanics[fmt.Sprintf("h%d/e%d", hi, p)] = true
			}
		}
	}
	for k := range wantPanics {
		if phCalls[k] != 1 {
			o.Failf("", "%+v: the panic handler was called %d times for panic %s, expected once", *c, phCalls[k], k)
			return o
		}
	}
	if len(phCalls) != len(wantPanics) {
		o.Failf("", "%+v: panic handler calls %v, expected exactly the panics %v", *c, phCalls, keysOf(wantPanics))
		return o
	}
	for hi := range c.Handlers {
		nOrig, nRetry := 0, 0
		for id, n := range seen[hi] {
			if n != 1 {
				o.Failf("", "%+v: handler %d received event %d %d times", *c, hi, id, n)
				return o
			}
			if id < 1000 {
				nOrig++
			} else {
				nRetry++
			}
		}
		if nOrig != c.Publishes || nRetry != len(wantPanics) {
			o.Failf("", "%+v: handler %d received %d of %d published events and %d of %d retry events published by the panic handler", *c, hi, nOrig, c.Publishes, nRetry, len(wantPanics))
			return o
		}
	}
	if len(wantPanics) > 0 {
		o.Nontrivial = true
		o.Class("panic_handler_published_a_retry_on_the_same_bus")
		for hi, h := range c.Handlers {
			if h.Seq && h.Panic != "" {
				_ = hi
				o.Class("retry_delivered_to_the_sequential_handler_that_panicked")
				break
			}
		}
	}
	return o
}

func keysOf(m map[string]bool) []string {
	var out []string
	for k := range m {
		out = append(out, k)
	}
	sort.Strings(out)
	return out
}
