package c05

import (
	"testing"

	"pgregory.net/rapid"
	"verif/vkit"
)

var coll = vkit.NewCollector("C05", "TestPanics", "1-8 handlers of every kind/option combination (plain/context-aware x Once x Async x Sequential) at drawn positions, each panicking never / always / on a chosen event with a string, error, int or struct value, or one that cannot describe itself (a typed nil pointer whose Error method dereferences it, a Stringer that panics); bus with or without a panic handler (instant or taking 0.1-3 ms, a slow reporter) and with drawn ambient configuration (observability, publish hooks, a store) that must not change the outcome; 1-5 publishes then Wait, under a real-time watchdog. Oracle = model: Publish returns, every expected invocation happened (sync order exact), panic handler called exactly once per panic with the event, a func type whose last parameter is the event type (1 or 2 parameters by kind) and the value; Sequential handlers run again, panicking Once handlers stay retired, Wait returns. Non-trivial = a panicking handler that is not last or is Sequential/Once/Async, followed by a further publish.")

var collRe = vkit.NewCollector("C05", "TestPanicHandlerReenters", "1-4 handlers (plain/context-aware x Async x Sequential) panicking never / always / on a chosen event, 1-4 publishes; the panic handler publishes a retry event of the same type on the same bus before it returns (directly, or from another goroutine it waits for), under a real-time watchdog. Oracle: Publish and Wait return (a hang must reproduce), the panic handler is called exactly once per panic, every handler receives every published event and every retry event exactly once. Non-trivial = at least one panic.")

func TestPanicHandlerReenters(t *testing.T) { vkit.Check(t, collRe, GenRe, RunRe) }

var collConc = vkit.NewCollector("C05", "TestConcurrentPanics", "2-4 goroutines publish 1-8 events each at the same time to 1-3 handlers (plain/context-aware x Async x Sequential) that panic on every Mod-th event (Mod 1, 2, 3, 5 or never) and yield inside every invocation, 5 rounds on fresh buses with drawn GOMAXPROCS, under a real-time watchdog (a hang must reproduce). Oracle: no panic reaches a publisher, every handler receives every event exactly once, the panic handler is called exactly once per panic, and one more publish after all publishers returned reaches every handler. Non-trivial = a synchronous Sequential handler that panics.")

func TestMain(m *testing.M) { vkit.Main(m) }

func TestConcurrentPanics(t *testing.T) { vkit.Check(t, collConc, GenConc, RunConc) }

func TestPanics(t *testing.T) {
	rapid.Check(t, func(rt *rapid.T) {
		c := Gen(rt)
		vkit.SaveCurrent("C05", "TestPanics", c)
		if v := coll.Account(c, Run(c)); v != nil {
			vkit.SaveFail("C05", "TestPanics", c, v)
			rt.Fatalf("%s", v.Error())
		}
	})
}

func TestReplay(t *testing.T) {
	r := vkit.NeedReplay(t)
	_ = vkit.ReplayCase(t, r, coll, Run) || vkit.ReplayCase(t, r, collRe, RunRe) || vkit.ReplayCase(t, r, collConc, RunConc)
}
