package c05

import (
	"context"
	"fmt"
	"reflect"
	"runtime"
	"sync"
	"time"

	eventbus "github.com/jilio/ebu"
	"pgregory.net/rapid"
	"verif/vkit"
)

// ConcCase: 2-4 goroutines publish at the same time to 1-3 handlers of
// drawn kinds, some of which panic on every Mod-th event; handler bodies
// yield, so invocations of a Sequential handler queue up behind each other and
// the one that panics is often one that had to wait.  Oracle: every publish
// returns without a panic, every handler receives every event exactly once,
// the panic handler is called exactly once per panic, and one more publish
// afterwards still reaches every handler (a panicking Sequential handler can
// run again, whoever was waiting for it).
type ConcCase struct {
	Handlers   []CH  `json:"handlers"`
	Publishers []int `json:"publishers"` // events per goroutine
	Procs      int   `json:"procs"`
	Rounds     int   `json:"rounds"`
}

type CH struct {
	Ctx   bool `json:"ctx,omitempty"`
	Async bool `json:"async,omitempty"`
	Seq   bool `json:"seq,omitempty"`
	Mod   int  `json:"mod,omitempty"`   // > 0: panics for every event id that is a multiple of Mod
	Yield int  `json:"yield,omitempty"` // Gosched calls inside every invocation
}

func GenConc(t *rapid.T) *ConcCase {
	c := &ConcCase{Procs: rapid.SampledFrom([]int{1, 2, 4, 16}).Draw(t, "procs"), Rounds: 5}
	nh := rapid.IntRange(1, 3).Draw(t, "nh")
	for i := 0; i < nh; i++ {
		c.Handlers = append(c.Handlers, CH{Ctx: rapid.Bool().Draw(t, "ctx"), Async: rapid.IntRange(0, 2).Draw(t, "async") == 0, Seq: rapid.IntRange(0, 2).Draw(t, "seq") != 0,
			Mod: rapid.SampledFrom([]int{0, 1, 2, 3, 5}).Draw(t, "mod"), Yield: rapid.IntRange(0, 3).Draw(t, "yield")})
	}
	np := rapid.IntRange(2, 4).Draw(t, "np")
	for i := 0; i < np; i++ {
		c.Publishers = append(c.Publishers, rapid.IntRange(1, 8).Draw(t, "n"))
	}
	return c
}

func RunConc(c *ConcCase) *vkit.Outcome {
	var res *vkit.Outcome
	run := func() { res = runConc(c) }
	if timedOut, _ := vkit.Watchdog(30*time.Second, run); timedOut {
		o := &vkit.Outcome{}
		again, dump := vkit.Watchdog(30*time.Second, run)
		if again {
			if len(dump) > 6000 {
				dump = dump[:6000]
			}
			o.Failf("", "%+v: concurrent publishers against panicking handlers did not finish within 30 s, twice (a publish to a handler that panicked earlier never returns?); goroutines:\n%s", *c, dump)
			return o
		}
		o.Class("slow_first_run_not_reproduced")
		return o
	}
	return res
}

func runConc(c *ConcCase) *vkit.Outcome {
	o := &vkit.Outcome{}
	if c.Procs > 0 {
		defer runtime.GOMAXPROCS(runtime.GOMAXPROCS(c.Procs))
	}
	total := 0
	for _, n := range c.Publishers {
		total += n
	}
	for round := 0; round < c.Rounds; round++ {
		var mu sync.Mutex
		seen := make([]map[int]int, len(c.Handlers))
		for i := range seen {
			seen[i] = map[int]int{}
		}
		ph := map[string]int{}
		reached := ""
		bus := eventbus.New(eventbus.WithPanicHandler(func(_ any, _ reflect.Type, v any) {
			mu.Lock()
			ph[fmt.Sprint(v)]++
			mu.Unlock()
		}))
		for hi, h := range c.Handlers {
			hi, h := hi, h
			body := func(id int) {
				for y := 0; y < h.Yield; y++ {
					runtime.Gosched()
				}
				mu.Lock()
				seen[hi][id]++
				mu.Unlock()
				if h.Mod > 0 && id <= total && id%h.Mod == 0 {
					panic(fmt.Sprintf("h%d/e%d", hi, id))
				}
			}
			var so []eventbus.SubscribeOption
			if h.Async {
				so = append(so, eventbus.Async())
			}
			if h.Seq {
				so = append(so, eventbus.Sequential())
			}
			if h.Ctx {
				eventbus.SubscribeContext(bus, func(_ context.Context, e Ev) { body(e.ID) }, so...)
			} else {
				eventbus.Subscribe(bus, func(e Ev) { body(e.ID) }, so...)
			}
		}
		var start, done sync.WaitGroup
		start.Add(1)
		base := 0
		for _, n := range c.Publishers {
			done.Add(1)
			go func(base, n int) {
				defer done.Done()
				start.Wait()
				for i := 1; i <= n; i++ {
					func() {
						defer func() {
							if r := recover(); r != nil {
								mu.Lock()
								if reached == "" {
									reached = fmt.Sprintf("publish of event %d: a panic reached the publisher: %v", base+i, r)
								}
								mu.Unlock()
							}
						}()
						eventbus.Publish(bus, Ev{base + i})
					}()
				}
			}(base, n)
			base += n
		}
		start.Done()
		done.Wait()
		bus.Wait()
		// the bus is still fully usable: one more event, which nobody panics on
		eventbus.Publish(bus, Ev{total + 1})
		bus.Wait()
		mu.Lock()
		if reached != "" {
			mu.Unlock()
			o.Failf("", "round %d: %s", round, reached)
			return o
		}
		for hi, h := range c.Handlers {
			for id := 1; id <= total+1; id++ {
				if n := seen[hi][id]; n != 1 {
					mu.Unlock()
					o.Failf("", "round %d: handler %d %+v received event %d %d times, expected once (%d concurrent publishers, events 1..%d, then event %d after they had all returned)", round, hi, h, id, n, len(c.Publishers), total, total+1)
					return o
				}
				want := 0
				if h.Mod > 0 && id <= total && id%h.Mod == 0 {
					want = 1
				}
				if n := ph[fmt.Sprintf("h%d/e%d", hi, id)]; n != want {
					mu.Unlock()
					o.Failf("", "round %d: the panic handler was called %d times for handler %d on event %d, expected %d", round, n, hi, id, want)
					return o
				}
			}
		}
		mu.Unlock()
	}
	for _, h := range c.Handlers {
		if h.Seq && !h.Async && h.Mod > 0 {
			o.Nontrivial = true
			o.Class("synchronous_sequential_handler_panics_under_concurrent_publishers")
		}
		if h.Mod > 0 {
			o.Class("panicking_handler_under_concurrent_publishers")
		}
	}
	return o
}
