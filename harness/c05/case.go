// Package c05 decides property C05: a panicking handler never harms the
// publisher or the other handlers.
package c05

import (
	"strings"
	"context"
	"errors"
	"fmt"
	"reflect"
	"runtime"
	"sort"
	"sync"
	"sync/atomic"
	"time"

	eventbus "github.com/jilio/ebu"
	"verif/vkit"
)

type Ev struct{ ID int }

// Event is an application-level event interface; Ev implements it.
type Event interface{ EventID() int }

func (e Ev) EventID() int { return e.ID }

type H struct {
	Ctx     bool   `json:"ctx,omitempty"`
	Once    bool   `json:"once,omitempty"`
	Async   bool   `json:"async,omitempty"`
	Seq     bool   `json:"seq,omitempty"`
	Panic   string `json:"panic,omitempty"` // "", always, nth
	N       int    `json:"n,omitempty"`     // nth: panic when handling event N (event ids are 1..Publishes)
	ValKind string `json:"val,omitempty"`   // string error int struct nilerr
	// Replay (bus with a store, handler without context): subscribed through
	// SubscribeWithReplay.  The log is empty then, so it is a live
	// subscription that also records its position; a panic in it is a
	// handler panic like any other.
	Replay bool `json:"replay,omitempty"`
}

type Case struct {
	Handlers     []H  `json:"handlers"`
	Publishes    int  `json:"publishes"`
	PanicHandler bool `json:"panic_handler"`
	// NilPH: the panic handler is explicitly nil: "option" = WithPanicHandler(nil)
	// (an optional callback left unset by the application), "setter" =
	// SetPanicHandler(nil) after New, "unset" = a real handler installed by
	// option and removed again with SetPanicHandler(nil) before any publish.
	// A nil handler is "no panic handler set".
	NilPH string `json:"nil_ph,omitempty"`
	// PHDelayUs makes the panic handler take this long (a slow reporter).
	PHDelayUs int `json:"ph_delay_us,omitempty"`
	// PHResets (no asynchronous handler in the case, so nothing runs
	// concurrently): every time it is called the panic handler installs
	// itself again with SetPanicHandler - a handler that reconfigures the bus
	// it reports for.  Nothing changes by that.
	PHResets bool `json:"ph_resets,omitempty"`
	// SwapAt > 0 (no asynchronous handler in the case, a panic handler
	// installed): handler SwapAt-1 installs a second panic handler with
	// SetPanicHandler the first time it runs (reconfiguration from inside a
	// dispatch, on the publishing goroutine).  Panics from then on - its own
	// included - are reported to the second one: the handler that is set when
	// the panic happens.
	SwapAt int `json:"swap_at,omitempty"`
	// CancelLast: every publish carries a context of its own, and the last
	// handler in subscription order - if it is synchronous and panics, and
	// no handler is asynchronous - cancels that context just before it
	// panics.  Nothing is left to skip, so the outcome must not change.
	CancelLast bool `json:"cancel_last,omitempty"`
	// Via: the static type the events are published through: "" = Ev itself,
	// "any" = Publish[any], "iface" = Publish[Event] (an application event
	// interface).  Handlers are found by the dynamic type either way.
	Via string `json:"via,omitempty"`
	// ambient configuration that must not change the outcome
	Obs   bool `json:"obs,omitempty"`   // an Observability implementation is installed
	Hooks bool `json:"hooks,omitempty"` // before/after publish hooks are installed
	Store bool `json:"store,omitempty"` // the bus persists to a memory store
}

type obsNop struct{ errs *int32 }

func (obsNop) OnPublishStart(ctx context.Context, _ string, _ any) context.Context { return ctx }
func (obsNop) OnPublishComplete(context.Context, string)                           {}
func (obsNop) OnHandlerStart(ctx context.Context, _ string, _ bool) context.Context {
	return ctx
}
func (o obsNop) OnHandlerComplete(_ context.Context, _ time.Duration, err error) {
	if err != nil {
		atomic.AddInt32(o.errs, 1)
	}
}
func (obsNop) OnPersistStart(ctx context.Context, _ string, _ int64) context.Context { return ctx }
func (obsNop) OnPersistComplete(context.Context, time.Duration, error)               {}

type pval struct {
	H, Call int
}

var errVals sync.Map

// valErr is an error type whose Error method dereferences its receiver: a
// typed nil pointer of it is a legal panic value that cannot describe itself.
type valErr struct{ msg string }

func (e *valErr) Error() string { return e.msg }

// badStringer's String method fails for the values used here.
type badStringer int

func (b badStringer) String() string { return []string{"a", "b"}[int(b)] }

func panicValue(kind string, h, call int) any {
	switch kind {
	case "nilerrptr":
		var e *valErr
		return e
	case "nil":
		// panic(nil): the runtime hands recover a *runtime.PanicNilError
		return nil
	case "badstringer":
		return badStringer(7 + h)
	case "error":
		return fmt.Errorf("boom %d/%d", h, call)
	case "int":
		return h*1000 + call
	case "struct":
		return pval{h, call}
	case "slice":
		// values of uncomparable dynamic type: slice-based error lists are common
		return []int{h, call}
	case "map":
		return map[string]int{"h": h, "call": call}
	case "structslice":
		return pvalList{Codes: []int{h, call}}
	}
	return fmt.Sprintf("boom %d/%d", h, call)
}

type pvalList struct{ Codes []int }

type phCall struct {
	Gen   int // which panic handler was called (1 = the one installed first)
	EvID  int
	NumIn int
	Last  reflect.Type
	Kind  reflect.Kind
	Val   string
}

// Run executes the case.
func Run(c *Case) *vkit.Outcome {
	o := &vkit.Outcome{}
	var res *vkit.Outcome
	timedOut, dump := vkit.Watchdog(20*time.Second, func() { res = run(c) })
	if timedOut {
		// confirm on a second execution before reporting
		t2, _ := vkit.Watchdog(20*time.Second, func() { res = run(c) })
		if t2 {
			o.Failf("", "Publish/Wait did not return within 20 s (twice) although no handler blocks; goroutines:\n%s", trimDump(dump))
			return o
		}
	}
	return res
}

func trimDump(d string) string {
	if len(d) > 6000 {
		return d[:6000] + "\n..."
	}
	return d
}

func run(c *Case) *vkit.Outcome {
	o := &vkit.Outcome{}
	var mu sync.Mutex
	calls := make([][]int, len(c.Handlers)) // event ids seen, per handler
	ncall := make([]int, len(c.Handlers))
	var syncOrder []string // "h:id" for synchronous handlers in invocation order
	var ph []phCall

	var opts []eventbus.Option
	var busRef *eventbus.EventBus
	var thePH eventbus.PanicHandler
	noAsync := true
	for _, h := range c.Handlers {
		noAsync = noAsync && !h.Async
	}
	phs := map[int]eventbus.PanicHandler{}
	mkPH := func(gen int) eventbus.PanicHandler {
		return func(event any, ht reflect.Type, v any) {
			call := phCall{Gen: gen, Val: fmt.Sprintf("%T:%v", v, v)}
			if e, ok := event.(Ev); ok {
				call.EvID = e.ID
			} else {
				call.EvID = -1
			}
			if ht != nil {
				call.Kind = ht.Kind()
				if ht.Kind() == reflect.Func {
					call.NumIn = ht.NumIn()
					if ht.NumIn() > 0 {
						call.Last = ht.In(ht.NumIn() - 1)
					}
				}
			}
			mu.Lock()
			ph = append(ph, call)
			mu.Unlock()
			if c.PHDelayUs > 0 {
				time.Sleep(time.Duration(c.PHDelayUs) * time.Microsecond)
			}
			if c.PHResets && c.SwapAt == 0 && noAsync && busRef != nil {
				busRef.SetPanicHandler(phs[gen])
			}
		}
	}
	if c.PanicHandler {
		phs[1], phs[2] = mkPH(1), mkPH(2)
		thePH = phs[1]
		opts = append(opts, eventbus.WithPanicHandler(thePH))
	}
	swapAt := -1
	if c.SwapAt > 0 && c.SwapAt <= len(c.Handlers) && noAsync && c.PanicHandler && c.NilPH != "unset" {
		swapAt = c.SwapAt - 1
	}
	if !c.PanicHandler && c.NilPH == "option" {
		opts = append(opts, eventbus.WithPanicHandler(nil))
	}
	var obsErrs int32
	if c.Obs {
		opts = append(opts, eventbus.WithObservability(obsNop{&obsErrs}))
	}
	if c.Hooks {
		opts = append(opts, eventbus.WithBeforePublish(func(reflect.Type, any) {}), eventbus.WithAfterPublishContext(func(context.Context, reflect.Type, any) {}))
	}
	if c.Store {
		opts = append(opts, eventbus.WithStore(eventbus.NewMemoryStore()))
	}
	bus := eventbus.New(opts...)
	busRef = bus
	if (!c.PanicHandler && c.NilPH == "setter") || (c.PanicHandler && c.NilPH == "unset") {
		bus.SetPanicHandler(nil)
	}

	anyAsync := false
	for _, h := range c.Handlers {
		anyAsync = anyAsync || h.Async
	}
	cancelLast := c.CancelLast && !anyAsync
	var cancels sync.Map // event id -> context.CancelFunc
	body := func(hi int, id int) {
		h := c.Handlers[hi]
		mu.Lock()
		ncall[hi]++
		n := ncall[hi]
		calls[hi] = append(calls[hi], id)
		if !h.Async {
			syncOrder = append(syncOrder, fmt.Sprintf("%d:%d", hi, id))
		}
		mu.Unlock()
		if hi == swapAt && n == 1 {
			busRef.SetPanicHandler(phs[2])
		}
		if h.Panic == "always" || (h.Panic == "nth" && id == h.N) {
			if cancelLast && hi == len(c.Handlers)-1 {
				if f, ok := cancels.Load(id); ok {
					f.(context.CancelFunc)()
				}
			}
			panic(panicValue(h.ValKind, hi, id))
		}
	}
	for hi, h := range c.Handlers {
		var so []eventbus.SubscribeOption
		if h.Once {
			so = append(so, eventbus.Once())
		}
		if h.Async {
			so = append(so, eventbus.Async())
		}
		if h.Seq {
			so = append(so, eventbus.Sequential())
		}
		hi := hi
		var err error
		if h.Ctx {
			err = eventbus.SubscribeContext(bus, func(_ context.Context, e Ev) { body(hi, e.ID) }, so...)
		} else if h.Replay && c.Store {
			err = eventbus.SubscribeWithReplay(context.Background(), bus, fmt.Sprintf("sub-%d", hi), func(e Ev) { body(hi, e.ID) }, so...)
		} else {
			err = eventbus.Subscribe(bus, func(e Ev) { body(hi, e.ID) }, so...)
		}
		if err != nil {
			o.Failf("", "subscribe: %v", err)
			return o
		}
	}

	// model
	wantCalls := make([][]int, len(c.Handlers))
	var wantSync []string
	var wantPH []phCall
	fired := make([]bool, len(c.Handlers))
	mcall := make([]int, len(c.Handlers))
	evType := reflect.TypeOf(Ev{})
	gen := 1

	liveCtx, liveCancel := context.WithCancel(context.Background())
	defer liveCancel()
	for p := 1; p <= c.Publishes; p++ {
		// the publish itself must not panic
		func() {
			defer func() {
				if r := recover(); r != nil {
					o.Failf("", "publish %d: panic reached the publisher: %v", p, r)
				}
			}()
			var ctx context.Context
			if cancelLast {
				c2, cancel := context.WithCancel(context.Background())
				cancels.Store(p, cancel)
				defer cancel()
				ctx = c2
			} else if p%4 == 0 {
				ctx = context.Background()
			} else if p%2 == 0 {
				// a context that can be cancelled but stays live for the whole case
				ctx = liveCtx
			}
			switch {
			case c.Via == "any" && ctx != nil:
				eventbus.PublishContext[any](bus, ctx, Ev{p})
			case c.Via == "any":
				eventbus.Publish[any](bus, Ev{p})
			case c.Via == "iface" && ctx != nil:
				eventbus.PublishContext[Event](bus, ctx, Ev{p})
			case c.Via == "iface":
				eventbus.Publish[Event](bus, Ev{p})
			case ctx != nil:
				eventbus.PublishContext(bus, ctx, Ev{p})
			default:
				eventbus.Publish(bus, Ev{p})
			}
		}()
		if len(o.Viol) > 0 {
			return o
		}
		for hi, h := range c.Handlers {
			if h.Once && fired[hi] {
				continue
			}
			fired[hi] = true
			mcall[hi]++
			swapsNow := hi == swapAt && mcall[hi] == 1
			if swapsNow {
				gen = 2
				o.Class("panic_handler_replaced_from_inside_a_dispatch")
			}
			wantCalls[hi] = append(wantCalls[hi], p)
			if !h.Async {
				wantSync = append(wantSync, fmt.Sprintf("%d:%d", hi, p))
			}
			if h.Panic == "always" || (h.Panic == "nth" && p == h.N) {
				v := panicValue(h.ValKind, hi, p)
				if v == nil {
					v = &runtime.PanicNilError{}
				}
				numIn := 1
				if h.Ctx {
					numIn = 2
				}
				g := gen
				if swapsNow {
					// the invocation that replaced the handler: its own panic
					// may be reported to the old or to the new one
					g = 0
				}
				wantPH = append(wantPH, phCall{Gen: g, EvID: p, NumIn: numIn, Last: evType, Kind: reflect.Func, Val: fmt.Sprintf("%T:%v", v, v)})
				special := h.Seq || h.Once || h.Async || hi < len(c.Handlers)-1
				if special && p < c.Publishes {
					o.Nontrivial = true
				}
			}
		}
	}
	bus.Wait()

	mu.Lock()
	defer mu.Unlock()
	for hi := range c.Handlers {
		if fmt.Sprint(calls[hi]) != fmt.Sprint(wantCalls[hi]) {
			got := append([]int{}, calls[hi]...)
			sort.Ints(got)
			if !c.Handlers[hi].Async || fmt.Sprint(got) != fmt.Sprint(wantCalls[hi]) {
				o.Failf("", "handler %d %+v received events %v, expected %v (every handler must still receive every event)", hi, c.Handlers[hi], calls[hi], wantCalls[hi])
				return o
			}
		}
	}
	if fmt.Sprint(syncOrder) != fmt.Sprint(wantSync) {
		o.Failf("", "synchronous invocation order %v, expected %v", syncOrder, wantSync)
		return o
	}
	if c.PanicHandler && c.NilPH == "unset" && len(ph) != 0 {
		o.Failf("", "the panic handler was removed with SetPanicHandler(nil) before the first publish, yet it was called %d times", len(ph))
		return o
	}
	if c.PanicHandler && c.NilPH != "unset" {
		key := func(c phCall) string { return fmt.Sprintf("ph%d|%d|%d|%v|%v|%s", c.Gen, c.EvID, c.NumIn, c.Last, c.Kind, c.Val) }
		var g, w []string
		either := map[string]int{} // keys (without the handler) that either handler may have received
		for _, x := range wantPH {
			if x.Gen == 0 {
				k := key(x)
				either[k[strings.Index(k, "|"):]]++
			}
			w = append(w, key(x))
		}
		for _, x := range ph {
			k := key(x)
			if rest := k[strings.Index(k, "|"):]; either[rest] > 0 {
				either[rest]--
				k = "ph0" + rest
			}
			g = append(g, k)
		}
		sort.Strings(g)
		sort.Strings(w)
		if fmt.Sprint(g) != fmt.Sprint(w) {
			o.Failf("", "panic handler calls (which handler|event|numIn|lastParam|kind|value):\n  got  %v\n  want %v", g, w)
			return o
		}
	}
	if n := eventbus.HandlerCount[Ev](bus); true {
		want := 0
		for hi, h := range c.Handlers {
			if !(h.Once && fired[hi]) {
				want++
			}
		}
		if n != want {
			o.Failf("", "HandlerCount = %d after the run, expected %d (fired Once handlers retired, also when they panicked)", n, want)
		}
	}
	if c.Obs {
		if int(atomic.LoadInt32(&obsErrs)) != len(wantPH) {
			o.Failf("", "%d handler invocations panicked, observability saw %d handler completions with an error", len(wantPH), obsErrs)
		}
		o.Class("with_observability")
	}
	if cancelLast {
		if h := c.Handlers[len(c.Handlers)-1]; h.Panic != "" {
			o.Class("last_handler_cancels_the_publish_context_then_panics")
		}
	}
	if c.PHDelayUs > 0 {
		for _, h := range c.Handlers {
			if h.Async && h.Seq && h.Panic == "always" && !h.Once && c.Publishes >= 3 {
				o.Class("slow_panic_handler_with_async_sequential_handler_panicking_on_consecutive_events")
				break
			}
		}
	}
	if o.Nontrivial {
		o.Class("panic_not_last_or_seq_once_async_then_further_publish")
	}
	_ = errors.New
	return o
}
