//go:build verif

// Package c02 decides property C02: subscribe, unsubscribe and publish stay
// consistent under every interleaving.  Programs of 2-4 tasks run either
// under the harness-owned cooperative scheduler (the schedule is part of the
// case) or free on real goroutines; the oracle is a set of real-time-order
// invariants over the recorded history.
package c02

import (
	"context"
	"fmt"
	"reflect"
	"runtime"
	"sort"
	"sync"
	"sync/atomic"
	"testing"
	"time"

	eventbus "github.com/jilio/ebu"
	"verif/busmodel"
	"verif/sched"
	"verif/vkit"
)

type Op struct {
	K      string `json:"k"` // sub unsub clear pub count
	T      int    `json:"t"` // index into Case.Types
	Slot   int    `json:"slot,omitempty"`
	Ctx    bool   `json:"ctx,omitempty"`
	Once   bool   `json:"once,omitempty"`
	Async  bool   `json:"async,omitempty"`
	Filter string `json:"filter,omitempty"` // all even odd  (every handler has a recording filter)
	ID     int    `json:"id,omitempty"`
	Any    bool   `json:"any,omitempty"` // pub: through the static type any
	// Live (pub): published with a cancellable context that is never
	// cancelled while the case runs - a request-scoped context.
	Live bool `json:"live,omitempty"`
	// Seq (sub, with Async, never Once): the handler is Async+Sequential.
	Seq bool `json:"seq,omitempty"`
	// Dead (pub): published with a context of its own that is cancelled as
	// soon as PublishContext has returned.  Asynchronous handlers may or may
	// not still receive that event (at most once); everything else - the
	// synchronous handlers of this publish, every handler of the other
	// publishes - is owed what it is always owed.
	Dead bool `json:"dead,omitempty"`
	// Mid (pub): published with a context of its own that the first
	// synchronous context-aware handler receiving the event cancels (and the
	// publisher cancels on return at the latest).  Handlers behind the
	// cancelling one may or may not take part in that publish; registrations
	// keep their state: a Once handler that ran is retired, one that did not
	// is still there.
	Mid bool `json:"mid,omitempty"`
}

type Case struct {
	Types    []int  `json:"types"`
	Tasks    [][]Op `json:"tasks"`
	Schedule []int  `json:"schedule,omitempty"`
	Free     bool   `json:"free,omitempty"` // free-running goroutines instead of the scheduler
	Procs    int    `json:"procs,omitempty"`
	Noise    []int  `json:"noise,omitempty"`
	Rounds   int    `json:"rounds,omitempty"` // free mode: the program is executed this many times on fresh buses
	// SharedOpts: one Once()/Async() option value is reused for every
	// subscription of an execution instead of a fresh one per Subscribe call.
	SharedOpts bool `json:"shared_opts,omitempty"`
}

type regKey struct {
	t    int
	slot int
	ctx  bool
}

func (k regKey) String() string {
	c := "h"
	if k.ctx {
		c = "c"
	}
	return fmt.Sprintf("T%d.%s%d", k.t, c, k.slot)
}

type regInfo struct {
	key             regKey
	subCall, subRet int64
	once, async     bool
	filter          string
}

type opRec struct {
	task, idx int
	op        Op
	call, ret int64
	ok        bool // unsub: returned nil
	count     int  // count op result
}

type pubRec struct {
	id        int
	t         int
	call, ret int64
	filters   map[regKey][]int64
	handlers  map[regKey][]int64
	dead      bool // its context was cancelled as soon as the publish had returned
	mid       bool // ... or already by a synchronous handler of the publish
	cancelAt  int64 // mid: stamp of the handler invocation that cancelled (0 = none did)
}

// claimable: the (cancelled) publish dp can have claimed the asynchronous Once
// registration k without running it - its filter was consulted before the
// context was cancelled.
func (dp *pubRec) claimable(k regKey) bool {
	fs := dp.filters[k]
	if !dp.dead || len(fs) == 0 || len(dp.handlers[k]) != 0 {
		return false
	}
	return !dp.mid || dp.cancelAt == 0 || fs[0] < dp.cancelAt
}

type midKey struct{}

type hist struct {
	mu    sync.Mutex
	clock atomic.Int64
	regs  map[regKey]*regInfo
	ops   []*opRec
	pubs  map[int]*pubRec
}

func (h *hist) stamp() int64 { return h.clock.Add(1) }

func accepts(f string, id int) bool {
	switch f {
	case "even":
		return id%2 == 0
	case "odd":
		return id%2 != 0
	}
	return true
}

// liveCancels keeps the cancel functions of request-scoped publish contexts alive.
var liveCancels sync.Map
var liveSeq atomic.Int64

type world struct {
	opts  *busmodel.OptSource // nil = fresh option values; shared = one value per kind for the whole case
	c     *Case
	bus   *eventbus.EventBus
	h     *hist
	s     *sched.S
	noise func()
}

func (w *world) yield(p string) {
	if w.s != nil {
		w.s.Yield(p)
	} else if w.noise != nil {
		w.noise()
	}
}

// OnHandler implements busmodel.Env.
func (w *world) OnHandler(ti, slot int, ctxAware bool, ctx context.Context, id int) {
	t := 0
	for i, g := range w.c.Types {
		if g == ti {
			t = i
		}
	}
	k := regKey{t, slot, ctxAware}
	w.h.mu.Lock()
	async := false
	if r := w.h.regs[k]; r != nil {
		async = r.async
	}
	var cancel context.CancelFunc
	if p := w.h.pubs[id]; p != nil {
		at := w.h.stamp()
		p.handlers[k] = append(p.handlers[k], at)
		if p.mid && !async && ctxAware && ctx != nil {
			if f, ok := ctx.Value(midKey{}).(context.CancelFunc); ok {
				cancel = f
				if p.cancelAt == 0 {
					p.cancelAt = at
				}
			}
		}
	}
	w.h.mu.Unlock()
	if cancel != nil {
		cancel()
	}
	if !async {
		w.yield("handler")
	}
}

func (w *world) execOp(task, idx int, op Op) {
	h := w.h
	tops := busmodel.Types[w.c.Types[op.T]]
	rec := &opRec{task: task, idx: idx, op: op}
	w.yield("op")
	switch op.K {
	case "sub":
		k := regKey{op.T, op.Slot, op.Ctx}
		info := &regInfo{key: k, once: op.Once, async: op.Async, filter: op.Filter}
		h.mu.Lock()
		h.regs[k] = info
		info.subCall = h.stamp()
		rec.call = info.subCall
		info.subRet = 1 << 60
		h.mu.Unlock()
		var so []eventbus.SubscribeOption
		if op.Once {
			so = append(so, w.opts.Once())
		}
		if op.Async {
			so = append(so, w.opts.Async())
		}
		if op.Async && op.Seq && !op.Once {
			so = append(so, w.opts.Sequential())
		}
		filter := func(id int) bool {
			h.mu.Lock()
			if p := h.pubs[id]; p != nil {
				p.filters[k] = append(p.filters[k], h.stamp())
			}
			h.mu.Unlock()
			w.yield("filter")
			return accepts(op.Filter, id)
		}
		tops.Sub(w.bus, w, op.Slot, op.Ctx, filter, so...)
		h.mu.Lock()
		info.subRet = h.stamp()
		rec.ret = info.subRet
		h.mu.Unlock()
	case "unsub":
		rec.call = h.stamp()
		err := tops.Unsub(w.bus, w, op.Slot, op.Ctx)
		rec.ret = h.stamp()
		rec.ok = err == nil
	case "clear":
		rec.call = h.stamp()
		tops.Clear(w.bus)
		rec.ret = h.stamp()
	case "count":
		rec.call = h.stamp()
		rec.count = tops.Count(w.bus)
		rec.ret = h.stamp()
	case "pub":
		p := &pubRec{id: op.ID, t: op.T, filters: map[regKey][]int64{}, handlers: map[regKey][]int64{}}
		h.mu.Lock()
		h.pubs[op.ID] = p
		p.call = h.stamp()
		p.ret = 1 << 60
		h.mu.Unlock()
		rec.call = p.call
		pctx := context.Background()
		var dead context.CancelFunc
		if op.Mid {
			pctx, dead = context.WithCancel(pctx)
			pctx = context.WithValue(pctx, midKey{}, dead)
			p.dead, p.mid = true, true
		} else if op.Dead {
			pctx, dead = context.WithCancel(pctx)
			p.dead = true
		} else if op.Live {
			var cancel context.CancelFunc
			pctx, cancel = context.WithCancel(pctx)
			liveCancels.Store(liveSeq.Add(1), cancel) // kept alive, never called during the case
		}
		if op.Any {
			tops.PubAny(w.bus, pctx, op.ID)
		} else {
			tops.Pub(w.bus, pctx, op.ID)
		}
		if dead != nil {
			dead()
		}
		h.mu.Lock()
		p.ret = h.stamp()
		h.mu.Unlock()
		rec.ret = p.ret
	}
	h.mu.Lock()
	h.ops = append(h.ops, rec)
	h.mu.Unlock()
}

const probeBase = 1000000

// Run executes the case; t is needed for the synctest bubble.
func Run(t *testing.T, c *Case) *vkit.Outcome {
	o, _ := RunB(t, c)
	return o
}

// RunB also returns the branching factor of every scheduling decision taken.
func RunB(t *testing.T, c *Case) (*vkit.Outcome, []int) {
	if c.Free && c.Rounds > 1 {
		var o *vkit.Outcome
		for r := 0; r < c.Rounds; r++ {
			o, _ = runOnce(t, c)
			if len(o.Viol) > 0 {
				return o, nil
			}
		}
		return o, nil
	}
	return runOnce(t, c)
}

func runOnce(t *testing.T, c *Case) (*vkit.Outcome, []int) {
	o := &vkit.Outcome{}
	w := &world{c: c, opts: busmodel.NewOptSource(c.SharedOpts), h: &hist{regs: map[regKey]*regInfo{}, pubs: map[int]*pubRec{}}}
	w.bus = eventbus.New(
		eventbus.WithBeforePublishContext(func(context.Context, reflect.Type, any) { w.yield("before") }),
		eventbus.WithAfterPublishContext(func(context.Context, reflect.Type, any) { w.yield("after") }),
	)
	var sObj *sched.S
	if c.Free {
		if c.Procs > 0 {
			defer runtime.GOMAXPROCS(runtime.GOMAXPROCS(c.Procs))
		}
		var nz atomic.Int32
		w.noise = func() {
			if len(c.Noise) == 0 {
				return
			}
			n := c.Noise[int(nz.Add(1))%len(c.Noise)]
			for i := 0; i < n; i++ {
				runtime.Gosched()
			}
		}
		var start, done sync.WaitGroup
		start.Add(1)
		for ti, ops := range c.Tasks {
			done.Add(1)
			go func(ti int, ops []Op) {
				defer done.Done()
				start.Wait()
				for i, op := range ops {
					w.execOp(ti, i, op)
				}
			}(ti, ops)
		}
		start.Done()
		done.Wait()
	} else {
		var bodies []func(*sched.S)
		for ti, ops := range c.Tasks {
			ti, ops := ti, ops
			bodies = append(bodies, func(s *sched.S) {
				for i, op := range ops {
					w.execOp(ti, i, op)
				}
			})
		}
		var abnormal string
		timedOut, dump := vkit.Watchdog(60*time.Second, func() {
			// the scheduler object must be visible to the tasks before they run
			sObj, abnormal = runScheduled(t, c.Schedule, bodies, w)
		})
		if timedOut {
			if len(dump) > 6000 {
				dump = dump[:6000]
			}
			o.Failf("", "the scheduled program did not finish within 60 s: a task is blocked on a bus lock held by a parked task (bus locks must not be held while user code runs)\n%s", dump)
			return o, nil
		}
		if abnormal != "" {
			o.Failf("", "the bubble ended abnormally: %s", abnormal)
			return o, nil
		}
	}
	w.s = nil
	w.noise = nil
	if timedOut, dump := vkit.Watchdog(30*time.Second, w.bus.Wait); timedOut {
		if len(dump) > 6000 {
			dump = dump[:6000]
		}
		h := w.h
		h.mu.Lock()
		hs := fmtHist(h)
		h.mu.Unlock()
		o.Failf("", "every task of the program has returned, yet bus.Wait() did not return within 30 s: an asynchronous delivery never finishes (an event owed to an asynchronous handler is stuck)\n  history: %s\n%s", hs, dump)
		return o, nil
	}
	check(c, w, o)
	if sObj != nil {
		o.Class("scheduled")
		return o, sObj.Branching
	}
	o.Class("free_running")
	return o, nil
}

func runScheduled(t *testing.T, schedule []int, bodies []func(*sched.S), w *world) (*sched.S, string) {
	// sched.Run creates S; tasks read w.s through the closure below
	wrapped := make([]func(*sched.S), len(bodies))
	for i, b := range bodies {
		b := b
		wrapped[i] = func(s *sched.S) { b(s) }
	}
	// S must be known before any task yields: tasks start parked at "start"
	// inside sched.Run using the S they are given, and w.yield uses w.s, which
	// the first resumed task sets.
	for i := range wrapped {
		inner := wrapped[i]
		wrapped[i] = func(s *sched.S) { w.s = s; inner(s) }
	}
	return sched.Run(t, schedule, wrapped)
}

// ---------------------------------------------------------------------------
// oracle

type removal struct {
	call, ret int64
	what      string
}

func check(c *Case, w *world, o *vkit.Outcome) {
	h := w.h
	h.mu.Lock()
	defer h.mu.Unlock()
	fail := func(format string, args ...any) {
		if len(o.Viol) < 3 {
			o.Failf("", format+"\n  history: %s", append(args, fmtHist(h))...)
		}
	}
	var unsubs, clears, counts []*opRec
	for _, r := range h.ops {
		switch r.op.K {
		case "unsub":
			unsubs = append(unsubs, r)
		case "clear":
			clears = append(clears, r)
		case "count":
			counts = append(counts, r)
		}
	}
	// once firing: reg -> (publish, handler stamp)
	type firing struct {
		pub   *pubRec
		stamp int64
	}
	fired := map[regKey][]firing{}
	for _, p := range h.pubs {
		for k, st := range p.handlers {
			for _, s := range st {
				fired[k] = append(fired[k], firing{p, s})
			}
		}
	}
	// removals of a registration, optionally ignoring one op / one publish
	removalsOf := func(r *regInfo, skipOp *opRec, skipPub *pubRec) []removal {
		var out []removal
		for _, u := range unsubs {
			if u == skipOp || !u.ok {
				continue
			}
			if (regKey{u.op.T, u.op.Slot, u.op.Ctx}) == r.key {
				out = append(out, removal{u.call, u.ret, "unsubscribe"})
			}
		}
		for _, cl := range clears {
			if cl.op.T == r.key.t && cl.ret > r.subCall {
				// a clear that started after the subscribe returned certainly removes it;
				// one overlapping the subscribe may or may not
				certain := cl.call > r.subRet
				rm := removal{cl.call, cl.ret, "clear"}
				if !certain {
					rm.ret = 1 << 61 // never "returned" as a certain removal
				}
				out = append(out, rm)
			}
		}
		if r.once {
			for _, f := range fired[r.key] {
				if f.pub == skipPub {
					continue
				}
				// the claim happens right after the filter accepted (for an
				// asynchronous handler long before its body runs) and the
				// registration leaves the registry before that publish returns
				call := f.stamp
				if fs := f.pub.filters[r.key]; len(fs) > 0 && fs[0] < call {
					call = fs[0]
				}
				out = append(out, removal{call, f.pub.ret, "once-retirement"})
			}
			if r.async && len(fired[r.key]) == 0 {
				// never ran: claimed by a publish whose context was cancelled
				// before the handler's goroutine looked at it, and retired
				// without having run.  Which of the cancelled publishes whose
				// filter accepted was the one is not observable: the removal
				// starts with the first of them and is certain once the last
				// of them has returned
				var lo, hi int64 = 1 << 62, -1
				for _, dp := range h.pubs {
					if dp == skipPub || !dp.claimable(r.key) || !accepts(r.filter, dp.id) {
						continue
					}
					lo, hi = min(lo, dp.filters[r.key][0]), max(hi, dp.ret)
				}
				if hi >= 0 {
					out = append(out, removal{lo, hi, "once-claim-by-a-cancelled-publish"})
				}
			}
		}
		return out
	}
	calledBefore := func(rs []removal, t int64) bool {
		for _, r := range rs {
			if r.call < t {
				return true
			}
		}
		return false
	}
	returnedBefore := func(rs []removal, t int64) bool {
		for _, r := range rs {
			if r.ret < t {
				return true
			}
		}
		return false
	}
	interleaved := false
	for _, p := range h.pubs {
		if p.id >= probeBase {
			continue
		}
		for _, r := range h.regs {
			if r.key.t != p.t {
				continue
			}
			nf, nh := len(p.filters[r.key]), len(p.handlers[r.key])
			desc := fmt.Sprintf("publish %d (type T%d) x registration %s", p.id, p.t, r.key)
			if nf > 1 || nh > 1 {
				fail("%s: filter called %d times, handler %d times (at most once each)", desc, nf, nh)
				continue
			}
			acc := accepts(r.filter, p.id)
			if nh == 1 && (nf != 1 || !acc) {
				fail("%s: the handler ran although its filter was not called or rejects the event (filter calls %d, accepts=%v)", desc, nf, acc)
			}
			mayDrop := (p.dead && r.async) || p.mid
			if mayDrop && nf == 1 && acc && nh != 1 {
				o.Class("asynchronous_delivery_of_a_cancelled_publish_dropped")
			}
			if nf == 1 && acc && !r.once && nh != 1 && !mayDrop {
				fail("%s: the filter accepted the event but the handler did not run", desc)
			}
			if nf == 1 && acc && r.once && nh != 1 && len(fired[r.key]) == 0 && !mayDrop && !claimedByDead(h, r) {
				fail("%s: the filter of a Once registration accepted the event, the handler did not run for it, and it ran for no other publish of the case either: only a Once registration that has already fired may skip an accepted event", desc)
			}
			rm := removalsOf(r, nil, p)
			in := r.subRet < p.call && !calledBefore(rm, p.ret)
			out := r.subCall > p.ret || returnedBefore(rm, p.call)
			if in && nf != 1 && !p.mid {
				fail("%s: the subscription returned before the publish was called and no removal had started when the publish returned, yet the registration was not part of the delivery (filter calls %d)", desc, nf)
			}
			if out && (nf != 0 || nh != 0) {
				fail("%s: the registration was removed before the publish was called (or subscribed after it returned) but took part in the delivery (filter calls %d, handler calls %d)", desc, nf, nh)
			}
			if !in && !out {
				interleaved = true
			}
		}
		// subscription order within one publish
		var ks []regKey
		for k := range p.filters {
			ks = append(ks, k)
		}
		for _, a := range ks {
			for _, b := range ks {
				ra, rb := h.regs[a], h.regs[b]
				if ra != nil && rb != nil && ra.subRet < rb.subCall && len(p.filters[a]) == 1 && len(p.filters[b]) == 1 && p.filters[a][0] > p.filters[b][0] {
					fail("publish %d: registration %s was subscribed before %s but evaluated after it", p.id, a, b)
				}
			}
		}
	}
	// once: a registration fires for the first publish it is owed: not for a
	// publish that was called after an earlier eligible one had returned
	for k, fs := range fired {
		r := h.regs[k]
		if r == nil || !r.once || len(fs) != 1 {
			continue
		}
		q := fs[0].pub
		for _, p := range h.pubs {
			if p == q || p.mid || p.id >= probeBase || p.t != r.key.t || !(p.ret < q.call) || !accepts(r.filter, p.id) {
				continue
			}
			if r.subRet < p.call && !calledBefore(removalsOf(r, nil, p), p.ret) {
				fail("Once registration %s ran for publish %d, which was called after publish %d had returned; it was subscribed before publish %d was called, nothing had removed it and its filter accepts that event: the earlier publish is the one it was owed", k, q.id, p.id, p.id)
			}
		}
	}
	// once: at most one handler call over the whole case
	for k, fs := range fired {
		if r := h.regs[k]; r != nil && r.once && len(fs) > 1 {
			fail("Once registration %s ran %d times", k, len(fs))
		}
	}
	// unsubscribe results
	succ := map[regKey]int{}
	for _, u := range unsubs {
		k := regKey{u.op.T, u.op.Slot, u.op.Ctx}
		if u.ok {
			succ[k]++
		}
		r := h.regs[k]
		if r == nil || r.subCall > u.ret {
			if u.ok {
				fail("Unsubscribe of %s by task %d succeeded although it was never subscribed before", k, u.task)
			}
			continue
		}
		rm := removalsOf(r, u, nil)
		if r.subRet < u.call && !calledBefore(rm, u.ret) && !u.ok {
			fail("Unsubscribe of %s by task %d failed although the registration was certainly present (subscribed [%d,%d], unsubscribe [%d,%d])", k, u.task, r.subCall, r.subRet, u.call, u.ret)
		}
		if returnedBefore(rm, u.call) && u.ok {
			fail("Unsubscribe of %s by task %d succeeded although the registration had certainly been removed before", k, u.task)
		}
	}
	for k, n := range succ {
		if n > 1 {
			fail("registration %s was unsubscribed successfully %d times (subscribed once)", k, n)
		}
	}
	// HandlerCount observations
	for _, cn := range counts {
		lo, hi := 0, 0
		for _, r := range h.regs {
			if r.key.t != cn.op.T {
				continue
			}
			rm := removalsOf(r, nil, nil)
			if r.subRet < cn.call && !calledBefore(rm, cn.ret) {
				lo++
			}
			if r.subCall < cn.ret && !returnedBefore(rm, cn.call) {
				hi++
			}
		}
		if cn.count < lo || cn.count > hi {
			fail("HandlerCount(T%d) by task %d = %d, but between %d and %d registrations were present during the call", cn.op.T, cn.task, cn.count, lo, hi)
		}
	}
	// quiescence: probe publishes
	for t := range c.Types {
		tops := busmodel.Types[c.Types[t]]
		id := probeBase + t
		p := &pubRec{id: id, t: t, filters: map[regKey][]int64{}, handlers: map[regKey][]int64{}, call: h.stamp()}
		h.pubs[id] = p
		h.mu.Unlock()
		cnt := tops.Count(w.bus)
		tops.Pub(w.bus, context.Background(), id)
		if timedOut, dump := vkit.Watchdog(30*time.Second, w.bus.Wait); timedOut {
			if len(dump) > 6000 {
				dump = dump[:6000]
			}
			h.mu.Lock()
			fail("after quiescence one more event of type T%d was published; bus.Wait() did not return within 30 s: its delivery to an asynchronous handler never finishes\n%s", t, dump)
			return
		}
		h.mu.Lock()
		total := 0
		var live []string
		for k, st := range p.filters {
			total += len(st)
			live = append(live, k.String())
			if len(st) > 1 {
				fail("after quiescence registration %s is present %d times (a subscription was duplicated)", k, len(st))
			}
		}
		sort.Strings(live)
		if total != cnt {
			fail("after quiescence HandlerCount(T%d) = %d but %d registrations take part in a publish (%v)", t, cnt, total, live)
		}
		for _, r := range h.regs {
			if r.key.t != t {
				continue
			}
			rm := removalsOf(r, nil, p)
			n := len(p.filters[r.key])
			if len(rm) == 0 && n != 1 {
				fail("after quiescence registration %s, which was never removed, is not registered (a successful subscription was lost); HandlerCount = %d, live %v", r.key, cnt, live)
			}
			certainlyRemoved := false
			for _, x := range rm {
				if x.ret < 1<<60 {
					certainlyRemoved = true
				}
			}
			if certainlyRemoved && n != 0 {
				fail("after quiescence registration %s is still registered although it was removed (%v)", r.key, rm)
			}
		}
	}
	if interleaved {
		o.Nontrivial = true
		o.Class("registry_mutation_inside_a_publish_of_the_same_type")
	}
}

// claimedByDead: some cancelled publish's filter accepted for the (async,
// Once) registration and its handler did not run.
func claimedByDead(h *hist, r *regInfo) bool {
	if !r.once || !r.async {
		return false
	}
	for _, dp := range h.pubs {
		if dp.claimable(r.key) && accepts(r.filter, dp.id) {
			return true
		}
	}
	return false
}

func fmtHist(h *hist) string {
	type line struct {
		at int64
		s  string
	}
	var ls []line
	for _, r := range h.ops {
		extra := ""
		if r.op.K == "unsub" {
			extra = fmt.Sprintf(" ok=%v", r.ok)
		}
		if r.op.K == "count" {
			extra = fmt.Sprintf(" =%d", r.count)
		}
		name := fmt.Sprintf("T%d", r.op.T)
		if r.op.K == "sub" || r.op.K == "unsub" {
			name = regKey{r.op.T, r.op.Slot, r.op.Ctx}.String()
		}
		if r.op.K == "pub" {
			name += fmt.Sprintf("#%d", r.op.ID)
		}
		ls = append(ls, line{r.call, fmt.Sprintf("[%d t%d %s %s call]", r.call, r.task, r.op.K, name)})
		ls = append(ls, line{r.ret, fmt.Sprintf("[%d t%d %s %s ret%s]", r.ret, r.task, r.op.K, name, extra)})
	}
	for _, p := range h.pubs {
		for k, st := range p.filters {
			for _, s := range st {
				ls = append(ls, line{s, fmt.Sprintf("[%d filter %s #%d]", s, k, p.id)})
			}
		}
		for k, st := range p.handlers {
			for _, s := range st {
				ls = append(ls, line{s, fmt.Sprintf("[%d handler %s #%d]", s, k, p.id)})
			}
		}
	}
	sort.Slice(ls, func(i, j int) bool { return ls[i].at < ls[j].at })
	out := ""
	for _, l := range ls {
		out += l.s + " "
	}
	return out
}
