//go:build verif

package c02

import (
	"testing"

	"pgregory.net/rapid"
	"verif/sched"
	"verif/vkit"
)

const rule = "programs of 2-4 tasks x 1-4 operations from {Subscribe, Unsubscribe, Clear, Publish, HandlerCount} on 1-2 event types (same routing shard or not), every slot subscribed at most once, every handler with a recording filter (so the publish snapshot itself is observable), before/after context hooks, Once and Async options. Scheduled mode: the tasks run under a harness-owned cooperative scheduler inside a synctest bubble; a context switch can happen at every point where user code runs (operation start, before hook, each filter, each synchronous handler, after hook) and the schedule is a list of drawn integers that shrinks and replays. Free mode: the same programs on real goroutines, 40 executions each on fresh buses (barrier, race detector, drawn GOMAXPROCS, Gosched noise) with call/return stamps from an atomic counter. Oracle = real-time-order invariants: per publish and registration at most one filter and one handler call, handler => accepted, accepted and not Once => handler ran; definitely-in (subscribed before the call, no removal started before the return) => took part exactly once; definitely-out => not at all; Once at most once overall; Unsubscribe succeeds/fails when the registration is certainly present/absent and at most once; subscription order within a publish; HandlerCount within the bounds of the interval; after quiescence HandlerCount equals the registrations taking part in a probe publish, none lost, none duplicated, none resurrected. Non-trivial = a registry mutation of type T overlapped a publish of T (neither definitely-in nor definitely-out)."

var collSched = vkit.NewCollector("C02", "TestScheduled", rule)
var collFree = vkit.NewCollector("C02", "TestFreeRunning", rule)
var collExh = vkit.NewCollector("C02", "TestExhaustiveSmall", "generated programs of 2 tasks x <=2 operations on one type, each run under EVERY schedule of the cooperative scheduler (depth-first enumeration of all scheduling decisions, capped at 3000 schedules per program; the cap is reported). Same oracle. An evaluation is one (program, schedule) execution.")

func TestMain(m *testing.M) { vkit.Main(m) }

func TestScheduled(t *testing.T) {
	rapid.Check(t, func(rt *rapid.T) {
		c := GenScheduled(rt)
		if v := collSched.Account(c, Run(t, c)); v != nil {
			vkit.SaveFail("C02", "TestScheduled", c, v)
			rt.Fatalf("%s", v.Error())
		}
	})
}

func TestFreeRunning(t *testing.T) {
	rapid.Check(t, func(rt *rapid.T) {
		c := GenFree(rt)
		vkit.SaveCurrent("C02", "TestFreeRunning", c)
		if v := collFree.Account(c, Run(t, c)); v != nil {
			vkit.SaveFail("C02", "TestFreeRunning", c, v)
			rt.Fatalf("%s", v.Error())
		}
	})
}

func TestExhaustiveSmall(t *testing.T) {
	capped := 0
	rapid.Check(t, func(rt *rapid.T) {
		base := GenSmall(rt)
		var failed *vkit.Violation
		var failing *Case
		var lastBranching []int
		_, exhausted := sched.Enumerate(3000, func(schedule []int) []int {
			c := *base
			c.Schedule = append([]int{}, schedule...)
			o, br := RunB(t, &c)
			lastBranching = br
			if v := collExh.Account(&c, o); v != nil && failed == nil {
				failed, failing = v, &c
			}
			return lastBranching
		}, func([]int) bool { return failed == nil })
		if !exhausted && failed == nil {
			capped++
		}
		if failed != nil {
			vkit.SaveFail("C02", "TestExhaustiveSmall", failing, failed)
			rt.Fatalf("%s", failed.Error())
		}
	})
	collExh.Class("programs_capped_at_3000_schedules", capped)
	collExh.SetExhaustive(capped == 0)
}

func TestReplay(t *testing.T) {
	r := vkit.NeedReplay(t)
	run := func(c *Case) *vkit.Outcome {
		if !c.Free {
			return Run(t, c)
		}
		var o *vkit.Outcome
		for i := 0; i < 200; i++ {
			o = Run(t, c)
			if len(o.Viol) > 0 {
				return o
			}
		}
		return o
	}
	_ = vkit.ReplayCase(t, r, collSched, run) || vkit.ReplayCase(t, r, collFree, run) || vkit.ReplayCase(t, r, collExh, run)
}
