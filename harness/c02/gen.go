//go:build verif

package c02

import (
	"pgregory.net/rapid"
	"verif/busmodel"
)

func genProgram(t *rapid.T, maxTasks, maxOps int, oneType, noAsync bool) *Case {
	c := &Case{SharedOpts: rapid.IntRange(0, 3).Draw(t, "sharedOpts") == 0}
	groups := busmodel.ShardGroups()
	g := groups[rapid.IntRange(0, len(groups)-1).Draw(t, "group")]
	if rapid.Bool().Draw(t, "sameShard") {
		c.Types = []int{g[0], g[1]}
	} else {
		c.Types = []int{g[0], busmodel.ByName("E00")}
	}
	if oneType || rapid.Bool().Draw(t, "oneType") {
		c.Types = c.Types[:1]
	}
	nt := rapid.IntRange(2, maxTasks).Draw(t, "ntasks")
	used := map[regKey]bool{}
	subscribed := []regKey{}
	id := 0
	for ti := 0; ti < nt; ti++ {
		n := rapid.IntRange(1, maxOps).Draw(t, "nops")
		var ops []Op
		for i := 0; i < n; i++ {
			k := rapid.SampledFrom([]string{"sub", "sub", "unsub", "unsub", "clear", "pub", "pub", "pub", "count"}).Draw(t, "k")
			op := Op{K: k, T: rapid.IntRange(0, len(c.Types)-1).Draw(t, "t")}
			switch k {
			case "sub":
				key := regKey{op.T, rapid.IntRange(0, busmodel.K-1).Draw(t, "slot"), rapid.Bool().Draw(t, "ctx")}
				if used[key] {
					op.K = "pub"
				} else {
					used[key] = true
					subscribed = append(subscribed, key)
					op.Slot, op.Ctx = key.slot, key.ctx
					op.Once = rapid.IntRange(0, 3).Draw(t, "once") == 0
					op.Async = !noAsync && rapid.IntRange(0, 4).Draw(t, "async") == 0
					if op.Async && !op.Once {
						op.Seq = rapid.Bool().Draw(t, "seq")
					}
					op.Filter = rapid.SampledFrom([]string{"all", "all", "even", "odd"}).Draw(t, "filter")
				}
			case "unsub":
				if len(subscribed) > 0 && rapid.IntRange(0, 5).Draw(t, "known") != 0 {
					key := subscribed[rapid.IntRange(0, len(subscribed)-1).Draw(t, "which")]
					op.T, op.Slot, op.Ctx = key.t, key.slot, key.ctx
				} else {
					op.Slot = rapid.IntRange(0, busmodel.K-1).Draw(t, "slot")
					op.Ctx = rapid.Bool().Draw(t, "ctx")
				}
			}
			if op.K == "pub" {
				id++
				op.ID = id
				op.Any = rapid.IntRange(0, 3).Draw(t, "viaAny") == 0
				op.Live = rapid.IntRange(0, 2).Draw(t, "liveCtx") == 0
				if !noAsync && rapid.IntRange(0, 4).Draw(t, "deadCtx") == 0 {
					op.Dead, op.Live = true, false
				}
				if !noAsync && !op.Dead && rapid.IntRange(0, 5).Draw(t, "midCtx") == 0 {
					op.Mid, op.Live = true, false
				}
			}
			ops = append(ops, op)
		}
		c.Tasks = append(c.Tasks, ops)
	}
	return c
}

func GenScheduled(t *rapid.T) *Case {
	c := genProgram(t, 4, 4, false, false)
	c.Schedule = rapid.SliceOfN(rapid.IntRange(0, 3), 0, 60).Draw(t, "schedule")
	return c
}

func GenFree(t *rapid.T) *Case {
	c := genProgram(t, 4, 4, false, false)
	c.Free = true
	c.Rounds = 40
	c.Procs = rapid.SampledFrom([]int{1, 2, 4, 16}).Draw(t, "procs")
	c.Noise = rapid.SliceOfN(rapid.IntRange(0, 3), 0, 6).Draw(t, "noise")
	return c
}

// GenSmall draws a program of the exhaustively scheduled sub-space: two
// tasks with at most two operations each on one type.
func GenSmall(t *rapid.T) *Case {
	return genProgram(t, 2, 2, true, true)
}
