//go:build verif

package storekit

import (
	"context"
	"database/sql"
	"database/sql/driver"
	"errors"
	"io"
	"sync"
	"sync/atomic"

	ebusqlite "github.com/jilio/ebu/stores/sqlite"
	msqlite "modernc.org/sqlite"
)

// FaultPlan describes when the fault driver fails.  Counters are per plan and
// count only calls made while the plan is armed.
type FaultPlan struct {
	mu        sync.Mutex
	armed     bool
	NextFail  int // fail the n-th Rows.Next call (1-based) with ErrInjected; 0 = never
	CloseFail int // fail the n-th Rows.Close call
	ExecFail  int // fail the n-th statement Exec
	QueryFail int // fail the n-th Query
	// CallNext, if > 0, makes the n-th Rows.Next call invoke OnNext (outside
	// the plan's lock) before proceeding normally: a side effect such as a
	// context cancellation placed in the middle of a row iteration.
	CallNext int
	OnNext   func()
	// CallExec, if > 0, makes the n-th statement Exec invoke OnExec after it
	// has completed on the real driver and before its result is returned.
	CallExec int
	OnExec   func()
	// ExecFailAfter lets the n-th Exec complete on the real driver and then
	// reports ErrInjected for it (a lost reply).
	ExecFailAfter int
	// CommitFail rolls the n-th transaction commit back and reports ErrInjected.
	CommitFail int
	commits    int
	nexts      int
	closes     int
	execs      int
	queries    int
}

func (p *FaultPlan) Arm(on bool) {
	p.mu.Lock()
	p.armed = on
	p.mu.Unlock()
}

func (p *FaultPlan) hit(counter *int, target int) bool {
	p.mu.Lock()
	defer p.mu.Unlock()
	if !p.armed {
		return false
	}
	*counter++
	return target > 0 && *counter == target
}

// Reset disarms the plan and clears targets and counters.
func (p *FaultPlan) Reset() {
	p.mu.Lock()
	defer p.mu.Unlock()
	p.armed = false
	p.NextFail, p.CloseFail, p.ExecFail, p.QueryFail, p.CallNext, p.CallExec, p.ExecFailAfter, p.CommitFail = 0, 0, 0, 0, 0, 0, 0, 0
	p.OnNext, p.OnExec = nil, nil
	p.nexts, p.closes, p.execs, p.queries, p.commits = 0, 0, 0, 0, 0
}

// afterExec runs the post-completion actions of the exec just counted.
func (p *FaultPlan) afterExec() error {
	p.mu.Lock()
	armed, n := p.armed, p.execs
	call := armed && p.CallExec > 0 && n == p.CallExec && p.OnExec != nil
	fn := p.OnExec
	fail := armed && p.ExecFailAfter > 0 && n == p.ExecFailAfter
	p.mu.Unlock()
	if call {
		fn()
	}
	if fail {
		return ErrInjected
	}
	return nil
}

type ftx struct {
	driver.Tx
	plan *FaultPlan
}

func (t ftx) Commit() error {
	if t.plan.hit(&t.plan.commits, t.plan.CommitFail) {
		t.Tx.Rollback()
		return ErrInjected
	}
	return t.Tx.Commit()
}

// Counts returns the calls seen while armed.
func (p *FaultPlan) Counts() (nexts, closes, execs, queries int) {
	p.mu.Lock()
	defer p.mu.Unlock()
	return p.nexts, p.closes, p.execs, p.queries
}

var (
	faultPlans sync.Map // dsn tag -> *FaultPlan
	regOnce    sync.Once
	planSeq    atomic.Int64
	openMu     sync.Mutex
)

type faultDriver struct{ inner driver.Driver }

type planKey struct{}

func (d faultDriver) Open(name string) (driver.Conn, error) {
	// name = "<planid>|<real dsn>"
	var id, dsn string
	for i := 0; i < len(name); i++ {
		if name[i] == '|' {
			id, dsn = name[:i], name[i+1:]
			break
		}
	}
	c, err := d.inner.Open(dsn)
	if err != nil {
		return nil, err
	}
	pv, _ := faultPlans.Load(id)
	plan, _ := pv.(*FaultPlan)
	if plan == nil {
		plan = &FaultPlan{}
	}
	return &fconn{Conn: c, plan: plan}, nil
}

type fconn struct {
	driver.Conn
	plan *FaultPlan
}

func (c *fconn) PrepareContext(ctx context.Context, q string) (driver.Stmt, error) {
	var st driver.Stmt
	var err error
	if pc, ok := c.Conn.(driver.ConnPrepareContext); ok {
		st, err = pc.PrepareContext(ctx, q)
	} else {
		st, err = c.Conn.Prepare(q)
	}
	if err != nil {
		return nil, err
	}
	return &fstmt{Stmt: st, plan: c.plan}, nil
}

func (c *fconn) Prepare(q string) (driver.Stmt, error) {
	return c.PrepareContext(context.Background(), q)
}

func (c *fconn) BeginTx(ctx context.Context, opts driver.TxOptions) (driver.Tx, error) {
	var tx driver.Tx
	var err error
	if b, ok := c.Conn.(driver.ConnBeginTx); ok {
		tx, err = b.BeginTx(ctx, opts)
	} else {
		tx, err = c.Conn.Begin()
	}
	if err != nil {
		return nil, err
	}
	return ftx{Tx: tx, plan: c.plan}, nil
}

func (c *fconn) ExecContext(ctx context.Context, q string, args []driver.NamedValue) (driver.Result, error) {
	if c.plan.hit(&c.plan.execs, c.plan.ExecFail) {
		return nil, ErrInjected
	}
	if e, ok := c.Conn.(driver.ExecerContext); ok {
		res, err := e.ExecContext(ctx, q, args)
		if err == nil {
			if aerr := c.plan.afterExec(); aerr != nil {
				return nil, aerr
			}
		}
		return res, err
	}
	return nil, driver.ErrSkip
}

func (c *fconn) QueryContext(ctx context.Context, q string, args []driver.NamedValue) (driver.Rows, error) {
	if c.plan.hit(&c.plan.queries, c.plan.QueryFail) {
		return nil, ErrInjected
	}
	if e, ok := c.Conn.(driver.QueryerContext); ok {
		r, err := e.QueryContext(ctx, q, args)
		if err != nil {
			return nil, err
		}
		return wrapRows(r, c.plan), nil
	}
	return nil, driver.ErrSkip
}

func (c *fconn) Ping(ctx context.Context) error {
	if p, ok := c.Conn.(driver.Pinger); ok {
		return p.Ping(ctx)
	}
	return nil
}

func (c *fconn) ResetSession(ctx context.Context) error {
	if p, ok := c.Conn.(driver.SessionResetter); ok {
		return p.ResetSession(ctx)
	}
	return nil
}

func (c *fconn) IsValid() bool {
	if p, ok := c.Conn.(driver.Validator); ok {
		return p.IsValid()
	}
	return true
}

type fstmt struct {
	driver.Stmt
	plan *FaultPlan
}

func (s *fstmt) ExecContext(ctx context.Context, args []driver.NamedValue) (driver.Result, error) {
	if s.plan.hit(&s.plan.execs, s.plan.ExecFail) {
		return nil, ErrInjected
	}
	if e, ok := s.Stmt.(driver.StmtExecContext); ok {
		res, err := e.ExecContext(ctx, args)
		if err == nil {
			if aerr := s.plan.afterExec(); aerr != nil {
				return nil, aerr
			}
		}
		return res, err
	}
	return nil, errors.New("faultdriver: inner statement lacks ExecContext")
}

func (s *fstmt) QueryContext(ctx context.Context, args []driver.NamedValue) (driver.Rows, error) {
	if s.plan.hit(&s.plan.queries, s.plan.QueryFail) {
		return nil, ErrInjected
	}
	if e, ok := s.Stmt.(driver.StmtQueryContext); ok {
		r, err := e.QueryContext(ctx, args)
		if err != nil {
			return nil, err
		}
		return wrapRows(r, s.plan), nil
	}
	return nil, errors.New("faultdriver: inner statement lacks QueryContext")
}

type frows struct {
	driver.Rows
	plan *FaultPlan
}

// frowsT additionally forwards the column type name, which the sqlite driver
// needs to be asked for so that DATETIME columns scan into time.Time.
type frowsT struct{ frows }

func (r frowsT) ColumnTypeDatabaseTypeName(i int) string {
	return r.Rows.(driver.RowsColumnTypeDatabaseTypeName).ColumnTypeDatabaseTypeName(i)
}

func wrapRows(r driver.Rows, p *FaultPlan) driver.Rows {
	fr := frows{Rows: r, plan: p}
	if _, ok := r.(driver.RowsColumnTypeDatabaseTypeName); ok {
		return frowsT{fr}
	}
	return fr
}

func (r frows) Next(dest []driver.Value) error {
	if r.plan.hit(&r.plan.nexts, r.plan.NextFail) {
		return ErrInjected
	}
	r.plan.mu.Lock()
	call := r.plan.armed && r.plan.CallNext > 0 && r.plan.nexts == r.plan.CallNext && r.plan.OnNext != nil
	fn := r.plan.OnNext
	r.plan.mu.Unlock()
	if call {
		fn()
	}
	return r.Rows.Next(dest)
}

func (r frows) Close() error {
	fail := r.plan.hit(&r.plan.closes, r.plan.CloseFail)
	err := r.Rows.Close()
	if fail {
		return ErrInjected
	}
	return err
}

var _ = io.EOF

// OpenSQLiteFaulty opens a SQLite store whose database connection goes
// through the fault driver controlled by the returned plan (disarmed).
func OpenSQLiteFaulty(path string, opts ...ebusqlite.Option) (*ebusqlite.SQLiteStore, *FaultPlan, error) {
	regOnce.Do(func() { sql.Register("sqlite-fault", faultDriver{inner: &msqlite.Driver{}}) })
	plan := &FaultPlan{}
	id := "p" + itoa(planSeq.Add(1))
	faultPlans.Store(id, plan)
	openMu.Lock()
	restore := ebusqlite.SetDBOpenerForVerification(func(_ string, dsn string) (*sql.DB, error) {
		return sql.Open("sqlite-fault", id+"|"+dsn)
	})
	st, err := ebusqlite.New(path, append(VariantOptions(), opts...)...)
	restore()
	openMu.Unlock()
	return st, plan, err
}

// OpenSQLiteFaultyArmed is OpenSQLiteFaulty with the plan configured by setup
// and armed before the store is opened, so that the faults land in New itself
// (pragmas, schema migration, statement preparation).
func OpenSQLiteFaultyArmed(path string, setup func(*FaultPlan), opts ...ebusqlite.Option) (*ebusqlite.SQLiteStore, *FaultPlan, error) {
	regOnce.Do(func() { sql.Register("sqlite-fault", faultDriver{inner: &msqlite.Driver{}}) })
	plan := &FaultPlan{}
	setup(plan)
	plan.Arm(true)
	id := "p" + itoa(planSeq.Add(1))
	faultPlans.Store(id, plan)
	openMu.Lock()
	restore := ebusqlite.SetDBOpenerForVerification(func(_ string, dsn string) (*sql.DB, error) {
		return sql.Open("sqlite-fault", id+"|"+dsn)
	})
	st, err := ebusqlite.New(path, append(VariantOptions(), opts...)...)
	restore()
	openMu.Unlock()
	plan.Arm(false)
	return st, plan, err
}

func itoa(n int64) string {
	if n == 0 {
		return "0"
	}
	var b [20]byte
	i := len(b)
	for n > 0 {
		i--
		b[i] = byte('0' + n%10)
		n /= 10
	}
	return string(b[i:])
}
