package storekit

import (
	"os"
	"path/filepath"

	"github.com/jilio/ebu/stores/sqlite"
)

// TempDir creates a scratch directory (removed by the returned func).
func TempDir(prefix string) (string, func()) {
	d, err := os.MkdirTemp("", prefix)
	if err != nil {
		panic(err)
	}
	return d, func() { os.RemoveAll(d) }
}

// OpenSQLite opens (or reopens) a SQLite store file inside dir.
func OpenSQLite(dir, name string, opts ...sqlite.Option) (*sqlite.SQLiteStore, error) {
	return sqlite.New(filepath.Join(dir, name), opts...)
}
