package storekit

import (
	"os"
	"path/filepath"
	"sync/atomic"
	"time"

	"github.com/jilio/ebu/stores/sqlite"
)

// TempDir creates a scratch directory (removed by the returned func).
func TempDir(prefix string) (string, func()) {
	d, err := os.MkdirTemp("", prefix)
	if err != nil {
		panic(err)
	}
	return d, func() { os.RemoveAll(d) }
}

type nopLogger struct{}

func (nopLogger) Debug(string, ...any) {}
func (nopLogger) Info(string, ...any)  {}
func (nopLogger) Error(string, ...any) {}

type nopMetrics struct{}

func (nopMetrics) OnAppend(time.Duration, error)     {}
func (nopMetrics) OnRead(time.Duration, int, error)  {}
func (nopMetrics) OnSaveOffset(time.Duration, error) {}
func (nopMetrics) OnLoadOffset(time.Duration, error) {}

var variant atomic.Uint32

// SetVariant selects, from a hash of the running case, which optional SQLite
// store features (logger, metrics hook, a busy timeout of its own, explicit
// auto-migration) are switched on for stores opened
// through OpenSQLite: they must not change the store's behaviour.  Being a
// function of the case, a replay opens the same variant.
func SetVariant(caseHash string) {
	var v uint32
	for i := 0; i < len(caseHash); i++ {
		v = v*31 + uint32(caseHash[i])
	}
	variant.Store(v)
}

// VariantOptions returns the options of the current variant.
func VariantOptions() []sqlite.Option {
	v := variant.Load()
	var opts []sqlite.Option
	if v&1 != 0 {
		opts = append(opts, sqlite.WithLogger(nopLogger{}))
	}
	if v&2 != 0 {
		opts = append(opts, sqlite.WithMetricsHook(nopMetrics{}))
	}
	if v&4 != 0 {
		opts = append(opts, sqlite.WithBusyTimeout(250*time.Millisecond))
	}
	if v&8 != 0 {
		opts = append(opts, sqlite.WithAutoMigrate(true))
	}
	return opts
}

// OpenSQLite opens (or reopens) a SQLite store file inside dir.
func OpenSQLite(dir, name string, opts ...sqlite.Option) (*sqlite.SQLiteStore, error) {
	return sqlite.New(filepath.Join(dir, name), append(VariantOptions(), opts...)...)
}
