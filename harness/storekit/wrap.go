package storekit

import (
	"context"
	"errors"
	"iter"
	"sync"
	"time"

	eventbus "github.com/jilio/ebu"
)

// Crash is the sentinel panic value used to kill the "process" (unwind the
// bus) at a store operation.
type Crash struct{ At string }

// ErrInjected is the cause of every injected store failure.
var ErrInjected = errors.New("injected store failure")

// ErrInjectedTemp is an injected failure that calls itself temporary (as
// network errors do); errors.Is(ErrInjectedTemp, ErrInjected) holds.
var ErrInjectedTemp error = tempFailure{}

type tempFailure struct{}

func (tempFailure) Error() string        { return "injected store failure (temporary)" }
func (tempFailure) Temporary() bool      { return true }
func (tempFailure) Timeout() bool        { return false }
func (tempFailure) Is(target error) bool { return target == ErrInjected }

// Action tells the wrapper what to do at one store operation.
type Action struct {
	Err         error // fail the operation with this error (before reaching the inner store)
	ErrAfter    error // perform the operation, then report this error
	Block       bool  // block until the operation's context ends, then return ctx.Err()
	CrashBefore bool  // panic(Crash) before the operation
	CrashAfter  bool  // perform the operation, then panic(Crash)
	// Delay sleeps this long, ignoring the context, before the operation is
	// performed: a slow store that does not watch its context.
	Delay time.Duration
}

// Hook decides the Action for the n-th (1-based) operation of kind op
// ("append","read","stream","row","save","load") and the global sequence
// number seq of store operations.  It may also yield to a scheduler.
type Hook func(op string, n, seq int, ctx context.Context) Action

// Base wraps an EventStore; every call goes through the Hook.
type Base struct {
	Inner eventbus.EventStore
	// SubInner, if set, receives SaveOffset/LoadOffset (a separate
	// subscription store sharing this wrapper's counters and crash state).
	SubInner eventbus.SubscriptionStore
	mu       sync.Mutex
	hook     Hook
	count    map[string]int
	seq      int
	// Log of completed operations (for oracles): op names in order.
	Ops []string
	// Saves records every completed SaveOffset as (id, offset).
	Saves [][2]string
	// Appends counts Append calls that reached the wrapper.
	Appends int
	// AfterOp, if set, is called after every operation that completed on the
	// inner store (before a CrashAfter/ErrAfter action takes effect).
	AfterOp func(op string)
	// EventHook, if set, decides the Action of an Append from the event itself
	// (instead of from its ordinal number): for workloads whose append order
	// is not determined.
	EventHook func(e *eventbus.Event) Action
	// Bypass, if set, lets matching appends go straight to the inner store:
	// no hook, no counters (events the harness itself adds to the traffic).
	Bypass func(e *eventbus.Event) bool
	// OnInnerError, if set, is told about errors returned by the inner store
	// itself (not injected ones).
	OnInnerError func(op string, err error)
	// HonourCtx makes every operation fail with the context's error when it
	// is called with a context that is already done, as a network or SQL
	// store does.
	HonourCtx bool
	// dead is set by a crash: from then on nothing reaches the inner store.
	dead bool
}

// Dead reports whether a crash was injected (the "process" is gone).
func (b *Base) Dead() bool {
	b.mu.Lock()
	defer b.mu.Unlock()
	return b.dead
}

// Revive clears the crash state and the per-run counters (a new run begins).
func (b *Base) Revive() {
	b.mu.Lock()
	b.dead = false
	b.count = map[string]int{}
	b.seq = 0
	b.mu.Unlock()
}

// Kill marks the process dead without panicking (shared between wrappers).
func (b *Base) Kill() {
	b.mu.Lock()
	b.dead = true
	b.mu.Unlock()
}

func (b *Base) SetHook(h Hook) {
	b.mu.Lock()
	b.hook = h
	b.mu.Unlock()
}

func (b *Base) next(op string, ctx context.Context) Action {
	b.mu.Lock()
	if b.dead {
		b.mu.Unlock()
		panic(Crash{At: "dead"})
	}
	if b.count == nil {
		b.count = map[string]int{}
	}
	b.count[op]++
	b.seq++
	n, seq, h := b.count[op], b.seq, b.hook
	b.mu.Unlock()
	if h == nil {
		return Action{}
	}
	return h(op, n, seq, ctx)
}

func (b *Base) done(op string) {
	b.mu.Lock()
	b.Ops = append(b.Ops, op)
	f := b.AfterOp
	b.mu.Unlock()
	if f != nil {
		f(op)
	}
}

func (b *Base) crash(at string) {
	b.mu.Lock()
	b.dead = true
	b.mu.Unlock()
	panic(Crash{At: at})
}

// Seq returns the number of store operations started so far.
func (b *Base) Seq() int {
	b.mu.Lock()
	defer b.mu.Unlock()
	return b.seq
}

func (b *Base) pre(a Action, op string, ctx context.Context) error {
	if a.CrashBefore {
		b.crash("before " + op)
	}
	if a.Delay > 0 {
		time.Sleep(a.Delay)
	}
	if b.HonourCtx && ctx.Err() != nil && a.Err == nil {
		return ctx.Err()
	}
	if a.Block {
		if ctx.Done() == nil {
			// nothing would ever end this wait: fail instead of hanging
			return ErrInjected
		}
		<-ctx.Done()
		return ctx.Err()
	}
	return a.Err
}

func (b *Base) post(a Action, op string) error {
	if a.CrashAfter {
		b.crash("after " + op)
	}
	return a.ErrAfter
}

func (b *Base) Append(ctx context.Context, e *eventbus.Event) (eventbus.Offset, error) {
	if b.Bypass != nil && b.Bypass(e) {
		off, err := b.Inner.Append(ctx, e)
		if err != nil && b.OnInnerError != nil {
			b.OnInnerError("append-bypass", err)
		}
		return off, err
	}
	b.mu.Lock()
	b.Appends++
	b.mu.Unlock()
	a := b.next("append", ctx)
	if b.EventHook != nil {
		a = b.EventHook(e)
	}
	if err := b.pre(a, "append", ctx); err != nil {
		return "", err
	}
	off, err := b.Inner.Append(ctx, e)
	if err != nil && b.OnInnerError != nil {
		b.OnInnerError("append", err)
	}
	if err == nil {
		b.done("append")
		if perr := b.post(a, "append"); perr != nil {
			return "", perr
		}
	}
	return off, err
}

func (b *Base) Read(ctx context.Context, from eventbus.Offset, limit int) ([]*eventbus.StoredEvent, eventbus.Offset, error) {
	a := b.next("read", ctx)
	if err := b.pre(a, "read", ctx); err != nil {
		return nil, from, err
	}
	evs, next, err := b.Inner.Read(ctx, from, limit)
	if err == nil {
		b.done("read")
		if perr := b.post(a, "read"); perr != nil {
			return nil, from, perr
		}
	}
	return evs, next, err
}

func (b *Base) Close() error {
	if c, ok := b.Inner.(interface{ Close() error }); ok {
		return c.Close()
	}
	return nil
}

func (b *Base) readStream(ctx context.Context, from eventbus.Offset) iter.Seq2[*eventbus.StoredEvent, error] {
	return func(yield func(*eventbus.StoredEvent, error) bool) {
		a := b.next("stream", ctx)
		if err := b.pre(a, "stream", ctx); err != nil {
			yield(nil, err)
			return
		}
		inner := b.Inner.(eventbus.EventStoreStreamer)
		for ev, err := range inner.ReadStream(ctx, from) {
			if err != nil {
				yield(nil, err)
				return
			}
			ra := b.next("row", ctx)
			if rerr := b.pre(ra, "row", ctx); rerr != nil {
				yield(nil, rerr)
				return
			}
			if !yield(ev, nil) {
				return
			}
			if ra.CrashAfter {
				b.crash("after row")
			}
		}
		b.done("stream")
	}
}

func (b *Base) subStore() eventbus.SubscriptionStore {
	if b.SubInner != nil {
		return b.SubInner
	}
	return b.Inner.(eventbus.SubscriptionStore)
}

func (b *Base) saveOffset(ctx context.Context, id string, off eventbus.Offset) error {
	a := b.next("save", ctx)
	if err := b.pre(a, "save", ctx); err != nil {
		return err
	}
	err := b.subStore().SaveOffset(ctx, id, off)
	if err == nil {
		b.mu.Lock()
		b.Saves = append(b.Saves, [2]string{id, string(off)})
		b.mu.Unlock()
		b.done("save")
		if perr := b.post(a, "save"); perr != nil {
			return perr
		}
	}
	return err
}

func (b *Base) loadOffset(ctx context.Context, id string) (eventbus.Offset, error) {
	a := b.next("load", ctx)
	if err := b.pre(a, "load", ctx); err != nil {
		return eventbus.OffsetOldest, err
	}
	off, err := b.subStore().LoadOffset(ctx, id)
	if err == nil {
		b.done("load")
		if perr := b.post(a, "load"); perr != nil {
			return eventbus.OffsetOldest, perr
		}
	}
	return off, err
}

// The four shapes a wrapped store can have.

// Paged exposes only Append/Read (Replay uses the paged path).
type Paged struct{ *Base }

// Streaming adds ReadStream.
type Streaming struct{ *Base }

func (s Streaming) ReadStream(ctx context.Context, from eventbus.Offset) iter.Seq2[*eventbus.StoredEvent, error] {
	return s.readStream(ctx, from)
}

// PagedSub is Paged plus SubscriptionStore.
type PagedSub struct{ *Base }

func (s PagedSub) SaveOffset(ctx context.Context, id string, off eventbus.Offset) error {
	return s.saveOffset(ctx, id, off)
}
func (s PagedSub) LoadOffset(ctx context.Context, id string) (eventbus.Offset, error) {
	return s.loadOffset(ctx, id)
}

// StreamingSub is Streaming plus SubscriptionStore.
type StreamingSub struct{ *Base }

func (s StreamingSub) ReadStream(ctx context.Context, from eventbus.Offset) iter.Seq2[*eventbus.StoredEvent, error] {
	return s.readStream(ctx, from)
}
func (s StreamingSub) SaveOffset(ctx context.Context, id string, off eventbus.Offset) error {
	return s.saveOffset(ctx, id, off)
}
func (s StreamingSub) LoadOffset(ctx context.Context, id string) (eventbus.Offset, error) {
	return s.loadOffset(ctx, id)
}

// SubOnly is a SubscriptionStore wrapper for WithSubscriptionStore.
type SubOnly struct{ *Base }

func (s SubOnly) SaveOffset(ctx context.Context, id string, off eventbus.Offset) error {
	return s.saveOffset(ctx, id, off)
}
func (s SubOnly) LoadOffset(ctx context.Context, id string) (eventbus.Offset, error) {
	return s.loadOffset(ctx, id)
}

// Wrap picks the shape: streaming only if asked and supported by inner;
// subscription methods only if asked and supported.
func Wrap(inner eventbus.EventStore, stream, sub bool) (eventbus.EventStore, *Base) {
	b := &Base{Inner: inner}
	_, canStream := inner.(eventbus.EventStoreStreamer)
	_, canSub := inner.(eventbus.SubscriptionStore)
	stream = stream && canStream
	sub = sub && canSub
	switch {
	case stream && sub:
		return StreamingSub{b}, b
	case stream:
		return Streaming{b}, b
	case sub:
		return PagedSub{b}, b
	}
	return Paged{b}, b
}
