// Package storekit provides the stores used by the checks: an in-process
// durable-streams server behind an http.RoundTripper (no sockets), helpers to
// open the bundled stores, and fault/crash-injecting wrapper stores.
package storekit

import (
	"bytes"
	"fmt"
	"io"
	"net/http"
	"net/http/httptest"
	"strconv"
	"strings"
	"sync"
	"sync/atomic"

	"github.com/ahimsalabs/durable-streams-go/durablestream"
	"github.com/ahimsalabs/durable-streams-go/durablestream/memorystorage"
	ds "github.com/jilio/ebu/stores/durablestream"
)

// DSServer is a durable-streams server living in the test process.
type DSServer struct {
	storage *memorystorage.Storage
	handler http.Handler
	// Fault, if set, is consulted for every request; a non-nil error fails
	// the round trip, a non-zero status short-circuits with that status.
	mu    sync.Mutex
	fault func(n int, r *http.Request) (status int, err error)
	// afterFault, if set, is consulted after the request has been served: a
	// non-nil error makes the round trip fail although the server applied
	// the request (the answer is lost on the way back).
	afterFault func(n int, r *http.Request) error
	requests   atomic.Int64
}

// NewDSServer creates a server whose catch-up reads return at most chunkBytes
// bytes per response (0 = library default of 1 MB).
func NewDSServer(chunkBytes int) *DSServer {
	st := memorystorage.New()
	h := durablestream.NewHandler(st, &durablestream.HandlerConfig{ChunkSize: chunkBytes})
	mux := http.NewServeMux()
	mux.Handle("/v1/stream/", http.StripPrefix("/v1/stream/", h))
	return &DSServer{storage: st, handler: mux}
}

const DSBase = "http://ds.invalid/v1/stream"

func (s *DSServer) SetFault(f func(n int, r *http.Request) (int, error)) {
	s.mu.Lock()
	s.fault = f
	s.mu.Unlock()
}

// SetAfterFault installs a fault that loses the answer of a request the
// server has already applied.
func (s *DSServer) SetAfterFault(f func(n int, r *http.Request) error) {
	s.mu.Lock()
	s.afterFault = f
	s.mu.Unlock()
}

func (s *DSServer) Requests() int64 { return s.requests.Load() }

// RoundTrip implements http.RoundTripper by calling the handler directly.
func (s *DSServer) RoundTrip(r *http.Request) (*http.Response, error) {
	n := int(s.requests.Add(1))
	if err := r.Context().Err(); err != nil {
		return nil, err
	}
	s.mu.Lock()
	f := s.fault
	s.mu.Unlock()
	if f != nil {
		status, err := f(n, r)
		if err != nil {
			return nil, err
		}
		if status != 0 {
			return &http.Response{StatusCode: status, Status: strconv.Itoa(status), Body: io.NopCloser(strings.NewReader("injected")), Header: http.Header{}, Request: r, ProtoMajor: 1, ProtoMinor: 1}, nil
		}
	}
	var body []byte
	if r.Body != nil {
		body, _ = io.ReadAll(r.Body)
		r.Body.Close()
	}
	r2 := r.Clone(r.Context())
	r2.Body = io.NopCloser(bytes.NewReader(body))
	r2.RequestURI = r.URL.RequestURI()
	rec := httptest.NewRecorder()
	s.handler.ServeHTTP(rec, r2)
	resp := rec.Result()
	resp.Request = r
	s.mu.Lock()
	af := s.afterFault
	s.mu.Unlock()
	if af != nil {
		if err := af(n, r); err != nil {
			resp.Body.Close()
			return nil, err
		}
	}
	return resp, nil
}

// Client returns an http.Client talking to this server.
func (s *DSServer) Client() *http.Client { return &http.Client{Transport: s} }

// Open creates an ebu durable-streams store on the given stream.
func (s *DSServer) Open(stream string, opts ...ds.Option) (*ds.Store, error) {
	opts = append([]ds.Option{ds.WithHTTPClient(s.Client())}, opts...)
	return ds.New(DSBase, stream, opts...)
}

// PositionOf gives the server-side truth for an offset: the number of
// messages at or before it.  Only the in-memory server's own offsets (decimal
// counters) are understood; ok=false otherwise.
func (s *DSServer) PositionOf(off string) (pos int, ok bool) {
	if off == "" || off == "-1" {
		return 0, true
	}
	if strings.ContainsAny(off, "/ ") {
		return 0, false
	}
	n, err := strconv.Atoi(off)
	if err != nil || n < 0 {
		return 0, false
	}
	return n, true
}

var _ = fmt.Sprint
