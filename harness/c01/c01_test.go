package c01

import (
	"encoding/json"
	"testing"
	"time"

	"pgregory.net/rapid"
	"verif/vkit"
)

const rule = "rapid draws a history of 1-40 (in 1 of 5 cases preceded by a crowd of 9-40 registrations on one type) Subscribe/SubscribeContext/Unsubscribe/Clear/ClearAll/Publish/PublishContext/HasHandlers/HandlerCount calls over 3-6 of 43 event types (biased to types sharing a routing shard, to two types with the same String() and to a type that names itself from its value), in a quarter of the cases with one Once()/Async()/Sequential() option value reused for every subscription, with up to 3 nested scripts run from inside synchronous handlers; oracle = independent registry model in lock-step (sync trace exact, async multiset, Unsubscribe result, counts of all 43 types after every step). Non-trivial = a publish reached >=1 handler AND (two types of one shard were registered at once OR a nested operation ran OR a removal preceded a later publish of that type); distinct = hash of the case JSON."

var coll = vkit.NewCollector("C01", "TestHistory", rule)

func TestMain(m *testing.M) { vkit.Main(m) }

func runCase(c *Case) *vkit.Violation {
	var res Result
	var vs []*vkit.Violation
	// a re-entrant call that deadlocks (e.g. a registry lock held while a handler runs) must not hang the check
	if timedOut, dump := vkit.Watchdog(30*time.Second, func() { res, vs = Run(c) }); timedOut {
		if again, _ := vkit.Watchdog(30*time.Second, func() { res, vs = Run(c) }); again {
			if len(dump) > 5000 {
				dump = dump[:5000]
			}
			return vkit.Violf("", "the history did not finish within 30 s, twice: a call issued from inside a handler deadlocks\n%s", dump)
		}
	}
	v := coll.Judge(vs)
	if v == nil {
		coll.Record(c, res.Nontrivial, res.Classes...)
		coll.Exclude("nested_publish_into_sequential_handler_on_stack", res.ExclSeq)
		coll.Exclude("unsubscribe_of_once_handler_claimed_by_publish_in_progress", res.ExclOnce)
	}
	return v
}

func TestHistory(t *testing.T) {
	rapid.Check(t, func(t *rapid.T) {
		c := Gen(t)
		if v := runCase(c); v != nil {
			vkit.SaveFail("C01", "TestHistory", c, v)
			t.Fatalf("%s", v.Msg)
		}
	})
}

func TestReplay(t *testing.T) {
	r, ok, err := vkit.LoadReplay()
	if !ok {
		t.Skip("no VERIF_REPLAY")
	}
	if err != nil {
		t.Fatal(err)
	}
	var c Case
	if err := json.Unmarshal(r.Case, &c); err != nil {
		t.Fatal(err)
	}
	if v := runCase(&c); v != nil {
		vkit.SaveFail("C01", "TestHistory", &c, v)
		t.Fatalf("%s", v.Msg)
	}
}
