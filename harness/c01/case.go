// Package c01 decides property C01: generated call histories (including
// re-entrant calls from inside handlers) against an independent registry
// model.
package c01

import (
	"context"
	"fmt"
	"sort"
	"sync"

	eventbus "github.com/jilio/ebu"
	"verif/busmodel"
	"verif/vkit"
)

// Op is one API call of a history.
type Op struct {
	K      string `json:"k"` // sub unsub clear clearall pub pubctx has count
	T      int    `json:"t"` // index into Case.Types
	Slot   int    `json:"slot,omitempty"`
	Ctx    bool   `json:"ctx,omitempty"` // context-aware handler kind (sub/unsub)
	Once   bool   `json:"once,omitempty"`
	Async  bool   `json:"async,omitempty"`
	Seq    bool   `json:"seq,omitempty"`
	Filter string `json:"filter,omitempty"` // "", all, none, even, odd
	ID     int    `json:"id,omitempty"`     // event id of a publish (unique per case)
	// Any (pub/pubctx): the event is published through the static type any
	// (Publish[any](bus, ev)) - an application helper taking an event
	// interface.  Routing, filters and delivery follow the dynamic type.
	Any bool `json:"any,omitempty"`
}

// Script is a list of operations a synchronous handler executes on its first
// invocation.
type Script struct {
	T    int  `json:"t"`
	Slot int  `json:"slot"`
	Ctx  bool `json:"ctx,omitempty"`
	Ops  []Op `json:"ops"`
}

// Case is the replayable unit.
type Case struct {
	Types   []int    `json:"types"` // indices into busmodel.Types
	Ops     []Op     `json:"ops"`
	Scripts []Script `json:"scripts,omitempty"`
	Ambient int      `json:"ambient,omitempty"` // busmodel.Ambient bits: configuration that must not change the outcome
	// SharedOpts: one Once()/Async()/Sequential() option value is reused for
	// every subscription of the history.
	SharedOpts bool `json:"shared_opts,omitempty"`
	// RevOpts: subscribe options are passed in the order Sequential, Async, Once instead of Once, Async, Sequential.
	RevOpts bool `json:"rev_opts,omitempty"`
	// PanicMod > 0: a handler panics when it is done with an event whose id
	// plus the handler's slot is a multiple of PanicMod.  The bus contains
	// the panic; who receives what, and the registry, are as without it.
	PanicMod int `json:"panic_mod,omitempty"`
}

type hkey struct {
	ti   int // global type index
	slot int
	ctx  bool
}

// Rec is one handler invocation.
type Rec struct {
	TI   int
	Slot int
	Ctx  bool
	ID   int
	Val  string // value of the publish context seen by a context-aware handler
}

func (r Rec) String() string {
	k := "h"
	if r.Ctx {
		k = "c"
	}
	return fmt.Sprintf("%s.%s%d(id=%d,val=%q)", busmodel.Types[r.TI].Name, k, r.Slot, r.ID, r.Val)
}

type ctxKey struct{}

func filterFn(kind string) func(int) bool {
	switch kind {
	case "all":
		return func(int) bool { return true }
	case "none":
		return func(int) bool { return false }
	case "even":
		return func(id int) bool { return id%2 == 0 }
	case "odd":
		return func(id int) bool { return id%2 != 0 }
	}
	return nil
}

// ---------------------------------------------------------------------------
// Reference model (independent of the implementation).

type reg struct {
	slot                  int
	ctx, once, async, seq bool
	filter                string
	fired                 bool // once handler already claimed
	inflight              bool // claimed, publish not yet finished
}

type queryRes struct {
	lo, hi int  // allowed range for count (has: lo>0 => must be true, hi==0 => must be false)
	errOK  bool // unsub: nil allowed
	nilOK  bool
}

type expectation struct {
	sync   []Rec
	async  []Rec
	query  map[string]queryRes // op path -> expected
	skip   map[string]bool     // op path -> guard said skip
	counts map[int]int         // global type index -> count after the op (top level)
}

type model struct {
	onceSelfUnsub bool // a claimed Once registration was unsubscribed during its publish
	c             *Case
	regs          map[int][]*reg
	stack         []hkey
	ran           map[hkey]bool
	scripts       map[hkey][]Op
	seqKeys       map[hkey]bool
	exp           *expectation
	// classification
	nestedRan, removalThenPub, shardShare, delivered bool
	removed                                          map[int]bool
	exclSeq, exclOnce                                int
	maxRegs                                          int
}

func newModel(c *Case) *model {
	m := &model{c: c, regs: map[int][]*reg{}, ran: map[hkey]bool{}, scripts: map[hkey][]Op{}, seqKeys: map[hkey]bool{}, removed: map[int]bool{}}
	for _, s := range c.Scripts {
		m.scripts[hkey{c.Types[s.T], s.Slot, s.Ctx}] = s.Ops
	}
	collect := func(ops []Op) {
		for _, o := range ops {
			if o.K == "sub" && o.Seq {
				m.seqKeys[hkey{c.Types[o.T], o.Slot, o.Ctx}] = true
			}
		}
	}
	collect(c.Ops)
	for _, s := range c.Scripts {
		collect(s.Ops)
	}
	return m
}

// seqGuard: a nested publish of type ti is skipped when a handler of ti that
// is ever subscribed Sequential is on the call stack (documented self-deadlock).
// It is a function of the case and the handler call stack only.
func seqGuard(seqKeys map[hkey]bool, stack []hkey, ti int) bool {
	for _, k := range stack {
		if k.ti == ti && seqKeys[k] {
			return true
		}
	}
	return false
}

func (m *model) checkShardShare() {
	seen := map[int]int{}
	for ti, rs := range m.regs {
		if len(rs) > 0 {
			seen[busmodel.Types[ti].Shard]++
		}
	}
	for _, n := range seen {
		if n >= 2 {
			m.shardShare = true
		}
	}
}

func (m *model) apply(o Op, path string) {
	ti := m.c.Types[o.T]
	switch o.K {
	case "sub":
		m.regs[ti] = append(m.regs[ti], &reg{slot: o.Slot, ctx: o.Ctx, once: o.Once, async: o.Async, seq: o.Seq, filter: o.Filter})
		m.checkShardShare()
	case "unsub":
		rs := m.regs[ti]
		idx := -1
		for i, r := range rs {
			if r.slot == o.Slot && r.ctx == o.Ctx {
				idx = i
				break
			}
		}
		if idx >= 0 && rs[idx].inflight {
			// The first match is a Once registration that has been claimed
			// by a publish still in progress: whether it still counts as
			// registered is not fixed by the property.  If it is the only
			// registration of this handler, both readings agree on what is
			// left afterwards (none), so the call is made and either result
			// is accepted; with further registrations of the same handler it
			// is not determined which one goes: skipped (counted).
			others := 0
			for i, r := range rs {
				if i != idx && r.slot == o.Slot && r.ctx == o.Ctx {
					others++
				}
			}
			if others > 0 {
				m.exp.skip[path] = true
				m.exclOnce++
				return
			}
			m.exp.query[path] = queryRes{errOK: true, nilOK: true}
			m.regs[ti] = append(append([]*reg{}, rs[:idx]...), rs[idx+1:]...)
			m.removed[ti] = true
			m.onceSelfUnsub = true
			return
		}
		if idx < 0 {
			m.exp.query[path] = queryRes{errOK: true}
		} else {
			m.exp.query[path] = queryRes{nilOK: true}
			m.regs[ti] = append(append([]*reg{}, rs[:idx]...), rs[idx+1:]...)
			m.removed[ti] = true
		}
	case "clear":
		if len(m.regs[ti]) > 0 {
			m.removed[ti] = true
		}
		delete(m.regs, ti)
	case "clearall":
		for t, rs := range m.regs {
			if len(rs) > 0 {
				m.removed[t] = true
			}
		}
		m.regs = map[int][]*reg{}
	case "has", "count":
		n, infl := 0, 0
		for _, r := range m.regs[ti] {
			n++
			if r.inflight {
				infl++
			}
		}
		m.exp.query[path] = queryRes{lo: n - infl, hi: n}
	case "pub", "pubctx":
		if len(m.stack) > 0 && seqGuard(m.seqKeys, m.stack, ti) {
			m.exp.skip[path] = true
			m.exclSeq++
			return
		}
		if m.removed[ti] && len(m.regs[ti]) > 0 {
			m.removalThenPub = true
		}
		val := ""
		if o.K == "pubctx" {
			val = fmt.Sprintf("v%d", o.ID)
		}
		snap := append([]*reg{}, m.regs[ti]...)
		var claimed []*reg
		for _, r := range snap {
			if f := filterFn(r.filter); f != nil && !f(o.ID) {
				continue
			}
			if r.once {
				if r.fired {
					continue
				}
				r.fired, r.inflight = true, true
				claimed = append(claimed, r)
			}
			rec := Rec{TI: ti, Slot: r.slot, Ctx: r.ctx, ID: o.ID}
			if r.ctx {
				rec.Val = val
			}
			m.delivered = true
			if r.async {
				m.exp.async = append(m.exp.async, rec)
				continue
			}
			m.exp.sync = append(m.exp.sync, rec)
			k := hkey{ti, r.slot, r.ctx}
			if ops, ok := m.scripts[k]; ok && !m.ran[k] {
				m.ran[k] = true
				m.stack = append(m.stack, k)
				for i, no := range ops {
					m.nestedRan = true
					m.apply(no, fmt.Sprintf("s%d.%d.%v/%d", k.ti, k.slot, k.ctx, i))
				}
				m.stack = m.stack[:len(m.stack)-1]
			}
		}
		for _, cr := range claimed {
			cr.inflight = false
			rs := m.regs[ti]
			for i, r := range rs {
				if r == cr {
					m.regs[ti] = append(append([]*reg{}, rs[:i]...), rs[i+1:]...)
					break
				}
			}
		}
	}
}

// ---------------------------------------------------------------------------
// Implementation run.

type env struct {
	src     *busmodel.OptSource
	c       *Case
	bus     *eventbus.EventBus
	mainG   uint64
	mu      sync.Mutex
	sync    []Rec
	async   []Rec
	stack   []hkey
	ran     map[hkey]bool
	scripts map[hkey][]Op
	seqKeys map[hkey]bool
	exp     *expectation
	viol    []*vkit.Violation
}

func (e *env) fail(format string, args ...any) {
	e.mu.Lock()
	e.viol = append(e.viol, vkit.Violf("", format, args...))
	e.mu.Unlock()
}

func (e *env) OnHandler(ti, slot int, ctxAware bool, ctx context.Context, id int) {
	rec := Rec{TI: ti, Slot: slot, Ctx: ctxAware, ID: id}
	if ctxAware && ctx != nil {
		if v, ok := ctx.Value(ctxKey{}).(string); ok {
			rec.Val = v
		}
	}
	boom := e.c.PanicMod > 0 && (id+slot)%e.c.PanicMod == 0
	if vkit.Goid() != e.mainG {
		e.mu.Lock()
		e.async = append(e.async, rec)
		e.mu.Unlock()
		if boom {
			panic(fmt.Sprintf("handler %s fails", rec))
		}
		return
	}
	e.mu.Lock()
	e.sync = append(e.sync, rec)
	e.mu.Unlock()
	k := hkey{ti, slot, ctxAware}
	if ops, ok := e.scripts[k]; ok && !e.ran[k] {
		e.ran[k] = true
		e.stack = append(e.stack, k)
		for i, no := range ops {
			e.exec(no, fmt.Sprintf("s%d.%d.%v/%d", k.ti, k.slot, k.ctx, i))
		}
		e.stack = e.stack[:len(e.stack)-1]
	}
	if boom {
		panic(fmt.Sprintf("handler %s fails", rec))
	}
}

func (e *env) exec(o Op, path string) {
	if e.exp.skip[path] {
		return
	}
	ti := e.c.Types[o.T]
	t := busmodel.Types[ti]
	switch o.K {
	case "sub":
		var opts []eventbus.SubscribeOption
		if o.Once {
			opts = append(opts, e.src.Once())
		}
		if o.Async {
			opts = append(opts, e.src.Async())
		}
		if o.Seq {
			opts = append(opts, e.src.Sequential())
		}
		opts = busmodel.Arrange(opts, e.c.RevOpts)
		if err := t.Sub(e.bus, e, o.Slot, o.Ctx, filterFn(o.Filter), opts...); err != nil {
			e.fail("%s: subscribe returned %v", path, err)
		}
	case "unsub":
		err := t.Unsub(e.bus, e, o.Slot, o.Ctx)
		q, ok := e.exp.query[path]
		if ok {
			if err != nil && !q.errOK {
				e.fail("%s: Unsubscribe(%s slot %d ctx=%v) = %v, the model has a registration of that handler", path, t.Name, o.Slot, o.Ctx, err)
			}
			if err == nil && !q.nilOK {
				e.fail("%s: Unsubscribe(%s slot %d ctx=%v) = nil, the model has no registration of that handler", path, t.Name, o.Slot, o.Ctx)
			}
		}
	case "clear":
		t.Clear(e.bus)
	case "clearall":
		eventbus.ClearAll(e.bus)
	case "has":
		got := t.Has(e.bus)
		if q, ok := e.exp.query[path]; ok {
			if (q.lo > 0 && !got) || (q.hi == 0 && got) {
				e.fail("%s: HasHandlers[%s] = %v, model count in [%d,%d]", path, t.Name, got, q.lo, q.hi)
			}
		}
	case "count":
		got := t.Count(e.bus)
		if q, ok := e.exp.query[path]; ok {
			if got < q.lo || got > q.hi {
				e.fail("%s: HandlerCount[%s] = %d, model count in [%d,%d]", path, t.Name, got, q.lo, q.hi)
			}
		}
	case "pub":
		if len(e.stack) > 0 && seqGuard(e.seqKeys, e.stack, ti) {
			return
		}
		if o.Any {
			t.PubAny(e.bus, nil, o.ID)
		} else {
			t.Pub(e.bus, nil, o.ID)
		}
	case "pubctx":
		if len(e.stack) > 0 && seqGuard(e.seqKeys, e.stack, ti) {
			return
		}
		ctx := context.WithValue(context.Background(), ctxKey{}, fmt.Sprintf("v%d", o.ID))
		if o.Any {
			t.PubAny(e.bus, ctx, o.ID)
		} else {
			t.Pub(e.bus, ctx, o.ID)
		}
	}
}

// Result carries the classification of an executed case.
type Result struct {
	Nontrivial bool
	Classes    []string
	ExclSeq    int
	ExclOnce   int
}

func sortRecs(rs []Rec) {
	sort.Slice(rs, func(i, j int) bool { return rs[i].String() < rs[j].String() })
}

func fmtRecs(rs []Rec) string {
	s := "["
	for i, r := range rs {
		if i > 0 {
			s += " "
		}
		s += r.String()
	}
	return s + "]"
}

// Run executes the case against a fresh bus and the model.
func Run(c *Case) (Result, []*vkit.Violation) {
	m := newModel(c)
	e := &env{src: busmodel.NewOptSource(c.SharedOpts), c: c, bus: eventbus.New(busmodel.Ambient(c.Ambient)...), mainG: vkit.Goid(), ran: map[hkey]bool{}, scripts: m.scripts, seqKeys: m.seqKeys}
	for i, o := range c.Ops {
		path := fmt.Sprintf("op%d", i)
		m.exp = &expectation{query: map[string]queryRes{}, skip: map[string]bool{}}
		m.apply(o, path)
		e.exp = m.exp
		e.sync, e.async = nil, nil
		e.exec(o, path)
		e.bus.Wait()
		// compare traces
		if len(e.sync) != len(m.exp.sync) {
			e.fail("%s %+v: synchronous deliveries differ:\n  bus:   %s\n  model: %s", path, o, fmtRecs(e.sync), fmtRecs(m.exp.sync))
		} else {
			for j := range e.sync {
				if e.sync[j] != m.exp.sync[j] {
					e.fail("%s %+v: synchronous delivery %d differs:\n  bus:   %s\n  model: %s", path, o, j, fmtRecs(e.sync), fmtRecs(m.exp.sync))
					break
				}
			}
		}
		ga, ma := append([]Rec{}, e.async...), append([]Rec{}, m.exp.async...)
		sortRecs(ga)
		sortRecs(ma)
		if fmtRecs(ga) != fmtRecs(ma) {
			e.fail("%s %+v: asynchronous deliveries differ:\n  bus:   %s\n  model: %s", path, o, fmtRecs(ga), fmtRecs(ma))
		}
		// registry agreement over all types
		for _, t := range busmodel.Types {
			want := len(m.regs[t.Index])
			if want > m.maxRegs {
				m.maxRegs = want
			}
			if got := t.Count(e.bus); got != want {
				e.fail("after %s %+v: HandlerCount[%s] = %d, model %d", path, o, t.Name, got, want)
			}
			if got := t.Has(e.bus); got != (want > 0) {
				e.fail("after %s %+v: HasHandlers[%s] = %v, model count %d", path, o, t.Name, got, want)
			}
		}
		if len(e.viol) > 0 {
			break
		}
	}
	res := Result{ExclSeq: m.exclSeq, ExclOnce: m.exclOnce}
	res.Nontrivial = m.delivered && (m.shardShare || m.nestedRan || m.removalThenPub)
	if m.shardShare {
		res.Classes = append(res.Classes, "shard_shared_by_two_types")
	}
	if m.nestedRan {
		res.Classes = append(res.Classes, "nested_op_executed")
	}
	if m.removalThenPub {
		res.Classes = append(res.Classes, "removal_then_publish")
	}
	if m.onceSelfUnsub {
		res.Classes = append(res.Classes, "claimed_once_registration_unsubscribed_during_its_publish")
	}
	if m.delivered {
		res.Classes = append(res.Classes, "delivered")
	}
	if m.maxRegs >= 9 {
		res.Classes = append(res.Classes, "nine_or_more_registrations_of_one_type")
	}
	if m.maxRegs >= 33 {
		res.Classes = append(res.Classes, "thirty_three_or_more_registrations_of_one_type")
	}
	return res, e.viol
}
