package c01

import (
	"pgregory.net/rapid"
	"verif/busmodel"
)

// genTypes draws 3-6 active types, biased towards a group sharing a routing
// shard and, in 1 of 4 cases, the pair of types with identical String().
func genTypes(t *rapid.T) []int {
	n := rapid.IntRange(3, 6).Draw(t, "ntypes")
	seen := map[int]bool{}
	var out []int
	add := func(i int) {
		if !seen[i] && len(out) < n {
			seen[i] = true
			out = append(out, i)
		}
	}
	groups := busmodel.ShardGroups()
	if rapid.IntRange(0, 3).Draw(t, "wantShard") != 0 {
		g := groups[rapid.IntRange(0, len(groups)-1).Draw(t, "group")]
		for _, i := range g {
			add(i)
		}
	}
	if rapid.IntRange(0, 3).Draw(t, "wantLocal") == 0 {
		add(busmodel.ByName("LocalA"))
		add(busmodel.ByName("LocalB"))
	}
	if rapid.IntRange(0, 3).Draw(t, "wantSelfNamed") == 0 {
		add(busmodel.ByName("ESelf")) // names itself from its value
	}
	for len(out) < n {
		add(rapid.IntRange(0, len(busmodel.Types)-1).Draw(t, "type"))
	}
	return out
}

var kinds = []string{"sub", "sub", "sub", "unsub", "unsub", "clear", "clearall", "pub", "pub", "pub", "pubctx", "pubctx", "has", "count"}
var filters = []string{"", "", "", "all", "none", "even", "odd"}

// genState tracks, approximately, what the history has registered so far so
// that publishes and removals mostly hit live registrations (construction
// instead of rejection).  It only biases draws; every op stays legal.
type genState struct {
	subs map[int][][2]int // type -> list of (slot, ctx)
}

func (g *genState) liveTypes() []int {
	var out []int
	for t, l := range g.subs {
		if len(l) > 0 {
			out = append(out, t)
		}
	}
	sortInts(out)
	return out
}

func sortInts(a []int) {
	for i := 1; i < len(a); i++ {
		for j := i; j > 0 && a[j] < a[j-1]; j-- {
			a[j], a[j-1] = a[j-1], a[j]
		}
	}
}

func genOp(t *rapid.T, ntypes int, g *genState) Op {
	o := Op{K: rapid.SampledFrom(kinds).Draw(t, "k")}
	if o.K == "clearall" && rapid.IntRange(0, 2).Draw(t, "rareClearAll") != 0 {
		o.K = "pub"
	}
	o.T = rapid.IntRange(0, ntypes-1).Draw(t, "t")
	live := g.liveTypes()
	if len(live) > 0 && o.K != "sub" && rapid.IntRange(0, 4).Draw(t, "hitLive") != 0 {
		o.T = live[rapid.IntRange(0, len(live)-1).Draw(t, "liveT")]
	}
	switch o.K {
	case "sub":
		o.Slot = rapid.IntRange(0, busmodel.K-1).Draw(t, "slot")
		o.Ctx = rapid.Bool().Draw(t, "ctx")
		o.Once = rapid.IntRange(0, 3).Draw(t, "once") == 0
		o.Seq = rapid.IntRange(0, 3).Draw(t, "seq") == 0
		o.Filter = rapid.SampledFrom(filters).Draw(t, "filter")
		// slots 0 and 1 may carry nested scripts and are therefore always synchronous
		if o.Slot >= 2 {
			o.Async = rapid.IntRange(0, 2).Draw(t, "async") == 0
		}
		c := 0
		if o.Ctx {
			c = 1
		}
		g.subs[o.T] = append(g.subs[o.T], [2]int{o.Slot, c})
	case "unsub":
		o.Slot = rapid.IntRange(0, busmodel.K-1).Draw(t, "slot")
		o.Ctx = rapid.Bool().Draw(t, "ctx")
		if l := g.subs[o.T]; len(l) > 0 && rapid.IntRange(0, 4).Draw(t, "hitSlot") != 0 {
			i := rapid.IntRange(0, len(l)-1).Draw(t, "which")
			o.Slot, o.Ctx = l[i][0], l[i][1] == 1
			g.subs[o.T] = append(append([][2]int{}, l[:i]...), l[i+1:]...)
		}
	case "clear":
		delete(g.subs, o.T)
	case "clearall":
		g.subs = map[int][][2]int{}
	case "pub", "pubctx":
		o.Any = rapid.IntRange(0, 3).Draw(t, "viaAny") == 0
	}
	return o
}

// Gen draws a case.
func Gen(t *rapid.T) *Case {
	c := &Case{Types: genTypes(t), SharedOpts: rapid.IntRange(0, 3).Draw(t, "sharedOpts") == 0, RevOpts: rapid.Bool().Draw(t, "revOpts")}
	if rapid.Bool().Draw(t, "hasAmbient") {
		c.Ambient = rapid.IntRange(0, busmodel.AmbAll).Draw(t, "ambient")
		if rapid.IntRange(0, 3).Draw(t, "nilOpts") == 0 {
			c.Ambient |= busmodel.AmbNils
		}
	}
	if rapid.IntRange(0, 3).Draw(t, "panicking") == 0 {
		c.PanicMod = rapid.IntRange(1, 4).Draw(t, "panicMod")
	}
	nt := len(c.Types)
	g := &genState{subs: map[int][][2]int{}}
	// in 1 of 5 histories a crowd of 9-40 registrations on one type comes
	// first, so that small-size thresholds (8, 16, 32 handlers) are crossed
	// and later removals act on a long list
	if rapid.IntRange(0, 4).Draw(t, "crowd") == 0 {
		ct := rapid.IntRange(0, nt-1).Draw(t, "crowdType")
		n := rapid.SampledFrom([]int{9, 16, 17, 33, 40, 65, 72, 130}).Draw(t, "crowdSize")
		for i := 0; i < n; i++ {
			o := Op{K: "sub", T: ct, Slot: 2 + i%(busmodel.K-2), Ctx: i%3 == 0}
			o.Once = rapid.IntRange(0, 5).Draw(t, "crowdOnce") == 0
			o.Filter = rapid.SampledFrom(filters).Draw(t, "crowdFilter")
			cc := 0
			if o.Ctx {
				cc = 1
			}
			g.subs[o.T] = append(g.subs[o.T], [2]int{o.Slot, cc})
			c.Ops = append(c.Ops, o)
		}
	}
	// in 1 of 8 histories: two or three Once handlers on one type, the first
	// of which (slot 0, carrying a script) removes its own registration while
	// it runs - a one-shot handler that deregisters itself - followed by a
	// publish that fires them all
	preScript := -1
	if rapid.IntRange(0, 7).Draw(t, "onceSelfUnsub") == 0 {
		pt := rapid.IntRange(0, nt-1).Draw(t, "preType")
		preScript = pt
		c.Ops = append(c.Ops, Op{K: "sub", T: pt, Slot: 0, Once: true})
		g.subs[pt] = append(g.subs[pt], [2]int{0, 0})
		for i, n := 0, rapid.IntRange(1, 2).Draw(t, "preOnce"); i < n; i++ {
			c.Ops = append(c.Ops, Op{K: "sub", T: pt, Slot: 2 + i, Once: true, Async: rapid.IntRange(0, 3).Draw(t, "preAsync") == 0})
			g.subs[pt] = append(g.subs[pt], [2]int{2 + i, 0})
		}
		c.Ops = append(c.Ops, Op{K: "pub", T: pt}, Op{K: "count", T: pt}, Op{K: "has", T: pt})
	}
	nops := rapid.IntRange(1, 40).Draw(t, "nops")
	for i := 0; i < nops; i++ {
		c.Ops = append(c.Ops, genOp(t, nt, g))
	}
	// nested scripts are attached to handlers that the history subscribes
	// synchronously (slots 0 and 1)
	var cands [][3]int
	seenC := map[[3]int]bool{}
	for _, o := range c.Ops {
		if o.K == "sub" && o.Slot < 2 {
			b := 0
			if o.Ctx {
				b = 1
			}
			k := [3]int{o.T, o.Slot, b}
			if !seenC[k] {
				seenC[k] = true
				cands = append(cands, k)
			}
		}
	}
	ns := rapid.IntRange(0, 3).Draw(t, "nscripts")
	seen := map[[3]int]bool{}
	if preScript >= 0 {
		k := [3]int{preScript, 0, 0}
		seen[k] = true
		c.Scripts = append(c.Scripts, Script{T: k[0], Slot: 0, Ops: []Op{{K: "unsub", T: k[0], Slot: 0}}})
	}
	for i := 0; i < ns; i++ {
		var k [3]int
		if len(cands) > 0 && rapid.IntRange(0, 5).Draw(t, "attach") != 0 {
			k = cands[rapid.IntRange(0, len(cands)-1).Draw(t, "cand")]
		} else {
			k = [3]int{rapid.IntRange(0, nt-1).Draw(t, "st"), rapid.IntRange(0, 1).Draw(t, "sslot"), rapid.IntRange(0, 1).Draw(t, "sctx")}
		}
		if seen[k] {
			continue
		}
		seen[k] = true
		s := Script{T: k[0], Slot: k[1], Ctx: k[2] == 1}
		ng := &genState{subs: map[int][][2]int{}}
		for t2, l := range g.subs {
			ng.subs[t2] = append([][2]int{}, l...)
		}
		n := rapid.IntRange(1, 4).Draw(t, "nsops")
		if rapid.IntRange(0, 2).Draw(t, "unsubSelf") == 0 {
			// the handler removes a registration of itself while it runs
			s.Ops = append(s.Ops, Op{K: "unsub", T: k[0], Slot: k[1], Ctx: k[2] == 1})
		}
		for j := 0; j < n; j++ {
			s.Ops = append(s.Ops, genOp(t, nt, ng))
		}
		c.Scripts = append(c.Scripts, s)
	}
	// unique event ids
	id := 0
	number := func(ops []Op) {
		for i := range ops {
			if ops[i].K == "pub" || ops[i].K == "pubctx" {
				id++
				ops[i].ID = id
			}
		}
	}
	number(c.Ops)
	for i := range c.Scripts {
		number(c.Scripts[i].Ops)
	}
	return c
}
