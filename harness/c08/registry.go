package c08

import (
	"context"
	"fmt"
	"reflect"
	"sync"

	eventbus "github.com/jilio/ebu"
	"pgregory.net/rapid"
	"verif/vkit"
)

// RegCase: the hooks clause under registry changes made by the handlers of
// the publish itself.  Handlers are plain, Once, or change the registry while
// they run (ClearAll, Clear of the type, a fresh subscription); which
// handlers run is C01's business - here every publish, whatever its handlers
// did, must have run each installed before hook exactly once before its first
// handler and each after hook exactly once after its last synchronous one.
type RegCase struct {
	Kinds  []string `json:"kinds"` // plain once onceasync clearall cleartype resub
	Pubs   int      `json:"pubs"`
	UseCtx bool     `json:"usectx,omitempty"`
	Obs    bool     `json:"obs,omitempty"`
}

func GenReg(t *rapid.T) *RegCase {
	c := &RegCase{Pubs: rapid.IntRange(1, 5).Draw(t, "pubs"), UseCtx: rapid.Bool().Draw(t, "usectx"), Obs: rapid.Bool().Draw(t, "obs")}
	n := rapid.IntRange(1, 6).Draw(t, "nh")
	for i := 0; i < n; i++ {
		c.Kinds = append(c.Kinds, rapid.SampledFrom([]string{"plain", "plain", "once", "once", "onceasync", "clearall", "cleartype", "resub"}).Draw(t, "kind"))
	}
	return c
}

type regEv struct{ ID int }

func RunReg(c *RegCase) *vkit.Outcome {
	o := &vkit.Outcome{}
	var mu sync.Mutex
	var trace []regRec
	add := func(kind string, id int) {
		mu.Lock()
		trace = append(trace, regRec{kind, id})
		mu.Unlock()
	}
	idOf := func(ev any) int {
		if e, ok := ev.(regEv); ok {
			return e.ID
		}
		return -1
	}
	opts := []eventbus.Option{
		eventbus.WithBeforePublish(func(_ reflect.Type, ev any) { add("before", idOf(ev)) }),
		eventbus.WithBeforePublishContext(func(_ context.Context, _ reflect.Type, ev any) { add("beforeCtx", idOf(ev)) }),
		eventbus.WithAfterPublish(func(_ reflect.Type, ev any) { add("after", idOf(ev)) }),
		eventbus.WithAfterPublishContext(func(_ context.Context, _ reflect.Type, ev any) { add("afterCtx", idOf(ev)) }),
	}
	if c.Obs {
		opts = append(opts, eventbus.WithObservability(obs{}))
	}
	bus := eventbus.New(opts...)
	subscribe := func() {
		for hi, k := range c.Kinds {
			hi := hi
			switch k {
			case "once":
				eventbus.Subscribe(bus, func(e regEv) { add("hsync", e.ID) }, eventbus.Once())
			case "onceasync":
				eventbus.Subscribe(bus, func(e regEv) { add("hasync", e.ID) }, eventbus.Once(), eventbus.Async())
			case "clearall":
				eventbus.Subscribe(bus, func(e regEv) { add("hsync", e.ID); eventbus.ClearAll(bus) })
			case "cleartype":
				eventbus.Subscribe(bus, func(e regEv) { add("hsync", e.ID); eventbus.Clear[regEv](bus) })
			case "resub":
				eventbus.Subscribe(bus, func(e regEv) {
					add("hsync", e.ID)
					eventbus.Subscribe(bus, func(e regEv) { add("hsync", e.ID) }, eventbus.Once())
				})
			default:
				eventbus.Subscribe(bus, func(e regEv) { add("hsync", e.ID) })
			}
			_ = hi
		}
	}
	subscribe()
	for p := 1; p <= c.Pubs; p++ {
		if p == 3 {
			subscribe() // the registry may have been emptied: fill it again
		}
		if c.UseCtx {
			eventbus.PublishContext(bus, context.Background(), regEv{ID: p})
		} else {
			eventbus.Publish(bus, regEv{ID: p})
		}
		bus.Wait()
	}
	mu.Lock()
	defer mu.Unlock()
	changed := false
	for p := 1; p <= c.Pubs; p++ {
		count := map[string]int{}
		firstHandler, lastSync, firstAfter, lastBefore := -1, -1, -1, -1
		for i, r := range trace {
			if r.id != p {
				continue
			}
			count[r.kind]++
			switch r.kind {
			case "hsync":
				if firstHandler < 0 {
					firstHandler = i
				}
				lastSync = i
			case "hasync":
				if firstHandler < 0 {
					firstHandler = i
				}
			case "before", "beforeCtx":
				lastBefore = i
			case "after", "afterCtx":
				if firstAfter < 0 {
					firstAfter = i
				}
			}
		}
		for _, k := range []string{"before", "beforeCtx", "after", "afterCtx"} {
			if count[k] != 1 {
				o.Failf("", "publish %d (handlers %v): the %s hook ran %d times, expected exactly once; trace %s", p, c.Kinds, k, count[k], fmtRegTrace(trace, p))
				return o
			}
		}
		if firstHandler >= 0 && lastBefore > firstHandler {
			o.Failf("", "publish %d: a before hook ran after a handler of that publish had started; trace %s", p, fmtRegTrace(trace, p))
			return o
		}
		if lastSync >= 0 && firstAfter < lastSync {
			o.Failf("", "publish %d: an after hook ran before the last synchronous handler of that publish; trace %s", p, fmtRegTrace(trace, p))
			return o
		}
	}
	for _, k := range c.Kinds {
		if k != "plain" {
			changed = true
		}
	}
	if changed {
		o.Nontrivial = true
		o.Class("handlers_change_the_registry_during_the_publish")
	}
	return o
}

type regRec struct {
	kind string
	id   int
}

func fmtRegTrace(trace []regRec, p int) string {
	s := ""
	for _, r := range trace {
		if r.id == p {
			s += r.kind + " "
		}
	}
	return fmt.Sprintf("[%s]", s)
}
