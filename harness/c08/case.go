// Package c08 decides property C08: cancellation, context propagation and
// publish hooks.
package c08

import (
	"errors"
	"context"
	"fmt"
	ebuotel "github.com/jilio/ebu/otel"
	sdktrace "go.opentelemetry.io/otel/sdk/trace"
	"reflect"
	"runtime"
	"sync"
	"time"

	eventbus "github.com/jilio/ebu"
	"verif/storekit"
	"verif/vkit"
)

type Ev struct{ ID int }

type H struct {
	Ctx     bool `json:"ctx,omitempty"`
	Async   bool `json:"async,omitempty"`
	Cancels bool `json:"cancels,omitempty"` // cancels the publish context when it runs
	Nest    bool `json:"nest,omitempty"`    // sync only: publishes a nested event (100+id*10+handler) on top-level events
	Seq     bool `json:"seq,omitempty"`     // subscribed with Sequential()
	Yield   int  `json:"yield,omitempty"`   // Gosched calls inside the handler (widens overlap between concurrent publishers)
	// Replay: on a bus with a store, a handler without context is subscribed
	// through SubscribeWithReplay (the log is empty then, so it is a live
	// subscription that also records its position): cancellation applies
	// to it like to any other handler.
	Replay bool `json:"replay,omitempty"`
	// FilterCancels: the handler is subscribed with a WithFilter predicate
	// that accepts every event and cancels the publish context while it is
	// evaluated (a validating predicate that aborts the publish).  The
	// predicate runs on the publishing goroutine before the handler would
	// start, so neither this handler (if synchronous) nor any synchronous
	// handler after it is started for that publish.
	FilterCancels bool `json:"filter_cancels,omitempty"`
	// Panics: the handler panics when it is done.  The bus contains the
	// panic; cancellation, context propagation and the hooks of the publish
	// are what they are without it.
	Panics bool `json:"panics,omitempty"`
}

type Pub struct {
	Mode  string `json:"mode"` // plain (Publish), values, cancelled, expired (a deadline in the past: Err() is DeadlineExceeded)
	NVals int    `json:"nvals,omitempty"`
	// Foreign: the publish context is not one of the standard library's
	// context types but an implementation of its own (own Done channel and
	// Err, values delegated) - a merged or framework context.
	Foreign bool `json:"foreign,omitempty"`
	// Any: published through the static type any (Publish[any]).
	Any bool `json:"any,omitempty"`
	// EndErr (Foreign contexts): the error the context reports once it has
	// ended: "" = context.Canceled, "deadline" = context.DeadlineExceeded,
	// "custom" = an error of the application's own.  A context has ended
	// when Done is closed and Err is non-nil, whatever the error is.
	EndErr string `json:"end_err,omitempty"`
}

var errAppShutdown = errors.New("application shutting down")

// foreignCtx is a context.Context implemented outside the context package.
type foreignCtx struct {
	mu   sync.Mutex
	done chan struct{}
	err  error
	vals context.Context
}

func newForeignCtx(vals context.Context, endErr string) (*foreignCtx, context.CancelFunc) {
	c := &foreignCtx{done: make(chan struct{}), vals: vals}
	return c, func() {
		c.mu.Lock()
		if c.err == nil {
			switch endErr {
			case "deadline":
				c.err = context.DeadlineExceeded
			case "custom":
				c.err = errAppShutdown
			default:
				c.err = context.Canceled
			}
			close(c.done)
		}
		c.mu.Unlock()
	}
}

func (c *foreignCtx) Deadline() (time.Time, bool) { return time.Time{}, false }
func (c *foreignCtx) Done() <-chan struct{}       { return c.done }
func (c *foreignCtx) Err() error {
	c.mu.Lock()
	defer c.mu.Unlock()
	return c.err
}
func (c *foreignCtx) Value(k any) any { return c.vals.Value(k) }

type Case struct {
	Handlers  []H   `json:"handlers"`
	Pubs      []Pub `json:"pubs"`
	Before    bool  `json:"before,omitempty"`
	BeforeCtx bool  `json:"before_ctx,omitempty"`
	After     bool  `json:"after,omitempty"`
	AfterCtx  bool  `json:"after_ctx,omitempty"`
	Setters   bool  `json:"setters,omitempty"` // install legacy hooks with the Set* methods
	// NilUnset: every hook slot that is not installed is explicitly given a
	// nil hook - by an option placed after the installed ones, or (legacy
	// slots, with Setters) by Set*Hook(nil) after New.  A nil hook is no
	// hook; the installed ones keep running.
	NilUnset bool `json:"nil_unset,omitempty"`
	Obs      bool `json:"obs,omitempty"` // Observability that replaces the context
	// ObsOTel: the bundled OpenTelemetry Observability (SDK tracer provider
	// that records spans) is installed instead of the harness's own.
	ObsOTel bool `json:"obs_otel,omitempty"`
	Conc    int  `json:"conc,omitempty"` // >1: the publishes are issued by this many concurrent goroutines
	// Store: the bus persists to "" nothing, "memory" a memory store,
	// "honour" a store that refuses calls whose context is done (as SQL and
	// network stores do), "failing" a store that rejects every second append.
	// Persistence must not change which hooks and handlers run.
	Store string `json:"store,omitempty"`
}

type rec struct {
	Kind string // before beforeCtx after afterCtx hstart hend
	Pub  int
	H    int
}

type vk int

type obs struct{}

func (obs) OnPublishStart(ctx context.Context, _ string, ev any) context.Context {
	return context.WithValue(ctx, vk(99), "obs")
}
func (obs) OnPublishComplete(context.Context, string) {}
func (obs) OnHandlerStart(ctx context.Context, _ string, _ bool) context.Context {
	return context.WithValue(ctx, vk(98), "obs-h")
}
func (obs) OnHandlerComplete(context.Context, time.Duration, error)               {}
func (obs) OnPersistStart(ctx context.Context, _ string, _ int64) context.Context { return ctx }
func (obs) OnPersistComplete(context.Context, time.Duration, error)               {}

type pubState struct {
	ctx      context.Context
	cancel   context.CancelFunc
	nvals    int
	mode     string
	hctx     []context.Context // contexts received by context-aware handlers
	cancelAt int               // trace index at which cancel() returned (-1 = never)
}

func Run(c *Case) *vkit.Outcome {
	o := &vkit.Outcome{}
	var mu sync.Mutex
	var trace []rec
	add := func(r rec) int {
		mu.Lock()
		defer mu.Unlock()
		trace = append(trace, r)
		return len(trace) - 1
	}
	pubs := map[int]*pubState{}
	evType := reflect.TypeOf(Ev{})
	hookFail := ""
	checkEv := func(kind string, t reflect.Type, ev any) int {
		e, ok := ev.(Ev)
		if !ok || t != evType {
			mu.Lock()
			hookFail = fmt.Sprintf("%s hook received event %#v with type %v, expected an Ev and %v", kind, ev, t, evType)
			mu.Unlock()
			return -1
		}
		return e.ID
	}
	before := func(t reflect.Type, ev any) { add(rec{"before", checkEv("before", t, ev), -1}) }
	after := func(t reflect.Type, ev any) { add(rec{"after", checkEv("after", t, ev), -1}) }
	beforeCtx := func(_ context.Context, t reflect.Type, ev any) {
		add(rec{"beforeCtx", checkEv("beforeCtx", t, ev), -1})
	}
	afterCtx := func(_ context.Context, t reflect.Type, ev any) {
		add(rec{"afterCtx", checkEv("afterCtx", t, ev), -1})
	}
	var opts []eventbus.Option
	if c.Before && !c.Setters {
		opts = append(opts, eventbus.WithBeforePublish(before))
	}
	if c.After && !c.Setters {
		opts = append(opts, eventbus.WithAfterPublish(after))
	}
	if c.BeforeCtx {
		opts = append(opts, eventbus.WithBeforePublishContext(beforeCtx))
	}
	if c.AfterCtx {
		opts = append(opts, eventbus.WithAfterPublishContext(afterCtx))
	}
	if c.NilUnset {
		if !c.Before && !c.Setters {
			opts = append(opts, eventbus.WithBeforePublish(nil))
		}
		if !c.After && !c.Setters {
			opts = append(opts, eventbus.WithAfterPublish(nil))
		}
		if !c.BeforeCtx {
			opts = append(opts, eventbus.WithBeforePublishContext(nil))
		}
		if !c.AfterCtx {
			opts = append(opts, eventbus.WithAfterPublishContext(nil))
		}
	}
	if c.Obs && c.ObsOTel {
		tp := sdktrace.NewTracerProvider(sdktrace.WithSampler(sdktrace.AlwaysSample()))
		if ob, err := ebuotel.New(ebuotel.WithTracerProvider(tp)); err == nil {
			opts = append(opts, eventbus.WithObservability(ob))
		}
	} else if c.Obs {
		opts = append(opts, eventbus.WithObservability(obs{}))
	}
	if c.Store != "" {
		st, base := storekit.Wrap(eventbus.NewMemoryStore(), true, true)
		switch c.Store {
		case "honour":
			base.HonourCtx = true
		case "failing":
			base.SetHook(func(op string, n, seq int, _ context.Context) storekit.Action {
				if op == "append" && n%2 == 0 {
					return storekit.Action{Err: storekit.ErrInjected}
				}
				return storekit.Action{}
			})
		}
		opts = append(opts, eventbus.WithStore(st), eventbus.WithPersistenceErrorHandler(func(any, reflect.Type, error) {}))
	}
	bus := eventbus.New(opts...)
	if c.Setters {
		if c.Before {
			bus.SetBeforePublishHook(before)
		}
		if c.After {
			bus.SetAfterPublishHook(after)
		}
		if c.NilUnset && !c.Before {
			bus.SetBeforePublishHook(nil)
		}
		if c.NilUnset && !c.After {
			bus.SetAfterPublishHook(nil)
		}
	}

	var publish func(id int, p Pub)
	body := func(hi int, ctx context.Context, id int) {
		h := c.Handlers[hi]
		add(rec{"hstart", id, hi})
		mu.Lock()
		ps := pubs[id]
		mu.Unlock()
		if h.Ctx && ps != nil {
			mu.Lock()
			ps.hctx = append(ps.hctx, ctx)
			mu.Unlock()
			for k := 0; k < ps.nvals; k++ {
				if v, _ := ctx.Value(vk(k)).(string); v != fmt.Sprintf("v%d-%d", id, k) {
					mu.Lock()
					hookFail = fmt.Sprintf("context-aware handler %d of publish %d: ctx.Value(%d) = %q, the publish context carries %q", hi, id, k, v, fmt.Sprintf("v%d-%d", id, k))
					mu.Unlock()
				}
			}
		}
		for y := 0; y < h.Yield; y++ {
			runtime.Gosched()
		}
		if h.Nest && !h.Async && id < 100 {
			publish(100+id*10+hi, Pub{Mode: "values", NVals: 1})
		}
		if h.Cancels && ps != nil && ps.cancel != nil {
			ps.cancel()
			mu.Lock()
			if ps.cancelAt < 0 {
				ps.cancelAt = len(trace)
			}
			mu.Unlock()
		}
		add(rec{"hend", id, hi})
		if h.Panics {
			panic(fmt.Sprintf("handler %d fails on event %d", hi, id))
		}
	}
	for hi, h := range c.Handlers {
		hi := hi
		var so []eventbus.SubscribeOption
		if h.FilterCancels {
			so = append(so, eventbus.WithFilter(func(e Ev) bool {
				mu.Lock()
				ps := pubs[e.ID]
				mu.Unlock()
				if ps != nil && ps.cancel != nil {
					ps.cancel()
					mu.Lock()
					if ps.cancelAt < 0 {
						ps.cancelAt = len(trace)
					}
					mu.Unlock()
				}
				return true
			}))
		}
		if h.Async {
			so = append(so, eventbus.Async())
		}
		if h.Seq {
			so = append(so, eventbus.Sequential())
		}
		var err error
		if h.Ctx {
			err = eventbus.SubscribeContext(bus, func(ctx context.Context, e Ev) { body(hi, ctx, e.ID) }, so...)
		} else if h.Replay && c.Store != "" {
			err = eventbus.SubscribeWithReplay(context.Background(), bus, fmt.Sprintf("sub-%d", hi), func(e Ev) { body(hi, nil, e.ID) }, so...)
		} else {
			err = eventbus.Subscribe(bus, func(e Ev) { body(hi, nil, e.ID) }, so...)
		}
		if err != nil {
			o.Failf("", "subscribe: %v", err)
			return o
		}
	}
	publish = func(id int, p Pub) {
		ps := &pubState{mode: p.Mode, cancelAt: -1}
		if p.Mode != "plain" {
			ctx := context.Background()
			for k := 0; k < p.NVals; k++ {
				ctx = context.WithValue(ctx, vk(k), fmt.Sprintf("v%d-%d", id, k))
			}
			ps.nvals = p.NVals
			if p.Foreign {
				ps.ctx, ps.cancel = newForeignCtx(ctx, p.EndErr)
			} else {
				ps.ctx, ps.cancel = context.WithCancel(ctx)
			}
			if p.Mode == "expired" && !p.Foreign {
				// ended by its deadline before the publish starts
				var stop context.CancelFunc
				ps.ctx, stop = context.WithDeadline(ctx, time.Unix(1, 0))
				defer stop()
			}
			if p.Mode == "cancelled" || p.Mode == "expired" {
				ps.cancel()
				ps.cancelAt = 0
				ps.mode = "cancelled"
			}
		}
		mu.Lock()
		pubs[id] = ps
		mu.Unlock()
		add(rec{"pubcall", id, -1})
		switch {
		case p.Any && ps.ctx == nil:
			eventbus.Publish[any](bus, Ev{id})
		case p.Any:
			eventbus.PublishContext[any](bus, ps.ctx, Ev{id})
		case ps.ctx == nil:
			eventbus.Publish(bus, Ev{id})
		default:
			eventbus.PublishContext(bus, ps.ctx, Ev{id})
		}
		add(rec{"pubret", id, -1})
	}
	if c.Conc > 1 {
		var wg sync.WaitGroup
		for g := 0; g < c.Conc; g++ {
			wg.Add(1)
			go func(g int) {
				defer wg.Done()
				for i, p := range c.Pubs {
					if i%c.Conc == g {
						publish(i+1, p)
					}
				}
			}(g)
		}
		wg.Wait()
	} else {
		for i, p := range c.Pubs {
			publish(i+1, p)
		}
	}
	bus.Wait()
	// cancel every parent context: handler contexts must follow
	for _, ps := range pubs {
		if ps.cancel != nil {
			ps.cancel()
		}
	}

	mu.Lock()
	defer mu.Unlock()
	if hookFail != "" {
		o.Failf("", "%s", hookFail)
		return o
	}
	nested := false
	for id, ps := range pubs {
		desc := fmt.Sprintf("publish %d (%s)", id, ps.mode)
		// collect positions
		first, lastSyncEnd := -1, -1
		hcount := map[int]int{}
		hooks := map[string][]int{}
		call, ret := -1, -1
		for i, r := range trace {
			if r.Pub != id {
				continue
			}
			switch r.Kind {
			case "pubcall":
				call = i
			case "pubret":
				ret = i
			case "hstart":
				hcount[r.H]++
				if first < 0 {
					first = i
				}
				if !c.Handlers[r.H].Async && ps.cancelAt >= 0 && ps.mode != "cancelled" && i >= ps.cancelAt && !cancelledByAsync(c, ps, trace) {
					o.Failf("", "%s: synchronous handler %d started (trace %d) after the context was cancelled (trace %d)\n%s", desc, r.H, i, ps.cancelAt, fmtTrace(trace, id))
					return o
				}
			case "hend":
				if !c.Handlers[r.H].Async {
					lastSyncEnd = i
				}
			default:
				hooks[r.Kind] = append(hooks[r.Kind], i)
			}
		}
		if id >= 100 {
			nested = true
		}
		// handlers
		for hi, h := range c.Handlers {
			n := hcount[hi]
			switch {
			case ps.mode == "cancelled":
				if n != 0 {
					o.Failf("", "%s: handler %d %+v ran %d times although the context was already cancelled", desc, hi, h, n)
					return o
				}
			case ps.cancelAt < 0:
				if n != 1 {
					o.Failf("", "%s: handler %d %+v ran %d times, expected exactly once (context never cancelled)", desc, hi, h, n)
					return o
				}
			default:
				if n > 1 {
					o.Failf("", "%s: handler %d %+v ran %d times", desc, hi, h, n)
					return o
				}
			}
		}
		// cancellation by a synchronous handler k: earlier sync handlers ran exactly once, k ran
		if ps.mode != "cancelled" && ps.cancelAt >= 0 && !cancelledByAsync(c, ps, trace) {
			for hi, h := range c.Handlers {
				if h.Async {
					continue
				}
				if hcount[hi] != 1 {
					// allowed only for handlers after the first sync canceller
					// (and for the handler whose own predicate cancelled)
					k := firstSyncCanceller(c)
					if hi < k || (hi == k && !c.Handlers[k].FilterCancels) {
						o.Failf("", "%s: synchronous handler %d (at or before the cancelling handler %d) ran %d times", desc, hi, k, hcount[hi])
						return o
					}
				}
			}
		}
		// hooks
		for _, hk := range []struct {
			name string
			on   bool
			pre  bool
		}{{"before", c.Before, true}, {"beforeCtx", c.BeforeCtx, true}, {"after", c.After, false}, {"afterCtx", c.AfterCtx, false}} {
			pos := hooks[hk.name]
			if !hk.on {
				continue
			}
			if len(pos) != 1 {
				o.Failf("", "%s: %s hook ran %d times, expected exactly once\n%s", desc, hk.name, len(pos), fmtTrace(trace, id))
				return o
			}
			if pos[0] < call || pos[0] > ret {
				o.Failf("", "%s: %s hook ran outside the publish call", desc, hk.name)
				return o
			}
			if hk.pre && first >= 0 && pos[0] > first {
				o.Failf("", "%s: %s hook ran after a handler of the publish had started\n%s", desc, hk.name, fmtTrace(trace, id))
				return o
			}
			if !hk.pre && lastSyncEnd >= 0 && pos[0] < lastSyncEnd {
				o.Failf("", "%s: %s hook ran before the last synchronous handler returned\n%s", desc, hk.name, fmtTrace(trace, id))
				return o
			}
		}
		// handler contexts follow the parent's cancellation
		for _, hc := range ps.hctx {
			if ps.ctx != nil && hc.Err() == nil {
				o.Failf("", "%s: a context-aware handler's context is not cancelled after the publish context was", desc)
				return o
			}
		}
		// classification
		if ps.mode != "cancelled" && ps.cancelAt >= 0 {
			k := firstSyncCanceller(c)
			if k >= 0 && k < len(c.Handlers)-1 {
				o.Nontrivial = true
				o.Class("cancelled_by_handler_with_handlers_after_it")
			}
		}
	}
	nh := 0
	for _, b := range []bool{c.Before, c.BeforeCtx, c.After, c.AfterCtx} {
		if b {
			nh++
		}
	}
	if nh >= 2 && len(c.Handlers) >= 1 {
		o.Nontrivial = true
		o.Class("two_or_more_hooks_with_handlers")
	}
	if nested {
		o.Class("nested_publish")
	}
	if len(c.Handlers) == 0 {
		o.Class("no_handlers")
	}
	if c.Conc > 1 {
		o.Class("concurrent_publishers")
	}
	return o
}

func firstSyncCanceller(c *Case) int {
	for hi, h := range c.Handlers {
		if h.FilterCancels || (h.Cancels && !h.Async) {
			return hi
		}
	}
	return -1
}

// cancelledByAsync: the first cancellation came from an asynchronous handler,
// whose timing relative to the synchronous handlers is not determined.
func cancelledByAsync(c *Case, ps *pubState, trace []rec) bool {
	for hi, h := range c.Handlers {
		if h.Cancels && h.Async {
			_ = hi
			return true
		}
	}
	return false
}

func fmtTrace(trace []rec, id int) string {
	s := "  trace:"
	for i, r := range trace {
		if r.Pub == id {
			s += fmt.Sprintf(" %d:%s", i, r.Kind)
			if r.H >= 0 {
				s += fmt.Sprintf("(h%d)", r.H)
			}
		}
	}
	return s
}
