package c08

import "pgregory.net/rapid"

func Gen(t *rapid.T) *Case {
	c := &Case{
		Before: rapid.Bool().Draw(t, "before"), BeforeCtx: rapid.Bool().Draw(t, "beforeCtx"),
		After: rapid.Bool().Draw(t, "after"), AfterCtx: rapid.Bool().Draw(t, "afterCtx"),
		Setters:  rapid.IntRange(0, 3).Draw(t, "setters") == 0,
		Obs:      rapid.IntRange(0, 2).Draw(t, "obs") == 0,
		ObsOTel:  rapid.Bool().Draw(t, "obsOTel"),
		NilUnset: rapid.IntRange(0, 2).Draw(t, "nilUnset") == 0,
		Store:    rapid.SampledFrom([]string{"", "", "", "memory", "honour", "honour", "failing"}).Draw(t, "store"),
	}
	n := rapid.IntRange(0, 8).Draw(t, "nh")
	cancelK := -1
	if n > 0 && rapid.IntRange(0, 2).Draw(t, "hasCanceller") != 0 {
		cancelK = rapid.IntRange(0, n-1).Draw(t, "k")
	}
	for i := 0; i < n; i++ {
		h := H{Ctx: rapid.Bool().Draw(t, "ctx"), Async: rapid.IntRange(0, 2).Draw(t, "async") == 0}
		if i == cancelK {
			h.Cancels = true
			if rapid.IntRange(0, 4).Draw(t, "asyncCanceller") != 0 {
				h.Async = false
			}
			if rapid.IntRange(0, 2).Draw(t, "filterCancels") == 0 {
				// the cancellation comes from the handler's filter predicate
				h.Cancels, h.FilterCancels = false, true
			}
		}
		if !h.Async {
			h.Nest = rapid.IntRange(0, 5).Draw(t, "nest") == 0
		}
		h.Seq = rapid.IntRange(0, 3).Draw(t, "seq") == 0
		h.Panics = rapid.IntRange(0, 5).Draw(t, "panics") == 0
		h.Yield = rapid.IntRange(0, 2).Draw(t, "yield")
		h.Replay = !h.Ctx && c.Store != "" && rapid.IntRange(0, 1).Draw(t, "replaySub") == 0
		c.Handlers = append(c.Handlers, h)
	}
	// a nested publish of the same type into a synchronous Sequential handler is the documented self-deadlock
	for _, h := range c.Handlers {
		if h.Seq && !h.Async {
			for i := range c.Handlers {
				c.Handlers[i].Nest = false
			}
		}
	}
	if rapid.IntRange(0, 2).Draw(t, "conc") == 0 {
		c.Conc = rapid.IntRange(2, 4).Draw(t, "nconc")
	}
	np := rapid.IntRange(1, 4).Draw(t, "np")
	if c.Conc > 1 {
		np = rapid.IntRange(c.Conc, 8).Draw(t, "npc")
	}
	for i := 0; i < np; i++ {
		p := Pub{Mode: rapid.SampledFrom([]string{"plain", "values", "values", "values", "values", "cancelled", "expired"}).Draw(t, "mode")}
		if p.Mode != "plain" {
			p.NVals = rapid.IntRange(0, 3).Draw(t, "nvals")
			p.Foreign = rapid.IntRange(0, 2).Draw(t, "foreign") == 0
			if p.Foreign {
				p.EndErr = rapid.SampledFrom([]string{"", "deadline", "custom"}).Draw(t, "endErr")
			}
		}
		p.Any = rapid.IntRange(0, 3).Draw(t, "viaAny") == 0
		c.Pubs = append(c.Pubs, p)
	}
	return c
}
