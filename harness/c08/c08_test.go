package c08

import (
	"testing"

	"verif/vkit"
)

var coll = vkit.NewCollector("C08", "TestCtxHooks", "bus without a store or persisting to a memory store, to a store that refuses calls whose context is done, or to one that rejects every second append; handler lists of 0-8 (sync/async x plain/context-aware x Sequential, optionally yielding; publishes issued by one goroutine or by 2-4 concurrent ones; one may cancel the publish context when it runs; sync ones may publish a nested event), publish contexts of the standard library or of a foreign implementation (own Done channel and Err); 1-4 publishes each with Publish, a context with 0-3 values, or an already-cancelled context; any subset of the four publish hooks (options or Set* methods), with or without an Observability that replaces the context. Oracle = rules over the recorded trace: already cancelled => no handler ever runs; after a synchronous handler cancels, no later synchronous handler starts and all earlier ones ran once; never cancelled => every handler exactly once; context-aware handlers see every value and their context ends with the parent; every installed hook exactly once per publish (also nested, cancelled, zero handlers), before-hooks before the first handler start and after-hooks after the last synchronous handler return, with the event and its reflect.Type. Non-trivial = cancelled by a handler with handlers after it, or >=2 hooks with >=1 handler.")

var collReg = vkit.NewCollector("C08", "TestHooksUnderRegistryChanges", "all four publish hooks installed (optionally with an Observability that replaces the context); 1-6 handlers from {plain, Once, Once+Async, a handler that calls ClearAll, one that clears the type, one that subscribes a further Once handler}, 1-5 publishes (the handler set is subscribed again before the third). Which handlers run is C01's concern; oracle here: for every publish, whatever its handlers did to the registry, each before hook ran exactly once before the first handler and each after hook exactly once after the last synchronous one. Non-trivial = a handler that is Once or changes the registry.")

func TestHooksUnderRegistryChanges(t *testing.T) { vkit.Check(t, collReg, GenReg, RunReg) }

func TestMain(m *testing.M) { vkit.Main(m) }

func TestCtxHooks(t *testing.T) { vkit.Check(t, coll, Gen, Run) }

func TestReplay(t *testing.T) {
	r := vkit.NeedReplay(t)
	_ = vkit.ReplayCase(t, r, coll, Run) || vkit.ReplayCase(t, r, collReg, RunReg)
}
