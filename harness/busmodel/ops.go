// Package busmodel declares the event types used by the generated cases and,
// for each of them, a table of typed operations (Go generics need static
// types) and of distinct handler function values.
package busmodel

import (
	"context"
	"hash/fnv"
	"reflect"
	"strconv"

	eventbus "github.com/jilio/ebu"
)

// K is the number of distinct handler function values per type and kind.
const K = 4

// Env receives every handler and filter invocation.
type Env interface {
	OnHandler(ti, slot int, ctxAware bool, ctx context.Context, id int)
}

// TypeOps is the typed operation table of one event type.
type TypeOps struct {
	Index int
	Name  string
	RT    reflect.Type
	Shard int
	// Sub subscribes handler slot (plain or context-aware).  filter may be nil.
	Sub   func(bus *eventbus.EventBus, env Env, slot int, ctxAware bool, filter func(id int) bool, opts ...eventbus.SubscribeOption) error
	Unsub func(bus *eventbus.EventBus, env Env, slot int, ctxAware bool) error
	// Pub publishes the event with the given id; ctx==nil uses Publish.
	Pub func(bus *eventbus.EventBus, ctx context.Context, id int)
	// PubAny publishes the same event through the static type any
	// (Publish[any]): handlers are found by the dynamic type.
	PubAny func(bus *eventbus.EventBus, ctx context.Context, id int)
	Clear  func(bus *eventbus.EventBus)
	Has    func(bus *eventbus.EventBus) bool
	Count  func(bus *eventbus.EventBus) int
	Mk     func(id int) any
	IDOf   func(ev any) (int, bool)
}

// Types is the global table, filled by init.
var Types []*TypeOps

// ShardOf recomputes the routing shard of a type (used only to classify cases).
func ShardOf(rt reflect.Type) int {
	h := fnv.New32a()
	h.Write([]byte(rt.String()))
	return int(h.Sum32() & 31)
}

//go:noinline
func plainTable[T any](env Env, ti int, idOf func(T) int) [K]eventbus.Handler[T] {
	return [K]eventbus.Handler[T]{
		func(e T) { env.OnHandler(ti, 0, false, nil, idOf(e)) },
		func(e T) { env.OnHandler(ti, 1, false, nil, idOf(e)) },
		func(e T) { env.OnHandler(ti, 2, false, nil, idOf(e)) },
		func(e T) { env.OnHandler(ti, 3, false, nil, idOf(e)) },
	}
}

//go:noinline
func ctxTable[T any](env Env, ti int, idOf func(T) int) [K]eventbus.ContextHandler[T] {
	return [K]eventbus.ContextHandler[T]{
		func(c context.Context, e T) { env.OnHandler(ti, 0, true, c, idOf(e)) },
		func(c context.Context, e T) { env.OnHandler(ti, 1, true, c, idOf(e)) },
		func(c context.Context, e T) { env.OnHandler(ti, 2, true, c, idOf(e)) },
		func(c context.Context, e T) { env.OnHandler(ti, 3, true, c, idOf(e)) },
	}
}

func register[T any](name string, mk func(int) T, idOf func(T) int) {
	ti := len(Types)
	rt := reflect.TypeOf((*T)(nil)).Elem()
	ops := &TypeOps{Index: ti, Name: name, RT: rt, Shard: ShardOf(rt)}
	ops.Sub = func(bus *eventbus.EventBus, env Env, slot int, ctxAware bool, filter func(int) bool, opts ...eventbus.SubscribeOption) error {
		if filter != nil {
			opts = append(opts, eventbus.WithFilter(func(e T) bool { return filter(idOf(e)) }))
		}
		if ctxAware {
			return eventbus.SubscribeContext(bus, ctxTable(env, ti, idOf)[slot], opts...)
		}
		return eventbus.Subscribe(bus, plainTable(env, ti, idOf)[slot], opts...)
	}
	ops.Unsub = func(bus *eventbus.EventBus, env Env, slot int, ctxAware bool) error {
		if ctxAware {
			return eventbus.Unsubscribe[T](bus, ctxTable(env, ti, idOf)[slot])
		}
		return eventbus.Unsubscribe[T](bus, plainTable(env, ti, idOf)[slot])
	}
	ops.Pub = func(bus *eventbus.EventBus, ctx context.Context, id int) {
		if ctx == nil {
			eventbus.Publish(bus, mk(id))
		} else {
			eventbus.PublishContext(bus, ctx, mk(id))
		}
	}
	ops.PubAny = func(bus *eventbus.EventBus, ctx context.Context, id int) {
		if ctx == nil {
			eventbus.Publish[any](bus, mk(id))
		} else {
			eventbus.PublishContext[any](bus, ctx, mk(id))
		}
	}
	ops.Clear = func(bus *eventbus.EventBus) { eventbus.Clear[T](bus) }
	ops.Has = func(bus *eventbus.EventBus) bool { return eventbus.HasHandlers[T](bus) }
	ops.Count = func(bus *eventbus.EventBus) int { return eventbus.HandlerCount[T](bus) }
	ops.Mk = func(id int) any { return mk(id) }
	ops.IDOf = func(ev any) (int, bool) {
		e, ok := ev.(T)
		if !ok {
			return 0, false
		}
		return idOf(e), true
	}
	Types = append(Types, ops)
}

// Special shapes.
type EInt int
type EStr string
type EPtr struct {
	ID int `json:"id"`
}
type ESlice []int

// ESelf names itself (eventbus.TypeNamer) from its value: one Go type, many
// event type names.  Routing goes by the Go type.
type ESelf struct {
	ID int `json:"id"`
}

func (e ESelf) EventTypeName() string { return "busmodel.self." + strconv.Itoa(e.ID%7) }

func regLocalA() {
	type Local struct {
		ID int `json:"id"`
	}
	register("LocalA", func(id int) Local { return Local{ID: id} }, func(e Local) int { return e.ID })
}

func regLocalB() {
	type Local struct {
		ID int `json:"id"`
	}
	register("LocalB", func(id int) Local { return Local{ID: id} }, func(e Local) int { return e.ID })
}

func registerSpecials() {
	register("EInt", func(id int) EInt { return EInt(id) }, func(e EInt) int { return int(e) })
	register("EStr", func(id int) EStr { return EStr(strconv.Itoa(id)) }, func(e EStr) int { n, _ := strconv.Atoi(string(e)); return n })
	register("EPtr", func(id int) *EPtr { return &EPtr{ID: id} }, func(e *EPtr) int { return e.ID })
	register("ESlice", func(id int) ESlice { return ESlice{id} }, func(e ESlice) int { return e[0] })
	register("ESelf", func(id int) ESelf { return ESelf{ID: id} }, func(e ESelf) int { return e.ID })
	regLocalA()
	regLocalB()
}

// ShardGroups returns, for every shard that holds >=2 types, their indices.
func ShardGroups() [][]int {
	by := map[int][]int{}
	for _, t := range Types {
		by[t.Shard] = append(by[t.Shard], t.Index)
	}
	var out [][]int
	for s := 0; s < 32; s++ {
		if len(by[s]) >= 2 {
			out = append(out, by[s])
		}
	}
	return out
}

// ByName finds a type index by name (-1 if absent).
func ByName(name string) int {
	for _, t := range Types {
		if t.Name == name {
			return t.Index
		}
	}
	return -1
}
