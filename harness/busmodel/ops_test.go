package busmodel

import "testing"

func TestTable(t *testing.T) {
	if len(Types) != 43 {
		t.Fatalf("types=%d", len(Types))
	}
	a, b := Types[ByName("LocalA")], Types[ByName("LocalB")]
	if a.RT == b.RT || a.RT.String() != b.RT.String() {
		t.Fatalf("local pair: %v %v", a.RT, b.RT)
	}
	t.Logf("shard groups: %v", ShardGroups())
}
