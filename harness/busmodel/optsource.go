package busmodel

import eventbus "github.com/jilio/ebu"

// OptSource hands out subscribe options.  In shared mode every kind of option
// is constructed once and the same value is reused for every subscription -
// the caller that builds `opts := []SubscribeOption{Once(), Async()}` once and
// passes it to several Subscribe calls.  Option values carry no
// per-subscription identity in the API, so both modes must behave alike.
type OptSource struct {
	shared           bool
	once, async, seq eventbus.SubscribeOption
}

func NewOptSource(shared bool) *OptSource {
	s := &OptSource{shared: shared}
	if shared {
		s.once, s.async, s.seq = eventbus.Once(), eventbus.Async(), eventbus.Sequential()
	}
	return s
}

func (s *OptSource) Once() eventbus.SubscribeOption {
	if s != nil && s.shared {
		return s.once
	}
	return eventbus.Once()
}

func (s *OptSource) Async() eventbus.SubscribeOption {
	if s != nil && s.shared {
		return s.async
	}
	return eventbus.Async()
}

func (s *OptSource) Sequential() eventbus.SubscribeOption {
	if s != nil && s.shared {
		return s.seq
	}
	return eventbus.Sequential()
}
