package busmodel

import eventbus "github.com/jilio/ebu"

// OptSource hands out subscribe options.  In shared mode every kind of option
// is constructed once and the same value is reused for every subscription -
// the caller that builds `opts := []SubscribeOption{Once(), Async()}` once and
// passes it to several Subscribe calls.  Option values carry no
// per-subscription identity in the API, so both modes must behave alike.
type OptSource struct {
	shared           bool
	once, async, seq eventbus.SubscribeOption
}

func NewOptSource(shared bool) *OptSource {
	s := &OptSource{shared: shared}
	if shared {
		s.once, s.async, s.seq = eventbus.Once(), eventbus.Async(), eventbus.Sequential()
	}
	return s
}

func (s *OptSource) Once() eventbus.SubscribeOption {
	if s != nil && s.shared {
		return s.once
	}
	return eventbus.Once()
}

func (s *OptSource) Async() eventbus.SubscribeOption {
	if s != nil && s.shared {
		return s.async
	}
	return eventbus.Async()
}

func (s *OptSource) Sequential() eventbus.SubscribeOption {
	if s != nil && s.shared {
		return s.seq
	}
	return eventbus.Sequential()
}

// Arrange returns the options in reverse order when rev is set: the order in
// which options are passed to Subscribe is not part of the contract.
func Arrange(opts []eventbus.SubscribeOption, rev bool) []eventbus.SubscribeOption {
	if !rev {
		return opts
	}
	out := make([]eventbus.SubscribeOption, 0, len(opts))
	for i := len(opts) - 1; i >= 0; i-- {
		out = append(out, opts[i])
	}
	return out
}
