package busmodel

import (
	"context"
	"reflect"
	"time"

	eventbus "github.com/jilio/ebu"
)

// Ambient bits: bus configuration that must not change dispatch semantics.
const (
	AmbObs = 1 << iota
	AmbLegacyHooks
	AmbCtxHooks
	AmbStore
	AmbPanicHandler
	AmbPersistErrHandler
	AmbBatchSize
	AmbTimeout
	AmbAll = 1<<iota - 1
	// AmbNils (not part of AmbAll: opt-in): every optional callback is first
	// set to an explicit nil - an application passing through its own unset
	// optional configuration.  A nil callback is "not set"; options that
	// follow in the list override it.
	AmbNils = 1 << 12
)

type nopObs struct{}

func (nopObs) OnPublishStart(ctx context.Context, _ string, _ any) context.Context { return ctx }
func (nopObs) OnPublishComplete(context.Context, string)                           {}
func (nopObs) OnHandlerStart(ctx context.Context, _ string, _ bool) context.Context {
	return ctx
}
func (nopObs) OnHandlerComplete(context.Context, time.Duration, error) {}
func (nopObs) OnPersistStart(ctx context.Context, _ string, _ int64) context.Context {
	return ctx
}
func (nopObs) OnPersistComplete(context.Context, time.Duration, error) {}

// Ambient turns a drawn bit mask into bus options (no-op observability, no-op
// hooks, a memory store, handlers for panics and persistence errors, ...).
func Ambient(mask int) []eventbus.Option {
	var opts []eventbus.Option
	if mask&AmbNils != 0 {
		opts = append(opts, eventbus.WithPanicHandler(nil), eventbus.WithPersistenceErrorHandler(nil),
			eventbus.WithBeforePublish(nil), eventbus.WithAfterPublish(nil),
			eventbus.WithBeforePublishContext(nil), eventbus.WithAfterPublishContext(nil),
			eventbus.WithObservability(nil), eventbus.WithUpcastErrorHandler(nil))
	}
	if mask&AmbObs != 0 {
		opts = append(opts, eventbus.WithObservability(nopObs{}))
	}
	if mask&AmbLegacyHooks != 0 {
		opts = append(opts, eventbus.WithBeforePublish(func(reflect.Type, any) {}), eventbus.WithAfterPublish(func(reflect.Type, any) {}))
	}
	if mask&AmbCtxHooks != 0 {
		opts = append(opts, eventbus.WithBeforePublishContext(func(context.Context, reflect.Type, any) {}), eventbus.WithAfterPublishContext(func(context.Context, reflect.Type, any) {}))
	}
	if mask&AmbStore != 0 {
		opts = append(opts, eventbus.WithStore(eventbus.NewMemoryStore()))
	}
	if mask&AmbPanicHandler != 0 {
		opts = append(opts, eventbus.WithPanicHandler(func(any, reflect.Type, any) {}))
	}
	if mask&AmbPersistErrHandler != 0 {
		opts = append(opts, eventbus.WithPersistenceErrorHandler(func(any, reflect.Type, error) {}))
	}
	if mask&AmbBatchSize != 0 {
		opts = append(opts, eventbus.WithReplayBatchSize(3))
	}
	if mask&AmbTimeout != 0 {
		opts = append(opts, eventbus.WithPersistenceTimeout(time.Hour))
	}
	return opts
}
