package vkit

import (
	"encoding/json"
	"os"
	"testing"

	"pgregory.net/rapid"
)

// Outcome is what an interpreter reports for one executed case.
type Outcome struct {
	Nontrivial bool
	Classes    []string
	Excluded   map[string]int
	Viol       []*Violation
}

func (o *Outcome) Failf(sig, format string, args ...any) {
	o.Viol = append(o.Viol, Violf(sig, format, args...))
}

func (o *Outcome) Class(k string) { o.Classes = append(o.Classes, k) }

func (o *Outcome) Exclude(k string, n int) {
	if n == 0 {
		return
	}
	if o.Excluded == nil {
		o.Excluded = map[string]int{}
	}
	o.Excluded[k] += n
}

// Account records an outcome in the collector and returns the first
// violation that is not a listed known finding.
func (c *Collector) Account(cs any, o *Outcome) *Violation {
	v := c.Judge(o.Viol)
	if v == nil {
		c.Record(cs, o.Nontrivial, o.Classes...)
		for k, n := range o.Excluded {
			c.Exclude(k, n)
		}
	}
	return v
}

var saveCurrent = os.Getenv("VERIF_SAVE_CURRENT") != ""

// Check drives gen -> run under rapid; failing cases are saved so that the
// last (minimal) one becomes the replay file.
func Check[C any](t *testing.T, c *Collector, gen func(*rapid.T) C, run func(C) *Outcome) {
	rapid.Check(t, func(rt *rapid.T) {
		cs := gen(rt)
		if saveCurrent {
			SaveCurrent(c.s.Property, c.s.Test, cs)
		}
		if v := c.Account(cs, run(cs)); v != nil {
			SaveFail(c.s.Property, c.s.Test, cs, v)
			rt.Fatalf("%s", v.Error())
		}
	})
}

// ReplayCase re-runs a saved case without rapid.  Returns false if the replay
// file is for another test.
func ReplayCase[C any](t *testing.T, r Replay, c *Collector, run func(C) *Outcome) bool {
	if r.Test != c.s.Test {
		return false
	}
	var cs C
	if err := json.Unmarshal(r.Case, &cs); err != nil {
		t.Fatalf("bad replay case: %v", err)
	}
	if v := c.Account(cs, run(cs)); v != nil {
		SaveFail(c.s.Property, c.s.Test, cs, v)
		t.Fatalf("%s", v.Error())
	}
	return true
}

// NeedReplay loads $VERIF_REPLAY or skips the test.
func NeedReplay(t *testing.T) Replay {
	r, ok, err := LoadReplay()
	if !ok {
		t.Skip("no VERIF_REPLAY")
	}
	if err != nil {
		t.Fatal(err)
	}
	return r
}
