package vkit

import (
	"runtime"
	"time"
)

// Watchdog runs fn on a new goroutine and waits for it for at most d of real
// time.  A timeout returns a dump of all goroutines; the goroutine is leaked.
// Use only where nothing in the case waits on purpose, with d several orders
// of magnitude above the normal duration.
func Watchdog(d time.Duration, fn func()) (timedOut bool, dump string) {
	done := make(chan struct{})
	go func() {
		defer close(done)
		fn()
	}()
	tm := time.NewTimer(d)
	defer tm.Stop()
	select {
	case <-done:
		return false, ""
	case <-tm.C:
		buf := make([]byte, 1<<20)
		n := runtime.Stack(buf, true)
		return true, string(buf[:n])
	}
}

// StallOracle runs fn on its own goroutine and polls probe once a second.
// probe returns a progress counter and whether work is outstanding while
// nothing is running (no user code active, yet not everything that was
// started has completed).  If that holds with an unchanged counter on secs
// consecutive polls, the run is reported as stalled: the returned outcome
// carries a violation with what() and a goroutine dump, and fn's goroutine is
// leaked.  A run that is merely slow keeps moving its counter and is waited
// for.  This is a wall-clock judgement; secs must be orders of magnitude
// above the duration of a normal run.
func StallOracle(fn func() *Outcome, probe func() (progress int64, outstandingAndIdle bool), secs int, what func() string) *Outcome {
	done := make(chan *Outcome, 1)
	go func() { done <- fn() }()
	tick := time.NewTicker(time.Second)
	defer tick.Stop()
	last, stable := int64(-1), 0
	for {
		select {
		case o := <-done:
			return o
		case <-tick.C:
			p, stuck := probe()
			if stuck && p == last {
				stable++
			} else {
				stable = 0
			}
			last = p
			if stable >= secs {
				buf := make([]byte, 1<<16)
				buf = buf[:runtime.Stack(buf, true)]
				o := &Outcome{}
				o.Failf("", "%s; nothing has moved for %d s; goroutines:\n%s", what(), secs, buf)
				return o
			}
		}
	}
}
