package vkit

import (
	"runtime"
	"time"
)

// Watchdog runs fn on a new goroutine and waits for it for at most d of real
// time.  A timeout returns a dump of all goroutines; the goroutine is leaked.
// Use only where nothing in the case waits on purpose, with d several orders
// of magnitude above the normal duration.
func Watchdog(d time.Duration, fn func()) (timedOut bool, dump string) {
	done := make(chan struct{})
	go func() {
		defer close(done)
		fn()
	}()
	tm := time.NewTimer(d)
	defer tm.Stop()
	select {
	case <-done:
		return false, ""
	case <-tm.C:
		buf := make([]byte, 1<<20)
		n := runtime.Stack(buf, true)
		return true, string(buf[:n])
	}
}
