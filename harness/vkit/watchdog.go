package vkit

import (
	"runtime"
	"strings"
	"time"
)

// Watchdog runs fn on a new goroutine and waits for it for at most d of real
// time.  A timeout returns a dump of all goroutines; the goroutine is leaked.
// Use only where nothing in the case waits on purpose, with d several orders
// of magnitude above the normal duration.
func Watchdog(d time.Duration, fn func()) (timedOut bool, dump string) {
	done := make(chan struct{})
	go func() {
		defer close(done)
		fn()
	}()
	tm := time.NewTimer(d)
	defer tm.Stop()
	select {
	case <-done:
		return false, ""
	case <-tm.C:
		buf := make([]byte, 1<<20)
		n := runtime.Stack(buf, true)
		return true, string(buf[:n])
	}
}

// StallOracle runs fn on its own goroutine and polls probe once a second.
// probe returns a progress counter and whether work is outstanding while
// nothing is running (no user code active, yet not everything that was
// started has completed).  If that holds with an unchanged counter on secs
// consecutive polls, the run is reported as stalled: the returned outcome
// carries a violation with what() and a goroutine dump, and fn's goroutine is
// leaked.  A run that is merely slow keeps moving its counter and is waited
// for.  This is a wall-clock judgement; secs must be orders of magnitude
// above the duration of a normal run.
func StallOracle(fn func() *Outcome, probe func() (progress int64, outstandingAndIdle bool), secs int, what func() string) *Outcome {
	done := make(chan *Outcome, 1)
	go func() { done <- fn() }()
	tick := time.NewTicker(time.Second)
	defer tick.Stop()
	last, stable := int64(-1), 0
	for {
		select {
		case o := <-done:
			return o
		case <-tick.C:
			p, stuck := probe()
			if stuck && p == last {
				stable++
			} else {
				stable = 0
			}
			last = p
			if stable >= secs {
				buf := make([]byte, 1<<16)
				buf = buf[:runtime.Stack(buf, true)]
				o := &Outcome{}
				o.Failf("", "%s; nothing has moved for %d s; goroutines:\n%s", what(), secs, buf)
				return o
			}
		}
	}
}

// blockedStates are goroutine states in which a goroutine waits for another
// goroutine (not for time, the OS or the scheduler).
var blockedStates = []string{"chan receive", "chan send", "select", "sync.Cond.Wait", "sync.Mutex.Lock", "sync.RWMutex.RLock", "sync.RWMutex.Lock", "semacquire", "sync.WaitGroup.Wait"}

// DeadlockEvidence inspects a dump of all goroutines (runtime.Stack).  The
// goroutines whose stacks mention one of pkgs are "the program".  It reports
// true if none of them can make progress on its own - every one is waiting for
// another goroutine, none is runnable, sleeping, in a system call or waiting
// for I/O - and at least one with a frame of tested (the code under test) has
// been waiting for a minute or more.  The goroutine taking the dump (state
// "running") is not counted.
func DeadlockEvidence(dump string, tested string, pkgs ...string) (bool, string) {
	var stuck []string
	longTested := false
	for _, g := range strings.Split(dump, "\n\n") {
		if !strings.HasPrefix(g, "goroutine ") {
			continue
		}
		rel := strings.Contains(g, tested)
		for _, p := range pkgs {
			rel = rel || strings.Contains(g, p)
		}
		if !rel {
			continue
		}
		head := g
		if i := strings.IndexByte(g, '\n'); i >= 0 {
			head = g[:i]
		}
		lb, rb := strings.IndexByte(head, '['), strings.LastIndexByte(head, ']')
		if lb < 0 || rb < lb {
			return false, ""
		}
		state := head[lb+1 : rb]
		if state == "running" {
			continue
		}
		blocked := false
		for _, b := range blockedStates {
			if strings.HasPrefix(state, b) {
				blocked = true
			}
		}
		if !blocked {
			return false, "" // something can still move
		}
		if strings.Contains(g, tested) && strings.Contains(state, " minutes") {
			longTested = true
		}
		stuck = append(stuck, head)
	}
	if !longTested {
		return false, ""
	}
	return true, strings.Join(stuck, "\n")
}

// Hang runs fn under a watchdog of d (at least a minute is waited in total
// before judging).  It returns whether fn failed to finish, and if so whether
// the goroutine dump is evidence of a deadlock (see DeadlockEvidence).
func Hang(d time.Duration, fn func(), tested string, pkgs ...string) (timedOut, deadlock bool, dump string) {
	start := time.Now()
	timedOut, dump = Watchdog(d, fn)
	if !timedOut {
		return false, false, ""
	}
	if rest := 65*time.Second - time.Since(start); rest > 0 {
		time.Sleep(rest)
	}
	buf := make([]byte, 1<<20)
	dump = string(buf[:runtime.Stack(buf, true)])
	deadlock, _ = DeadlockEvidence(dump, tested, pkgs...)
	return true, deadlock, dump
}
