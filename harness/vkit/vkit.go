// Package vkit holds what every property package shares: the statistics
// collector behind the evidence files, replay-file IO, the known-findings
// matcher and JSON comparison helpers.
package vkit

import (
	"bytes"
	"crypto/sha256"
	"encoding/hex"
	"encoding/json"
	"fmt"
	"math/big"
	"os"
	"path/filepath"
	"runtime"
	"sort"
	"strconv"
	"strings"
	"sync"
	"testing"
)

// Violation is one oracle failure.  Sig is the signature matched against
// known_findings.txt ("" = never matches a known finding).
type Violation struct {
	Sig string `json:"sig,omitempty"`
	Msg string `json:"msg"`
}

func (v Violation) Error() string {
	if v.Sig != "" {
		return "[" + v.Sig + "] " + v.Msg
	}
	return v.Msg
}

func Violf(sig, format string, args ...any) *Violation {
	return &Violation{Sig: sig, Msg: fmt.Sprintf(format, args...)}
}

// Stats is what one test function of one process contributes to evidence.
type Stats struct {
	Property    string            `json:"property"`
	Test        string            `json:"test"`
	Evaluations int               `json:"evaluations"`
	Nontrivial  int               `json:"nontrivial"`
	Hashes      []string          `json:"hashes"` // distinct non-trivial case hashes
	Classes     map[string]int    `json:"classes"`
	Excluded    map[string]int    `json:"excluded"`
	Known       map[string]int    `json:"known"` // known-finding signature -> times re-observed
	KnownDesc   map[string]string `json:"known_desc"`
	Samples     []any             `json:"samples"`
	Exhaustive  bool              `json:"exhaustive"`
	Rule        string            `json:"rule"`
	Notes       []string          `json:"notes,omitempty"`
}

// Collector accumulates Stats; safe for concurrent use.
type Collector struct {
	mu     sync.Mutex
	s      Stats
	hashes map[string]struct{}
	maxS   int
}

var (
	collMu     sync.Mutex
	collectors []*Collector
)

// NewCollector registers a collector flushed by Flush (call from TestMain).
func NewCollector(property, test, rule string) *Collector {
	c := &Collector{hashes: map[string]struct{}{}, maxS: 4}
	c.s = Stats{Property: property, Test: test, Rule: rule,
		Classes: map[string]int{}, Excluded: map[string]int{}, Known: map[string]int{}, KnownDesc: map[string]string{}}
	collMu.Lock()
	collectors = append(collectors, c)
	collMu.Unlock()
	return c
}

func HashOf(v any) string {
	b, err := json.Marshal(v)
	if err != nil {
		b = []byte(fmt.Sprintf("%#v", v))
	}
	h := sha256.Sum256(b)
	return hex.EncodeToString(h[:8])
}

// Record one executed case.  c is the JSON-serialisable case.
func (c *Collector) Record(cs any, nontrivial bool, classes ...string) {
	c.mu.Lock()
	defer c.mu.Unlock()
	c.s.Evaluations++
	for _, k := range classes {
		c.s.Classes[k]++
	}
	if nontrivial {
		c.s.Nontrivial++
		h := HashOf(cs)
		if _, ok := c.hashes[h]; !ok {
			c.hashes[h] = struct{}{}
			if len(c.s.Samples) < c.maxS {
				c.s.Samples = append(c.s.Samples, cs)
			}
		}
	}
}

func (c *Collector) Class(k string, n int) {
	c.mu.Lock()
	c.s.Classes[k] += n
	c.mu.Unlock()
}

func (c *Collector) Exclude(k string, n int) {
	c.mu.Lock()
	c.s.Excluded[k] += n
	c.mu.Unlock()
}

func (c *Collector) Note(s string) {
	c.mu.Lock()
	c.s.Notes = append(c.s.Notes, s)
	c.mu.Unlock()
}

func (c *Collector) SetExhaustive(b bool) {
	c.mu.Lock()
	c.s.Exhaustive = b
	c.mu.Unlock()
}

func (c *Collector) KnownSeen(sig, desc string) {
	c.mu.Lock()
	c.s.Known[sig]++
	c.s.KnownDesc[sig] = desc
	c.mu.Unlock()
}

// Flush writes every collector to $VERIF_OUT (no-op without it).
func Flush() {
	dir := os.Getenv("VERIF_OUT")
	if dir == "" {
		return
	}
	collMu.Lock()
	defer collMu.Unlock()
	for i, c := range collectors {
		c.mu.Lock()
		c.s.Hashes = []string{}
		for h := range c.hashes {
			c.s.Hashes = append(c.s.Hashes, h)
		}
		sort.Strings(c.s.Hashes)
		b, _ := json.Marshal(c.s)
		c.mu.Unlock()
		name := fmt.Sprintf("stats-%s-%d-%d.json", c.s.Test, os.Getpid(), i)
		_ = os.WriteFile(filepath.Join(dir, name), b, 0o644)
	}
}

// Main is the TestMain body shared by all property packages.
func Main(m *testing.M) {
	code := m.Run()
	Flush()
	os.Exit(code)
}

// ---------------------------------------------------------------------------
// replay files

// Replay is the on-disk form of a failing case.
type Replay struct {
	Property string          `json:"property"`
	Test     string          `json:"test"`
	Case     json.RawMessage `json:"case"`
	Error    string          `json:"error,omitempty"`
	Sig      string          `json:"sig,omitempty"`
}

// SaveFail records a failing case; the last one written during shrinking is
// the minimal one.  Written to $VERIF_OUT/fail-<test>.json.
func SaveFail(property, test string, cs any, v *Violation) {
	dir := os.Getenv("VERIF_OUT")
	if dir == "" {
		return
	}
	cb, _ := json.Marshal(cs)
	r := Replay{Property: property, Test: test, Case: cb, Error: v.Msg, Sig: v.Sig}
	b, _ := json.MarshalIndent(r, "", " ")
	_ = os.WriteFile(filepath.Join(dir, "fail-"+test+".json"), b, 0o644)
}

// SaveCurrent records the case about to run (for checks where a failure kills
// the process).  Written to $VERIF_OUT/cur-<test>.json.
func SaveCurrent(property, test string, cs any) {
	dir := os.Getenv("VERIF_OUT")
	if dir == "" {
		return
	}
	cb, _ := json.Marshal(cs)
	r := Replay{Property: property, Test: test, Case: cb}
	b, _ := json.Marshal(r)
	_ = os.WriteFile(filepath.Join(dir, "cur-"+test+".json"), b, 0o644)
}

// LoadReplay reads $VERIF_REPLAY; ok=false when unset.
func LoadReplay() (r Replay, ok bool, err error) {
	p := os.Getenv("VERIF_REPLAY")
	if p == "" {
		return r, false, nil
	}
	b, err := os.ReadFile(p)
	if err != nil {
		return r, true, err
	}
	err = json.Unmarshal(b, &r)
	return r, true, err
}

// ---------------------------------------------------------------------------
// known findings

type knownEntry struct {
	property, key, desc string
}

var (
	knownOnce sync.Once
	known     []knownEntry
)

func loadKnown() {
	p := os.Getenv("VERIF_KNOWN")
	if p == "" {
		p = "/verif/known_findings.txt"
	}
	b, err := os.ReadFile(p)
	if err != nil {
		return
	}
	for _, line := range strings.Split(string(b), "\n") {
		line = strings.TrimSpace(line)
		if !strings.HasPrefix(line, "known:") {
			continue
		}
		var e knownEntry
		rest := strings.Fields(strings.TrimPrefix(line, "known:"))
		var desc []string
		for _, f := range rest {
			switch {
			case strings.HasPrefix(f, "property=") && e.property == "":
				e.property = strings.TrimPrefix(f, "property=")
			case strings.HasPrefix(f, "key=") && e.key == "":
				e.key = strings.TrimPrefix(f, "key=")
			default:
				desc = append(desc, f)
			}
		}
		e.desc = strings.Join(desc, " ")
		if e.property != "" && e.key != "" {
			known = append(known, e)
		}
	}
}

// IsKnown reports whether (property, sig) is listed as a known finding.
func IsKnown(property, sig string) (desc string, ok bool) {
	knownOnce.Do(loadKnown)
	if sig == "" {
		return "", false
	}
	for _, e := range known {
		if e.property == property && e.key == sig {
			return e.desc, true
		}
	}
	return "", false
}

// Judge splits violations into known (recorded in the collector) and new.
// It returns the first new violation or nil.
func (c *Collector) Judge(vs []*Violation) *Violation {
	var first *Violation
	for _, v := range vs {
		if v == nil {
			continue
		}
		if desc, ok := IsKnown(c.s.Property, v.Sig); ok {
			c.KnownSeen(v.Sig, desc)
			continue
		}
		if first == nil {
			first = v
		}
	}
	return first
}

// ---------------------------------------------------------------------------
// JSON comparison: documents compared structurally, numbers by exact decimal
// value.

func JSONEqual(a, b []byte) bool {
	va, err1 := decodeJSON(a)
	vb, err2 := decodeJSON(b)
	if err1 != nil || err2 != nil {
		return false
	}
	return jsonValEq(va, vb)
}

func decodeJSON(b []byte) (any, error) {
	d := json.NewDecoder(bytes.NewReader(b))
	d.UseNumber()
	var v any
	if err := d.Decode(&v); err != nil {
		return nil, err
	}
	if d.More() {
		return nil, fmt.Errorf("trailing data")
	}
	return v, nil
}

func jsonValEq(a, b any) bool {
	switch x := a.(type) {
	case nil:
		return b == nil
	case bool:
		y, ok := b.(bool)
		return ok && x == y
	case string:
		y, ok := b.(string)
		return ok && x == y
	case json.Number:
		y, ok := b.(json.Number)
		if !ok {
			return false
		}
		if x == y {
			return true
		}
		rx, ok1 := new(big.Rat).SetString(string(x))
		ry, ok2 := new(big.Rat).SetString(string(y))
		return ok1 && ok2 && rx.Cmp(ry) == 0
	case []any:
		y, ok := b.([]any)
		if !ok || len(x) != len(y) {
			return false
		}
		for i := range x {
			if !jsonValEq(x[i], y[i]) {
				return false
			}
		}
		return true
	case map[string]any:
		y, ok := b.(map[string]any)
		if !ok || len(x) != len(y) {
			return false
		}
		for k, vx := range x {
			vy, ok := y[k]
			if !ok || !jsonValEq(vx, vy) {
				return false
			}
		}
		return true
	}
	return false
}

// Tier returns "quick" or "thorough".
func Tier() string {
	if os.Getenv("VERIF_TIER") == "thorough" {
		return "thorough"
	}
	return "quick"
}

// Goid returns the current goroutine's id (used only to tell the publishing
// goroutine from goroutines started by asynchronous dispatch).
func Goid() uint64 {
	var buf [64]byte
	n := runtime.Stack(buf[:], false)
	// "goroutine 123 ["
	var id uint64
	for _, ch := range buf[10:n] {
		if ch < '0' || ch > '9' {
			break
		}
		id = id*10 + uint64(ch-'0')
	}
	return id
}

// Shard returns this process's shard index and the number of shards (for
// enumerators that split their space over processes).
func Shard() (int, int) {
	sh, _ := strconv.Atoi(os.Getenv("VERIF_SHARD"))
	n, _ := strconv.Atoi(os.Getenv("VERIF_SHARDS"))
	if n <= 0 {
		return 0, 1
	}
	return sh % n, n
}
