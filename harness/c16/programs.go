//go:build verif

package c16

import (
	"encoding/json"
	"fmt"
	"runtime"
	"sort"
	"strings"
	"sync"

	eventbus "github.com/jilio/ebu"
	"pgregory.net/rapid"
	"verif/vkit"
)

// ProgCase: 2-3 goroutines each run a short program of registrations and
// clears (ClearUpcasts, ClearUpcastsForType) against one bus, after a
// sequential setup that may include a wide fan-out from the first name (many
// upcasters of one source type).  The registry calls are linearizable: there
// is an interleaving of the programs, each in its own order, under which the
// sequential model (accept iff names valid and the target does not already
// reach the source) gives every registration the answer it got AND leaves
// the graph that the probes see afterwards - every ordered pair of names is
// then registered once, sequentially, on the real bus and on the model.
// A cycle, a cleared edge that came back or an accepted edge that vanished
// makes some probe answer differently from every candidate.
type ProgCase struct {
	NName  int    `json:"nnames"`
	Setup  []Op   `json:"setup"`
	FanOut int    `json:"fan_out,omitempty"` // extra setup edges Names[0] -> leaf-i
	Tasks  [][]Op `json:"tasks"`
	// Spam > 0: one more goroutine registers Spam upcasters Names[0] ->
	// spam-j while the programs run.  Their targets are leaves, so each of
	// them is accepted wherever it lands and none changes what any other
	// call or probe is answered: the model leaves them out.
	Spam  int `json:"spam,omitempty"`
	Procs int `json:"procs"`
	Rounds int    `json:"rounds"`
}

func GenProg(t *rapid.T) *ProgCase {
	c := &ProgCase{NName: rapid.IntRange(2, 4).Draw(t, "nnames"), Procs: rapid.SampledFrom([]int{2, 4, 16}).Draw(t, "procs"), Rounds: 40}
	names := Names[:c.NName]
	c.FanOut = rapid.SampledFrom([]int{0, 0, 40, 300}).Draw(t, "fanOut")
	c.Spam = rapid.SampledFrom([]int{0, 0, 60, 400}).Draw(t, "spam")
	n := rapid.IntRange(0, 3).Draw(t, "nsetup")
	for i := 0; i < n; i++ {
		c.Setup = append(c.Setup, Op{K: "reg", From: rapid.SampledFrom(names).Draw(t, "from"), To: rapid.SampledFrom(names).Draw(t, "to"), F: "faithful"})
	}
	nt := rapid.IntRange(2, 3).Draw(t, "ntasks")
	total := 0
	for ti := 0; ti < nt; ti++ {
		k := rapid.IntRange(1, 3).Draw(t, "nops")
		if total+k > 6 {
			k = 6 - total
		}
		if k <= 0 {
			break
		}
		total += k
		var ops []Op
		for i := 0; i < k; i++ {
			switch rapid.IntRange(0, 5).Draw(t, "kind") {
			case 0:
				ops = append(ops, Op{K: "clear"})
			case 1, 2:
				ops = append(ops, Op{K: "cleartype", From: rapid.SampledFrom(names).Draw(t, "ct")})
			default:
				ops = append(ops, Op{K: "reg", From: rapid.SampledFrom(names).Draw(t, "from"), To: rapid.SampledFrom(names).Draw(t, "to"), F: "faithful"})
			}
		}
		c.Tasks = append(c.Tasks, ops)
	}
	return c
}

func cloneGraph(g map[string][]string) map[string][]string {
	out := make(map[string][]string, len(g))
	for k, v := range g {
		out[k] = append([]string(nil), v...)
	}
	return out
}

// applyModel applies op to g and returns "1"/"0" for registrations, "-" otherwise.
func applyModel(g map[string][]string, op Op) string {
	switch op.K {
	case "clear":
		for k := range g {
			delete(g, k)
		}
		return "-"
	case "cleartype":
		delete(g, op.From)
		return "-"
	}
	if accept(g, op) {
		g[op.From] = append(g[op.From], op.To)
		return "1"
	}
	return "0"
}

func probes(names []string) []Op {
	var ps []Op
	for _, f := range names {
		for _, t := range names {
			if f != t {
				ps = append(ps, Op{K: "reg", From: f, To: t, F: "faithful"})
			}
		}
	}
	return ps
}

func RunProg(c *ProgCase) *vkit.Outcome {
	var res *vkit.Outcome
	run := func() { res = runProg(c) }
	if timedOut, dump := vkit.Watchdog(120e9, run); timedOut {
		o := &vkit.Outcome{}
		if len(dump) > 6000 {
			dump = dump[:6000]
		}
		o.Failf("", "racing registry programs %+v did not finish within 120 s; goroutines:\n%s", c.Tasks, dump)
		return o
	}
	return res
}

func runProg(c *ProgCase) *vkit.Outcome {
	o := &vkit.Outcome{}
	if c.Procs > 0 {
		defer runtime.GOMAXPROCS(runtime.GOMAXPROCS(c.Procs))
	}
	names := Names[:c.NName]
	base := map[string][]string{}
	for i := 0; i < c.FanOut; i++ {
		base[names[0]] = append(base[names[0]], fmt.Sprintf("leaf-%d", i))
	}
	for _, op := range c.Setup {
		applyModel(base, op)
	}
	ps := probes(names)
	// every interleaving: results key -> set of probe vectors
	cands := map[string]map[string]bool{}
	pos := make([]int, len(c.Tasks))
	var rec func(g map[string][]string, results [][]string)
	rec = func(g map[string][]string, results [][]string) {
		done := true
		for ti, ops := range c.Tasks {
			if pos[ti] >= len(ops) {
				continue
			}
			done = false
			g2 := cloneGraph(g)
			r := applyModel(g2, ops[pos[ti]])
			results[ti] = append(results[ti], r)
			pos[ti]++
			rec(g2, results)
			pos[ti]--
			results[ti] = results[ti][:len(results[ti])-1]
		}
		if done {
			var parts []string
			for _, r := range results {
				parts = append(parts, strings.Join(r, ""))
			}
			key := strings.Join(parts, "|")
			gp := cloneGraph(g)
			var pv []string
			for _, p := range ps {
				pv = append(pv, applyModel(gp, p))
			}
			if cands[key] == nil {
				cands[key] = map[string]bool{}
			}
			cands[key][strings.Join(pv, "")] = true
		}
	}
	rec(base, make([][]string, len(c.Tasks)))
	f := func(data json.RawMessage) (json.RawMessage, string, error) { return data, "x", nil }
	hasClear, hasReg := false, false
	for _, ops := range c.Tasks {
		for _, op := range ops {
			hasClear = hasClear || op.K != "reg"
			hasReg = hasReg || op.K == "reg"
		}
	}
	for round := 0; round < c.Rounds; round++ {
		bus := eventbus.New()
		for i := 0; i < c.FanOut; i++ {
			eventbus.RegisterUpcastFunc(bus, names[0], fmt.Sprintf("leaf-%d", i), f)
		}
		for _, op := range c.Setup {
			eventbus.RegisterUpcastFunc(bus, op.From, op.To, f)
		}
		results := make([][]string, len(c.Tasks))
		var start, done sync.WaitGroup
		start.Add(1)
		for ti, ops := range c.Tasks {
			done.Add(1)
			go func(ti int, ops []Op) {
				defer done.Done()
				start.Wait()
				for _, op := range ops {
					switch op.K {
					case "clear":
						bus.ClearUpcasts()
						results[ti] = append(results[ti], "-")
					case "cleartype":
						bus.ClearUpcastsForType(op.From)
						results[ti] = append(results[ti], "-")
					default:
						if eventbus.RegisterUpcastFunc(bus, op.From, op.To, f) == nil {
							results[ti] = append(results[ti], "1")
						} else {
							results[ti] = append(results[ti], "0")
						}
					}
				}
			}(ti, ops)
		}
		spamBad := ""
		if c.Spam > 0 {
			done.Add(1)
			go func() {
				defer done.Done()
				start.Wait()
				for j := 0; j < c.Spam; j++ {
					if err := eventbus.RegisterUpcastFunc(bus, names[0], fmt.Sprintf("spam-%d", j), f); err != nil && spamBad == "" {
						spamBad = fmt.Sprintf("registration %s -> spam-%d (a target without upcasters) was rejected: %v", names[0], j, err)
					}
				}
			}()
		}
		start.Done()
		done.Wait()
		if spamBad != "" {
			o.Failf("", "round %d: %s", round, spamBad)
			return o
		}
		var parts []string
		for _, r := range results {
			parts = append(parts, strings.Join(r, ""))
		}
		key := strings.Join(parts, "|")
		want, ok := cands[key]
		if !ok {
			var keys []string
			for k := range cands {
				keys = append(keys, k)
			}
			sort.Strings(keys)
			o.Failf("", "round %d: racing programs %+v (setup %+v, fan-out %d) got the answers %s (1 accepted, 0 rejected, - clear; one group per goroutine); no interleaving of the programs gives these answers under the sequential rule (possible: %v)", round, c.Tasks, c.Setup, c.FanOut, key, keys)
			return o
		}
		var pv []string
		for _, p := range ps {
			if eventbus.RegisterUpcastFunc(bus, p.From, p.To, f) == nil {
				pv = append(pv, "1")
			} else {
				pv = append(pv, "0")
			}
		}
		got := strings.Join(pv, "")
		if !want[got] {
			var ws []string
			for k := range want {
				ws = append(ws, k)
			}
			sort.Strings(ws)
			o.Failf("", "round %d: racing programs %+v (setup %+v, fan-out %d) got the answers %s; registering every ordered pair of %v afterwards, in order, was answered %s, but every interleaving that explains the programs' answers leaves a graph on which the probes are answered %v: the registry holds an edge that was cleared, lacks one that was accepted, or contains a cycle", round, c.Tasks, c.Setup, c.FanOut, key, names, got, ws)
			return o
		}
	}
	if hasClear && hasReg {
		o.Nontrivial = true
		o.Class("registrations_racing_with_clears")
	}
	if c.FanOut > 0 {
		o.Class("wide_fan_out_from_one_source_type")
	}
	if c.Spam > 0 {
		o.Class("stream_of_leaf_registrations_beside_the_programs")
	}
	return o
}
