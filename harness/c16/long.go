//go:build verif

package c16

import (
	"encoding/json"
	"fmt"

	eventbus "github.com/jilio/ebu"
	"pgregory.net/rapid"
	"verif/vkit"
)

// LongCase: a chain n0 -> n1 -> ... -> nL is registered (in a drawn order),
// then a list of further edges is tried: an edge from level a to level b is a
// back edge if b < a (its target reaches its source along the chain: must be
// rejected, however long the path), a forward or skip edge if b > a
// (acyclic: must be accepted), a self edge if a == b (rejected).
type LongCase struct {
	L       int      `json:"l"`
	Reverse bool     `json:"reverse,omitempty"` // the chain is registered newest step first
	Tries   [][2]int `json:"tries"`
}

func GenLong(t *rapid.T) *LongCase {
	c := &LongCase{L: rapid.SampledFrom([]int{3, 9, 31, 32, 33, 34, 40, 70, 130}).Draw(t, "l"), Reverse: rapid.Bool().Draw(t, "reverse")}
	n := rapid.IntRange(1, 6).Draw(t, "ntries")
	for i := 0; i < n; i++ {
		a := rapid.IntRange(0, c.L).Draw(t, "a")
		b := rapid.IntRange(0, c.L).Draw(t, "b")
		if rapid.IntRange(0, 2).Draw(t, "far") == 0 {
			// the longest spans: from the end of the chain back to its start
			a, b = c.L-rapid.IntRange(0, 2).Draw(t, "da"), rapid.IntRange(0, 2).Draw(t, "db")
			if a < 0 {
				a = 0
			}
		}
		c.Tries = append(c.Tries, [2]int{a, b})
	}
	return c
}

func RunLong(c *LongCase) *vkit.Outcome {
	o := &vkit.Outcome{}
	bus := eventbus.New(eventbus.WithStore(eventbus.NewMemoryStore()))
	nm := func(i int) string { return fmt.Sprintf("n%d", i) }
	up := func(to string) eventbus.UpcastFunc {
		return func(d json.RawMessage) (json.RawMessage, string, error) { return d, to, nil }
	}
	for k := 0; k < c.L; k++ {
		step := k
		if c.Reverse {
			step = c.L - 1 - k
		}
		if err := eventbus.RegisterUpcastFunc(bus, nm(step), nm(step+1), up(nm(step+1))); err != nil {
			o.Failf("", "registering step %d of an acyclic chain of %d failed: %v", step, c.L, err)
			return o
		}
	}
	// reach[a][b]: b reachable from a through accepted edges (chain + accepted tries)
	extra := map[int][]int{}
	var reaches func(from, to int, seen map[int]bool) bool
	reaches = func(from, to int, seen map[int]bool) bool {
		if from == to {
			return true
		}
		if seen[from] {
			return false
		}
		seen[from] = true
		if from < c.L && reaches(from+1, to, seen) {
			return true
		}
		for _, n := range extra[from] {
			if reaches(n, to, seen) {
				return true
			}
		}
		return false
	}
	long := false
	for _, tr := range c.Tries {
		a, b := tr[0], tr[1]
		wantReject := a == b || reaches(b, a, map[int]bool{})
		err := eventbus.RegisterUpcastFunc(bus, nm(a), nm(b), up(nm(b)))
		if (err != nil) != wantReject {
			o.Failf("", "chain of %d steps: RegisterUpcastFunc(%s -> %s) returned %v; the target %s the source through registered upcasters, so the registration must be %s", c.L, nm(a), nm(b), err, map[bool]string{true: "already reaches", false: "does not reach"}[wantReject], map[bool]string{true: "rejected", false: "accepted"}[wantReject])
			return o
		}
		if err == nil {
			extra[a] = append(extra[a], b)
		}
		if wantReject && a-b > 32 {
			long = true
		}
	}
	if long {
		o.Nontrivial = true
		o.Class("back_edge_spanning_more_than_32_steps")
	}
	return o
}
