//go:build verif

package c16

import (
	eventbus "github.com/jilio/ebu"
)

// Go event types whose custom names are the names of the case (and one whose
// name is empty, and a second type that shares the first name): registrations
// made through the typed API RegisterUpcast[From, To] are judged by the same
// rule as registrations made by name.
type tyN0 struct{ X int }
type tyN0b struct{ Y int } // another Go type with the same name as tyN0
type tyN1 struct{ X int }
type tyN2 struct{ X int }
type tyN3 struct{ X int }
type tyN4 struct{ X int }
type tyEmpty struct{ X int }

func (tyN0) EventTypeName() string    { return Names[0] }
func (tyN0b) EventTypeName() string   { return Names[0] }
func (tyN1) EventTypeName() string    { return Names[1] }
func (tyN2) EventTypeName() string    { return Names[2] }
func (tyN3) EventTypeName() string    { return Names[3] }
func (tyN4) EventTypeName() string    { return Names[4] }
func (tyEmpty) EventTypeName() string { return "" }

// typedStep is what every typed upcaster does besides converting.
func (h *harness) typedStep(idx int, from string) {
	if h.applied != nil {
		h.applied[idx] = true
	}
	h.calls++
	if h.calls > h.budget {
		panic(stop{from})
	}
}

func regTo[F any](h *harness, from, to string, idx int) (error, bool) {
	switch to {
	case Names[0]:
		return eventbus.RegisterUpcast(h.bus, func(F) tyN0 { h.typedStep(idx, from); return tyN0{} }), true
	case Names[1]:
		return eventbus.RegisterUpcast(h.bus, func(F) tyN1 { h.typedStep(idx, from); return tyN1{} }), true
	case Names[2]:
		return eventbus.RegisterUpcast(h.bus, func(F) tyN2 { h.typedStep(idx, from); return tyN2{} }), true
	case Names[3]:
		return eventbus.RegisterUpcast(h.bus, func(F) tyN3 { h.typedStep(idx, from); return tyN3{} }), true
	case Names[4]:
		return eventbus.RegisterUpcast(h.bus, func(F) tyN4 { h.typedStep(idx, from); return tyN4{} }), true
	case "":
		return eventbus.RegisterUpcast(h.bus, func(F) tyEmpty { h.typedStep(idx, from); return tyEmpty{} }), true
	}
	return nil, false
}

// regTyped registers from -> to through RegisterUpcast with Go types carrying
// those names; ok is false when a name has no Go type.  A registration of a
// name onto itself uses two different Go types that share the name when idx is
// odd, and RegisterUpcast[T, T] otherwise.
func (h *harness) regTyped(from, to string, idx int) (err error, ok bool) {
	switch from {
	case Names[0]:
		if to == from && idx%2 == 1 {
			return regTo[tyN0b](h, from, to, idx)
		}
		return regTo[tyN0](h, from, to, idx)
	case Names[1]:
		return regTo[tyN1](h, from, to, idx)
	case Names[2]:
		return regTo[tyN2](h, from, to, idx)
	case Names[3]:
		return regTo[tyN3](h, from, to, idx)
	case Names[4]:
		return regTo[tyN4](h, from, to, idx)
	case "":
		return regTo[tyEmpty](h, from, to, idx)
	}
	return nil, false
}
