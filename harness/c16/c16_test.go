//go:build verif

package c16

import (
	"testing"

	"verif/vkit"
)

var collSeq = vkit.NewCollector("C16", "TestSequences", "sequences of 1-14 RegisterUpcastFunc / ClearUpcasts / ClearUpcastsForType over 2-5 type names (and the empty name) with upcasters that are nil, faithful, failing, or return another name of the set (incl. their own source). Oracle: accepted <=> both names non-empty, different, function non-nil and the target does not reach the source in a reference graph (BFS); after every step one stored event of every name is replayed with upcasting and must terminate (harness upcasters abort with a sentinel panic after |names|+2 applications to one event). Non-trivial = a registration rejected for a transitive path, or a non-faithful upcaster registered.")
var collPair = vkit.NewCollector("C16", "TestConcurrentPairs", "two registrations issued concurrently after 0-4 set-up registrations (barrier start, 50 rounds, race detector, drawn GOMAXPROCS), biased to A and its reverse; oracle = the two results equal those of one of the two serial orders. Non-trivial = the serial orders give different results.")
var collEnum = vkit.NewCollector("C16", "TestEnumSmall", "complete enumeration of every sequence of up to 3 (quick) / 4 (thorough, sharded) registrations over 3 names with upcasters from {faithful, returns-its-own-source}, and of every sequence of up to 5 (quick) / 7 (thorough) operations from {reg a->b, reg b->a, reg a->a, ClearUpcasts, ClearUpcastsForType(a), ClearUpcastsForType(b)} over 2 names; same oracle.")

var collDuring = vkit.NewCollector("C16", "TestReplayWhileWriting", "a registry writer arrives while an upcasting replay is inside an upcast function: 1-6 set-up registrations over 2-5 names (faithful, failing - biased -, type-deviating upcasters), one stored event per name; the k-th upcaster application starts RegisterUpcastFunc (unrelated names) / ClearUpcasts / ClearUpcastsForType on another goroutine, lingers 0-2 ms without synchronising with it and then returns or fails as registered; upcast error handler installed or not; race detector on. Oracle: the replay and the writer both return (a hang must reproduce twice), no upcaster budget overrun, every stored event reaches the callback once. Non-trivial = the writer was started.")

var collLong = vkit.NewCollector("C16", "TestLongChains", "a chain n0->n1->...->nL of 3-130 steps registered oldest- or newest-first, then 1-6 further registrations between drawn levels (biased to the longest spans, from the end of the chain back to its start). Oracle = reachability over the chain and the accepted extra edges: a registration is rejected exactly when source == target or the target already reaches the source, however long that path is. Non-trivial = a back edge spanning more than 32 steps.")

func TestLongChains(t *testing.T) { vkit.Check(t, collLong, GenLong, RunLong) }

var collProg = vkit.NewCollector("C16", "TestRacingPrograms", "2-3 goroutines each run 1-3 operations (RegisterUpcastFunc, ClearUpcasts, ClearUpcastsForType; at most 6 in all) over 2-4 names against one bus after a sequential setup of 0-3 registrations and a fan-out of 0/40/300 further upcasters from the first name (barrier start, 40 rounds on fresh buses, race detector, drawn GOMAXPROCS). Oracle: linearizability against the sequential rule - all interleavings of the programs are enumerated in the model; the answers the registrations got must be those of some interleaving, and registering every ordered pair of names afterwards (on the real bus, sequentially) must be answered as on the graph that one of those interleavings leaves. Non-trivial = registrations race with clears.")

func TestMain(m *testing.M) { vkit.Main(m) }

func TestRacingPrograms(t *testing.T) { vkit.Check(t, collProg, GenProg, RunProg) }

func TestSequences(t *testing.T)          { vkit.Check(t, collSeq, Gen, Run) }
func TestReplayWhileWriting(t *testing.T) { vkit.Check(t, collDuring, GenDuring, RunDuring) }
func TestConcurrentPairs(t *testing.T)    { vkit.Check(t, collPair, GenPair, RunPair) }

func TestEnumSmall(t *testing.T) {
	maxLen := 3
	if vkit.Tier() == "thorough" {
		maxLen = 4
	}
	shard, shards := vkit.Shard()
	i := 0
	EnumSmall(3, maxLen, func(c *Case) {
		i++
		if i%shards != shard {
			return
		}
		if v := collEnum.Account(c, Run(c)); v != nil {
			vkit.SaveFail("C16", "TestEnumSmall", c, v)
			t.Fatalf("%s", v.Error())
		}
	})
	// sequences with clears over two names (registrations after a clear must
	// be judged against the registry as it is then)
	clearLen := 5
	if vkit.Tier() == "thorough" {
		clearLen = 7
	}
	EnumClears(clearLen, func(c *Case) {
		i++
		if i%shards != shard {
			return
		}
		if v := collEnum.Account(c, Run(c)); v != nil {
			vkit.SaveFail("C16", "TestEnumSmall", c, v)
			t.Fatalf("%s", v.Error())
		}
	})
	collEnum.SetExhaustive(true)
}

func TestReplay(t *testing.T) {
	r := vkit.NeedReplay(t)
	_ = vkit.ReplayCase(t, r, collSeq, Run) || vkit.ReplayCase(t, r, collEnum, Run) || vkit.ReplayCase(t, r, collPair, RunPair) || vkit.ReplayCase(t, r, collProg, RunProg) || vkit.ReplayCase(t, r, collDuring, RunDuring) || vkit.ReplayCase(t, r, collLong, RunLong)
}
