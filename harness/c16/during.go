//go:build verif

package c16

import (
	"context"
	"encoding/json"
	"errors"
	"fmt"
	"sync/atomic"
	"time"

	eventbus "github.com/jilio/ebu"
	"verif/vkit"
)

// DuringCase: a registry writer arrives while an upcasting replay is inside
// an upcast function.  Setup registrations build a graph over Names (with
// faithful, failing and type-deviating upcasters); one event of every name is
// stored; during the replay, the At-th upcaster application starts the writer
// operation W on another goroutine, gives it DelayUs to reach the registry,
// and then returns normally.  Termination: the replay and the writer both
// return and every stored event reaches the callback once.
type DuringCase struct {
	Setup []Op `json:"setup"`
	NName int  `json:"nnames"`
	At    int  `json:"at"` // 1-based upcaster application that triggers the writer
	// W: reg (on fresh names x->y) | clear | cleartype.  The configuration
	// setters (SetUpcastErrorHandler, ...) are excluded from concurrent use
	// by C03's statement and are not used as writers.
	W       Op     `json:"w"`
	DelayUs int    `json:"delay_us"` // how long the upcaster lingers after starting the writer
	Handler bool   `json:"handler"`  // an upcast error handler is installed
	Typed   string `json:"via"`      // "replay" (ReplayWithUpcast) or "subscribe" (SubscribeWithReplay)
}

type duringEv struct{}

func RunDuring(c *DuringCase) *vkit.Outcome {
	var res *vkit.Outcome
	run := func() { res = runDuring(c) }
	timedOut, dump := vkit.Watchdog(20*time.Second, run)
	if timedOut {
		// confirm (the scenario is deterministic up to the writer's arrival time)
		again, dump2 := vkit.Watchdog(20*time.Second, run)
		o := &vkit.Outcome{}
		if again {
			if len(dump2) > 6000 {
				dump2 = dump2[:6000]
			}
			o.Failf("", "an upcasting replay with a registry writer (%+v) arriving during upcaster application %d did not terminate within 20 s, twice; setup %+v; goroutines:\n%s", c.W, c.At, c.Setup, dump2)
			return o
		}
		_ = dump
		o.Class("slow_first_run_not_reproduced")
		return o
	}
	return res
}

func runDuring(c *DuringCase) *vkit.Outcome {
	o := &vkit.Outcome{}
	names := Names[:c.NName]
	store := eventbus.NewMemoryStore()
	var opts []eventbus.Option
	opts = append(opts, eventbus.WithStore(store))
	var handlerCalls atomic.Int32
	if c.Handler {
		opts = append(opts, eventbus.WithUpcastErrorHandler(func(string, json.RawMessage, error) { handlerCalls.Add(1) }))
	}
	bus := eventbus.New(opts...)
	for _, n := range names {
		store.Append(context.Background(), &eventbus.Event{Type: n, Data: []byte(`{}`)})
	}
	var calls atomic.Int32
	var perEvent atomic.Int32
	writerDone := make(chan struct{})
	writerStarted := false
	startWriter := func() {
		writerStarted = true
		go func() {
			defer close(writerDone)
			nop := func(d json.RawMessage) (json.RawMessage, string, error) { return d, "y", nil }
			switch c.W.K {
			case "reg":
				eventbus.RegisterUpcastFunc(bus, "x-unrelated", "y", nop)
			case "clear":
				bus.ClearUpcasts()
			case "cleartype":
				bus.ClearUpcastsForType(c.W.From)
			}
		}()
	}
	mk := func(op Op) eventbus.UpcastFunc {
		return func(data json.RawMessage) (json.RawMessage, string, error) {
			if perEvent.Add(1) > int32(len(Names)+2) {
				panic(stop{op.From})
			}
			if int(calls.Add(1)) == c.At {
				startWriter()
				// no synchronisation with the writer on purpose: it either
				// waits for the registry or finishes while this call lingers
				time.Sleep(time.Duration(c.DelayUs) * time.Microsecond)
			}
			switch {
			case op.F == "fail":
				return nil, "", errors.New("upcaster failed")
			case len(op.F) > 4 && op.F[:4] == "ret:":
				return data, op.F[4:], nil
			}
			return data, op.To, nil
		}
	}
	g := map[string][]string{}
	for _, op := range c.Setup {
		if op.K != "reg" || op.F == "nil" {
			continue
		}
		if err := eventbus.RegisterUpcastFunc(bus, op.From, op.To, mk(op)); err == nil {
			g[op.From] = append(g[op.From], op.To)
		}
	}
	seen := 0
	var err error
	nonTerm := ""
	func() {
		defer func() {
			if r := recover(); r != nil {
				if s, ok := r.(stop); ok {
					nonTerm = s.name
					return
				}
				panic(r)
			}
		}()
		err = bus.ReplayWithUpcast(context.Background(), eventbus.OffsetOldest, func(se *eventbus.StoredEvent) error {
			perEvent.Store(0)
			seen++
			return nil
		})
	}()
	if nonTerm != "" {
		o.Failf("", "ReplayWithUpcast keeps applying upcasters (source %q) with writer %+v arriving during application %d; setup %+v", nonTerm, c.W, c.At, c.Setup)
		return o
	}
	if writerStarted {
		<-writerDone
	}
	if err != nil {
		o.Failf("", "ReplayWithUpcast failed: %v (writer %+v during application %d; setup %+v)", err, c.W, c.At, c.Setup)
		return o
	}
	if seen != len(names) {
		o.Failf("", "the callback saw %d of %d stored events (writer %+v during application %d; setup %+v)", seen, len(names), c.W, c.At, c.Setup)
		return o
	}
	if writerStarted {
		o.Nontrivial = true
		o.Class("writer_" + c.W.K + "_arrived_during_an_upcast")
		for _, op := range c.Setup {
			if op.F == "fail" {
				o.Class("with_a_failing_upcaster_registered")
				break
			}
		}
	}
	_ = fmt.Sprint
	return o
}
