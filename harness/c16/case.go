//go:build verif

// Package c16 decides property C16: upcaster registration can never create a
// cycle and upcasting always terminates.
package c16

import (
	"context"
	"encoding/json"
	"errors"
	"fmt"
	"runtime"
	"sync"
	"time"

	eventbus "github.com/jilio/ebu"
	"verif/vkit"
)

// The names are distinct strings that an ad-hoc encoding of a (source, target)
// pair would confuse: "a->b" with "c" and "a" with "b->c" both spell
// "a->b->c".  Each is a type name of its own (any non-empty string is one).
var Names = []string{"a", "b->c", "a->b", "c", "b"}

type Op struct {
	K    string `json:"k"`              // reg clear cleartype
	From string `json:"from,omitempty"` // may be ""
	To   string `json:"to,omitempty"`
	F    string `json:"f,omitempty"` // nil faithful fail ret:<name> typed (registered through RegisterUpcast[From, To] with Go types carrying the names)
}

type Case struct {
	Ops   []Op `json:"ops"`
	NName int  `json:"nnames"` // names in use: Names[:NName]
	// Pre: the leading registrations (up to the first op that is not a
	// registration, at most Pre of them) are given to New as WithUpcast
	// options instead of RegisterUpcastFunc calls.  An option cannot report a
	// rejection; a rejected registration must simply not be there.
	Pre int `json:"pre,omitempty"`
}

type stop struct{ name string }

// reach: BFS in the model graph.
func reach(g map[string][]string, from, to string) bool {
	seen := map[string]bool{from: true}
	q := []string{from}
	for len(q) > 0 {
		x := q[0]
		q = q[1:]
		if x == to {
			return true
		}
		for _, y := range g[x] {
			if !seen[y] {
				seen[y] = true
				q = append(q, y)
			}
		}
	}
	return false
}

func accept(g map[string][]string, op Op) bool {
	if op.From == "" || op.To == "" || op.From == op.To || op.F == "nil" {
		return false
	}
	return !reach(g, op.To, op.From)
}

type harness struct {
	bus    *eventbus.EventBus
	store  *eventbus.MemoryStore
	budget int
	calls  int // upcaster applications for the event being replayed
	// applied[i]: the function registered by op i has been called
	applied map[int]bool
}

func (h *harness) upcaster(op Op, idx ...int) eventbus.UpcastFunc {
	if op.F == "nil" {
		return nil
	}
	return func(data json.RawMessage) (json.RawMessage, string, error) {
		if len(idx) > 0 && h.applied != nil {
			h.applied[idx[0]] = true
		}
		h.calls++
		if h.calls > h.budget {
			panic(stop{op.From})
		}
		// every application changes the payload (a step counter), so that a
		// loop never passes through the same (type, payload) state twice
		out := json.RawMessage(fmt.Sprintf(`{"step":%d}`, h.calls))
		switch {
		case op.F == "fail":
			return nil, "", errors.New("upcaster failed")
		case len(op.F) > 4 && op.F[:4] == "ret:":
			return out, op.F[4:], nil
		}
		return out, op.To, nil
	}
}

// replayAll replays one stored event of every name with upcasting and reports
// non-termination (budget exceeded).
func (h *harness) replayAll() (nonTerminating string, err error) {
	defer func() {
		if r := recover(); r != nil {
			if s, ok := r.(stop); ok {
				nonTerminating = s.name
				return
			}
			panic(r)
		}
	}()
	err = h.bus.ReplayWithUpcast(context.Background(), eventbus.OffsetOldest, func(se *eventbus.StoredEvent) error {
		h.calls = 0
		return nil
	})
	return "", err
}

// Run executes the case under a watchdog: registrations, clears and
// single-goroutine replays never wait for anything, so a run that is still
// going after 20 s - twice - has blocked (a registry lock that was never
// released, for instance).
func Run(c *Case) *vkit.Outcome {
	var res *vkit.Outcome
	if timedOut, _ := vkit.Watchdog(20*time.Second, func() { res = run(c) }); !timedOut {
		return res
	}
	again, dump := vkit.Watchdog(20*time.Second, func() { res = run(c) })
	if !again {
		res.Class("slow_first_run_not_reproduced")
		return res
	}
	if len(dump) > 6000 {
		dump = dump[:6000]
	}
	o := &vkit.Outcome{}
	o.Failf("", "a single-goroutine sequence of upcaster registrations, clears and upcasting replays did not finish within 20 s, twice: ops %+v; goroutines:\n%s", c.Ops, dump)
	return o
}

func run(c *Case) *vkit.Outcome {
	o := &vkit.Outcome{}
	names := Names[:c.NName]
	h := &harness{store: eventbus.NewMemoryStore(), budget: len(Names) + 2, applied: map[int]bool{}}
	g := map[string][]string{}
	transitiveReject, nonFaithfulApplied := false, false
	rejected := map[int]bool{}
	opts := []eventbus.Option{eventbus.WithStore(h.store)}
	pre := 0
	for pre < c.Pre && pre < len(c.Ops) && c.Ops[pre].K == "reg" {
		op := c.Ops[pre]
		opts = append(opts, eventbus.WithUpcast(op.From, op.To, h.upcaster(op, pre)))
		if accept(g, op) {
			g[op.From] = append(g[op.From], op.To)
			if op.F != "faithful" {
				nonFaithfulApplied = true
			}
		} else {
			rejected[pre] = true
		}
		pre++
	}
	h.bus = eventbus.New(opts...)
	for _, n := range names {
		h.store.Append(context.Background(), &eventbus.Event{Type: n, Data: []byte(`{}`)})
	}
	for i, op := range c.Ops {
		if i < pre {
			if i < pre-1 {
				continue
			}
			// all options are in: fall through to the replay check
			op = Op{K: "options"}
		}
		switch op.K {
		case "reg":
			want := accept(g, op)
			var err error
			if typedErr, isTyped := error(nil), false; op.F == "typed" {
				if typedErr, isTyped = h.regTyped(op.From, op.To, i); isTyped {
					err = typedErr
					o.Class("registration_through_the_typed_API")
				}
			}
			if op.F != "typed" {
				err = eventbus.RegisterUpcastFunc(h.bus, op.From, op.To, h.upcaster(op, i))
			}
			if !want {
				rejected[i] = true
			}
			if (err == nil) != want {
				o.Failf("", "op %d: registering %q -> %q (f=%s; typed = through RegisterUpcast with Go types carrying the names, otherwise RegisterUpcastFunc) returned %v; the model %s it (graph %v)", i, op.From, op.To, op.F, err, map[bool]string{true: "accepts", false: "rejects"}[want], g)
				return o
			}
			if want {
				g[op.From] = append(g[op.From], op.To)
				if op.F != "faithful" {
					nonFaithfulApplied = true
				}
			} else if op.From != "" && op.To != "" && op.From != op.To && op.F != "nil" {
				direct := false
				for _, y := range g[op.To] {
					if y == op.From {
						direct = true
					}
				}
				if !direct {
					transitiveReject = true
				}
			}
		case "clear":
			h.bus.ClearUpcasts()
			g = map[string][]string{}
		case "cleartype":
			h.bus.ClearUpcastsForType(op.From)
			delete(g, op.From)
		}
		// the declared graph is acyclic by construction of the model; applying
		// upcasts to every stored type must terminate
		h.calls = 0
		nt, _ := h.replayAll()
		if nt != "" {
			o.Failf("upcast-apply-does-not-terminate", "after op %d %+v: ReplayWithUpcast keeps applying upcasters (more than %d applications for one event, last at source %q); registered graph %v, ops so far %+v", i, op, h.budget, nt, g, c.Ops[:i+1])
			return o
		}
		for ri := range rejected {
			if h.applied[ri] {
				how := "RegisterUpcastFunc returned an error for it"
				if ri < pre {
					how = "it was given as a WithUpcast option"
				}
				o.Failf("", "after op %d: the function of registration %d %+v was applied during an upcasting replay although that registration must be rejected (%s; graph of the accepted registrations %v; first %d ops given as options): a rejected registration is not registered", i, ri, c.Ops[ri], how, g, pre)
				return o
			}
		}
	}
	if pre >= 2 {
		o.Class("two_or_more_registrations_given_as_options")
		for ri := range rejected {
			if ri < pre && c.Ops[ri].From != "" && c.Ops[ri].To != "" && c.Ops[ri].From != c.Ops[ri].To && c.Ops[ri].F != "nil" {
				o.Nontrivial = true
				o.Class("an_option_registration_closes_a_cycle_with_earlier_options")
			}
		}
	}
	if transitiveReject {
		o.Nontrivial = true
		o.Class("rejected_for_transitive_path")
	}
	if nonFaithfulApplied {
		o.Nontrivial = true
		o.Class("non_faithful_upcaster_registered")
	}
	return o
}

// ---------------------------------------------------------------------------
// concurrent pairs

type PairCase struct {
	Setup []Op `json:"setup"`
	A     Op   `json:"a"`
	B     Op   `json:"b"`
	Procs int  `json:"procs"`
}

func RunPair(c *PairCase) *vkit.Outcome {
	o := &vkit.Outcome{}
	if c.Procs > 0 {
		defer runtime.GOMAXPROCS(runtime.GOMAXPROCS(c.Procs))
	}
	serial := func(first, second Op) (bool, bool, map[string][]string) {
		g := map[string][]string{}
		for _, op := range c.Setup {
			if accept(g, op) {
				g[op.From] = append(g[op.From], op.To)
			}
		}
		r1 := accept(g, first)
		if r1 {
			g[first.From] = append(g[first.From], first.To)
		}
		r2 := accept(g, second)
		if r2 {
			g[second.From] = append(g[second.From], second.To)
		}
		return r1, r2, g
	}
	ab1, ab2, _ := serial(c.A, c.B)
	ba2, ba1, _ := serial(c.B, c.A) // ba2: B's result when first, ba1: A's result when second
	differ := ab1 != ba1 || ab2 != ba2
	for round := 0; round < 50; round++ {
		bus := eventbus.New()
		f := func(data json.RawMessage) (json.RawMessage, string, error) { return data, "x", nil }
		for _, op := range c.Setup {
			eventbus.RegisterUpcastFunc(bus, op.From, op.To, f)
		}
		var start, done sync.WaitGroup
		start.Add(1)
		done.Add(2)
		var ra, rb error
		go func() { defer done.Done(); start.Wait(); ra = eventbus.RegisterUpcastFunc(bus, c.A.From, c.A.To, f) }()
		go func() { defer done.Done(); start.Wait(); rb = eventbus.RegisterUpcastFunc(bus, c.B.From, c.B.To, f) }()
		start.Done()
		done.Wait()
		ga, gb := ra == nil, rb == nil
		if !((ga == ab1 && gb == ab2) || (ga == ba1 && gb == ba2)) {
			o.Failf("", "round %d: concurrent registrations %+v and %+v returned accept=%v,%v; serial orders give %v,%v or %v,%v", round, c.A, c.B, ga, gb, ab1, ab2, ba1, ba2)
			return o
		}
	}
	if differ {
		o.Nontrivial = true
		o.Class("serial_orders_differ")
	}
	_ = fmt.Sprint
	return o
}
