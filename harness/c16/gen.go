//go:build verif

package c16

import "pgregory.net/rapid"

func genOp(t *rapid.T, names []string, regOnly bool) Op {
	k := "reg"
	if !regOnly {
		k = rapid.SampledFrom([]string{"reg", "reg", "reg", "reg", "reg", "reg", "clear", "cleartype", "cleartype"}).Draw(t, "k")
	}
	pool := append([]string{}, names...)
	op := Op{K: k}
	switch k {
	case "reg":
		withEmpty := append(append([]string{}, pool...), "")
		op.From = rapid.SampledFrom(withEmpty).Draw(t, "from")
		op.To = rapid.SampledFrom(withEmpty).Draw(t, "to")
		if rapid.IntRange(0, 9).Draw(t, "avoidEmpty") != 0 {
			if op.From == "" {
				op.From = pool[0]
			}
			if op.To == "" {
				op.To = pool[len(pool)-1]
			}
		}
		switch rapid.IntRange(0, 9).Draw(t, "f") {
		case 0:
			op.F = "nil"
		case 1:
			op.F = "fail"
		case 2, 3, 4:
			op.F = "ret:" + rapid.SampledFrom(pool).Draw(t, "ret")
		case 6, 7:
			op.F = "typed"
		case 5:
			op.F = "ret:" + op.From
		default:
			op.F = "faithful"
		}
	case "cleartype":
		op.From = rapid.SampledFrom(pool).Draw(t, "ct")
	}
	return op
}

func Gen(t *rapid.T) *Case {
	c := &Case{NName: rapid.IntRange(2, len(Names)).Draw(t, "nnames")}
	names := Names[:c.NName]
	n := rapid.IntRange(1, 14).Draw(t, "nops")
	for i := 0; i < n; i++ {
		c.Ops = append(c.Ops, genOp(t, names, false))
	}
	if rapid.IntRange(0, 2).Draw(t, "asOptions") == 0 {
		c.Pre = rapid.IntRange(1, n).Draw(t, "pre")
	}
	return c
}

func GenPair(t *rapid.T) *PairCase {
	names := Names[:rapid.IntRange(2, 4).Draw(t, "nnames")]
	c := &PairCase{Procs: rapid.SampledFrom([]int{2, 4, 16}).Draw(t, "procs")}
	n := rapid.IntRange(0, 4).Draw(t, "nsetup")
	for i := 0; i < n; i++ {
		op := genOp(t, names, true)
		op.F = "faithful"
		c.Setup = append(c.Setup, op)
	}
	c.A = genOp(t, names, true)
	c.B = genOp(t, names, true)
	c.A.F, c.B.F = "faithful", "faithful"
	// bias: B is the reverse of A (the racing pair that would close a cycle)
	if rapid.Bool().Draw(t, "reverse") {
		c.B.From, c.B.To = c.A.To, c.A.From
	}
	return c
}

// EnumSmall: every sequence of up to maxLen registrations over nNames names
// with upcasters from {faithful, returns-its-own-source}.
func EnumSmall(nNames, maxLen int, visit func(*Case)) {
	names := Names[:nNames]
	var edges []Op
	for _, f := range names {
		for _, t := range names {
			edges = append(edges, Op{K: "reg", From: f, To: t, F: "faithful"})
			if f != t {
				edges = append(edges, Op{K: "reg", From: f, To: t, F: "ret:" + f})
			}
		}
	}
	var rec func(prefix []Op)
	rec = func(prefix []Op) {
		if len(prefix) > 0 {
			visit(&Case{NName: nNames, Ops: append([]Op{}, prefix...)})
		}
		if len(prefix) == maxLen {
			return
		}
		for _, e := range edges {
			rec(append(prefix, e))
		}
	}
	rec(nil)
}

// EnumClears enumerates every sequence of up to maxLen operations over two
// names drawn from {reg a->b, reg b->a, reg a->a, ClearUpcasts,
// ClearUpcastsForType(a), ClearUpcastsForType(b)} (faithful upcasters).
func EnumClears(maxLen int, visit func(*Case)) {
	a, b := Names[0], Names[1]
	ops := []Op{
		{K: "reg", From: a, To: b, F: "faithful"},
		{K: "reg", From: b, To: a, F: "faithful"},
		{K: "reg", From: a, To: a, F: "faithful"},
		{K: "clear"},
		{K: "cleartype", From: a},
		{K: "cleartype", From: b},
	}
	var rec func(prefix []Op)
	rec = func(prefix []Op) {
		if len(prefix) > 0 {
			visit(&Case{NName: 2, Ops: append([]Op{}, prefix...)})
		}
		if len(prefix) == maxLen {
			return
		}
		for _, e := range ops {
			rec(append(prefix, e))
		}
	}
	rec(nil)
}

func GenDuring(t *rapid.T) *DuringCase {
	c := &DuringCase{NName: rapid.IntRange(2, len(Names)).Draw(t, "nnames"), Handler: rapid.Bool().Draw(t, "handler")}
	names := Names[:c.NName]
	n := rapid.IntRange(1, 6).Draw(t, "nsetup")
	for i := 0; i < n; i++ {
		op := genOp(t, names, true)
		if op.F == "nil" {
			op.F = "fail"
		}
		if rapid.IntRange(0, 2).Draw(t, "failBias") == 0 {
			op.F = "fail"
		}
		c.Setup = append(c.Setup, op)
	}
	c.At = rapid.IntRange(1, 4).Draw(t, "at")
	c.W = Op{K: rapid.SampledFrom([]string{"reg", "reg", "clear", "cleartype"}).Draw(t, "wk")}
	if c.W.K == "cleartype" {
		c.W.From = rapid.SampledFrom(names).Draw(t, "wfrom")
	}
	c.DelayUs = rapid.SampledFrom([]int{0, 200, 2000}).Draw(t, "delay")
	if rapid.IntRange(0, 3).Draw(t, "loopy") == 0 {
		// the very first application belongs to a raw upcaster that sends
		// the event back where it came from, directly or through a second
		// hop, and the writer arrives while that application lingers
		back := Op{K: "reg", From: names[0], To: names[1], F: "ret:" + names[0]}
		if c.NName >= 3 && rapid.Bool().Draw(t, "twoHops") {
			back = Op{K: "reg", From: names[0], To: names[1], F: "faithful"}
			c.Setup = append([]Op{{K: "reg", From: names[1], To: names[2], F: "ret:" + names[0]}}, c.Setup...)
		}
		c.Setup = append([]Op{back}, c.Setup...)
		c.At = 1
		c.DelayUs = rapid.SampledFrom([]int{200, 2000}).Draw(t, "loopyDelay")
	}
	return c
}
