//go:build verif

// Package c20 decides property C20: observability callbacks are balanced,
// nested and truthful - for a recording implementation and for the
// OpenTelemetry implementation.
package c20

import (
	"context"
	"fmt"
	"sync"
	"sync/atomic"
	"time"

	eventbus "github.com/jilio/ebu"
	"verif/busmodel"
	"verif/storekit"
	"verif/vkit"
)

type Ev struct {
	ID int `json:"id"`
}
type BadEv struct {
	ID int      `json:"id"`
	C  chan int `json:"c"`
}

type H struct {
	Ctx     bool   `json:"ctx,omitempty"`
	Async   bool   `json:"async,omitempty"`
	Once    bool   `json:"once,omitempty"`
	Seq     bool   `json:"seq,omitempty"`
	Filter  string `json:"filter,omitempty"`  // "", even, none
	Panic   string `json:"panic,omitempty"`   // "", always, odd
	Cancels bool   `json:"cancels,omitempty"` // synchronous only: cancels the publish context when it runs (async handlers dispatched before it may or may not run)
	// Replay (bus with a store, handler without context): subscribed through
	// SubscribeWithReplay on the empty log - a live subscription that also
	// records its position; one handler pair per invocation like any other.
	Replay bool `json:"replay,omitempty"`
}

type Pub struct {
	Cancelled bool   `json:"cancelled,omitempty"`
	Expired   bool   `json:"expired,omitempty"` // published with a context whose deadline has already passed
	UseCtx    bool   `json:"usectx,omitempty"`
	Any       bool   `json:"any,omitempty"` // published through the static type any (Publish[any])
	Persist   string `json:"persist"`       // ok reject bad (unencodable event) slow (the append takes 3 ms and succeeds) timeout (with ShortTO: the store waits for its context to end and returns its error; otherwise like reject)
}

type Case struct {
	Handlers []H   `json:"handlers"`
	Pubs     []Pub `json:"pubs"`
	Store    bool  `json:"store"`
	Nested   bool  `json:"nested,omitempty"` // the first sync handler publishes a nested event
	// Ambient: further bus options that must not change what observability
	// sees (hooks, persistence timeout of an hour, error handlers, batch size).
	Ambient int `json:"ambient,omitempty"`
	// ShortTO: WithPersistenceTimeout(1ms).  The store does not watch its
	// context, so every append that is not rejected still succeeds, however
	// late, and observability must report it as a success.
	ShortTO bool `json:"short_to,omitempty"`
	// Unsampled (OpenTelemetry run only): the tracer provider does not sample.
	Unsampled bool `json:"unsampled,omitempty"`
}

// truth is what really happened, counted by the harness itself.
type truth struct {
	publishes    int
	entered      atomic.Int32 // handler bodies entered
	enteredAsync atomic.Int32
	panics       atomic.Int32
	appends      int
	appendFails  int
	perMu        sync.Mutex
	perEvent     map[int]int // event id -> handler bodies entered for it
}

func accepts(f string, id int) bool {
	switch f {
	case "none":
		return false
	case "even":
		return id%2 == 0
	}
	return true
}

type tokKey struct{ kind string }

// workload runs the case on a bus with the given observability and returns
// the ground truth.  ctxCheck is called from context-aware handlers.
func workload(c *Case, obs eventbus.Observability, ctxCheck func(ctx context.Context, async bool)) (*truth, *vkit.Outcome) {
	o := &vkit.Outcome{}
	tr := &truth{}
	var opts []eventbus.Option
	var base *storekit.Base
	if c.Store {
		st, b := storekit.Wrap(eventbus.NewMemoryStore(), true, true)
		base = b
		opts = append(opts, eventbus.WithStore(st))
	}
	opts = append(opts, eventbus.WithObservability(obs), eventbus.WithPanicHandler(func(any, any2, any) {}))
	opts = append(opts, busmodel.Ambient(c.Ambient&^(busmodel.AmbObs|busmodel.AmbStore|busmodel.AmbPanicHandler))...)
	if c.ShortTO {
		opts = append(opts, eventbus.WithPersistenceTimeout(time.Millisecond))
	}
	bus := eventbus.New(opts...)

	var nestedDone atomic.Bool
	var cancels sync.Map // event id -> context.CancelFunc
	body := func(hi int, ctx context.Context, id int) {
		h := c.Handlers[hi]
		tr.entered.Add(1)
		tr.perMu.Lock()
		if tr.perEvent == nil {
			tr.perEvent = map[int]int{}
		}
		tr.perEvent[id]++
		tr.perMu.Unlock()
		if h.Cancels && !h.Async {
			if f, ok := cancels.Load(id); ok {
				f.(context.CancelFunc)()
			}
		}
		if h.Async {
			tr.enteredAsync.Add(1)
		}
		if ctx != nil && ctxCheck != nil {
			ctxCheck(ctx, h.Async)
		}
		if c.Nested && !h.Async && !h.Seq && id < 1000 && nestedDone.CompareAndSwap(false, true) {
			eventbus.Publish(bus, Ev{ID: 1000 + id})
		}
		if h.Panic == "always" || (h.Panic == "odd" && id%2 != 0) {
			tr.panics.Add(1)
			panic(panicValue(hi, id))
		}
	}
	for hi, h := range c.Handlers {
		hi := hi
		var so []eventbus.SubscribeOption
		if h.Async {
			so = append(so, eventbus.Async())
		}
		if h.Once {
			so = append(so, eventbus.Once())
		}
		if h.Seq {
			so = append(so, eventbus.Sequential())
		}
		if h.Filter != "" {
			f := h.Filter
			so = append(so, eventbus.WithFilter(func(e Ev) bool { return accepts(f, e.ID) }))
		}
		if h.Ctx {
			eventbus.SubscribeContext(bus, func(ctx context.Context, e Ev) { body(hi, ctx, e.ID) }, so...)
			eventbus.SubscribeContext(bus, func(ctx context.Context, e BadEv) { body(hi, ctx, e.ID) }, so[:0]...)
		} else if h.Replay && c.Store {
			eventbus.SubscribeWithReplay(context.Background(), bus, fmt.Sprintf("c20-%d", hi), func(e Ev) { body(hi, nil, e.ID) }, so...)
		} else {
			eventbus.Subscribe(bus, func(e Ev) { body(hi, nil, e.ID) }, so...)
		}
	}
	appendNo := 0
	reject := map[int]bool{}
	slow := map[int]bool{}
	blocks := map[int]bool{}
	for _, p := range c.Pubs {
		if p.Persist != "bad" {
			appendNo++
			if p.Persist == "reject" || p.Persist == "timeout" {
				reject[appendNo] = true
			}
			if p.Persist == "timeout" && c.ShortTO {
				// the store watches its context: the append ends with the
				// context's error when the persistence timeout expires
				blocks[appendNo] = true
			}
			if p.Persist == "slow" {
				slow[appendNo] = true
			}
		}
	}
	if base != nil {
		base.SetHook(func(op string, n, seq int, _ context.Context) storekit.Action {
			if op == "append" && blocks[n] && !nestedAppend(seq) {
				return storekit.Action{Block: true}
			}
			if op == "append" && reject[n] && !nestedAppend(seq) {
				if n%3 == 2 {
					// the store's own deadline passed: a failed append like any other
					return storekit.Action{Err: fmt.Errorf("store: write timed out: %w (%w)", storekit.ErrInjected, context.DeadlineExceeded)}
				}
				return storekit.Action{Err: storekit.ErrInjected}
			}
			if op == "append" && slow[n] {
				return storekit.Action{Delay: 3 * time.Millisecond}
			}
			return storekit.Action{}
		})
	}
	cctx, cancel := context.WithCancel(context.Background())
	cancel()
	ectx, ecancel := context.WithDeadline(context.Background(), time.Now().Add(-time.Hour))
	defer ecancel()
	for i, p := range c.Pubs {
		id := i + 1
		tr.publishes++
		var ctx context.Context
		if p.Cancelled {
			ctx = cctx
		} else if p.Expired {
			ctx = ectx
		} else if p.UseCtx {
			cctx2, cancel2 := context.WithCancel(context.WithValue(context.Background(), tokKey{"user"}, id))
			cancels.Store(id, cancel2)
			ctx = cctx2
		}
		if p.Persist == "bad" {
			if ctx == nil {
				eventbus.Publish(bus, BadEv{ID: id, C: make(chan int)})
			} else {
				eventbus.PublishContext(bus, ctx, BadEv{ID: id, C: make(chan int)})
			}
		} else {
			switch {
			case p.Any && ctx == nil:
				eventbus.Publish[any](bus, Ev{ID: id})
			case p.Any:
				eventbus.PublishContext[any](bus, ctx, Ev{ID: id})
			case ctx == nil:
				eventbus.Publish(bus, Ev{ID: id})
			default:
				eventbus.PublishContext(bus, ctx, Ev{ID: id})
			}
		}
	}
	bus.Wait()
	if nestedDone.Load() {
		tr.publishes++
	}
	if base != nil {
		base.SetHook(nil)
		tr.appends = base.Appends
		for n := range reject {
			if n <= base.Appends {
				tr.appendFails++
			}
		}
	}
	return tr, o
}

type any2 = reflectType

func nestedAppend(seq int) bool { return false }

// ---------------------------------------------------------------------------
// recording observability

type recEvent struct {
	kind  string // pstart pend hstart hend sstart send
	tok   int
	ptok  int // publish token found in the context given to a start (0 = none)
	err   bool
	async bool
}

type recorder struct {
	mu       sync.Mutex
	next     int
	evs      []recEvent
	pubEvent map[int]int // publish token -> id of the published event
}

func (r *recorder) add(e recEvent) {
	r.mu.Lock()
	r.evs = append(r.evs, e)
	r.mu.Unlock()
}

func (r *recorder) fresh() int {
	r.mu.Lock()
	defer r.mu.Unlock()
	r.next++
	return r.next
}

func tokOf(ctx context.Context, kind string) int {
	v, _ := ctx.Value(tokKey{kind}).(int)
	return v
}

func (r *recorder) OnPublishStart(ctx context.Context, _ string, event any) context.Context {
	t := r.fresh()
	r.add(recEvent{kind: "pstart", tok: t})
	id := -1
	switch e := event.(type) {
	case Ev:
		id = e.ID
	case BadEv:
		id = e.ID
	}
	r.mu.Lock()
	if r.pubEvent == nil {
		r.pubEvent = map[int]int{}
	}
	r.pubEvent[t] = id
	r.mu.Unlock()
	return context.WithValue(ctx, tokKey{"publish"}, t)
}
func (r *recorder) OnPublishComplete(ctx context.Context, _ string) {
	r.add(recEvent{kind: "pend", tok: tokOf(ctx, "publish")})
}
func (r *recorder) OnHandlerStart(ctx context.Context, _ string, async bool) context.Context {
	t := r.fresh()
	r.add(recEvent{kind: "hstart", tok: t, ptok: tokOf(ctx, "publish"), async: async})
	return context.WithValue(ctx, tokKey{"handler"}, t)
}
func (r *recorder) OnHandlerComplete(ctx context.Context, _ time.Duration, err error) {
	r.add(recEvent{kind: "hend", tok: tokOf(ctx, "handler"), ptok: tokOf(ctx, "publish"), err: err != nil})
}
func (r *recorder) OnPersistStart(ctx context.Context, _ string, _ int64) context.Context {
	t := r.fresh()
	r.add(recEvent{kind: "sstart", tok: t, ptok: tokOf(ctx, "publish")})
	return context.WithValue(ctx, tokKey{"persist"}, t)
}
func (r *recorder) OnPersistComplete(ctx context.Context, _ time.Duration, err error) {
	r.add(recEvent{kind: "send", tok: tokOf(ctx, "persist"), ptok: tokOf(ctx, "publish"), err: err != nil})
}

// RunRecording checks the bus against the recording implementation.
func RunRecording(c *Case) *vkit.Outcome {
	rec := &recorder{}
	var ctxFail atomic.Value
	tr, o := workload(c, rec, func(ctx context.Context, async bool) {
		if tokOf(ctx, "handler") == 0 || tokOf(ctx, "publish") == 0 {
			ctxFail.Store(fmt.Sprintf("a context-aware handler (async=%v) received a context without the handler token (%d) or the publish token (%d) returned by the start callbacks", async, tokOf(ctx, "handler"), tokOf(ctx, "publish")))
		}
	})
	if len(o.Viol) > 0 {
		return o
	}
	if s, _ := ctxFail.Load().(string); s != "" {
		o.Failf("", "%s", s)
		return o
	}
	rec.mu.Lock()
	defer rec.mu.Unlock()
	count := map[string]int{}
	starts := map[int]recEvent{}
	ended := map[int]int{}
	pubTokens := map[int]bool{}
	errs := map[string]int{}
	for _, e := range rec.evs {
		count[e.kind]++
		switch e.kind {
		case "pstart":
			pubTokens[e.tok] = true
			starts[e.tok] = e
		case "hstart", "sstart":
			starts[e.tok] = e
			if !pubTokens[e.ptok] {
				o.Failf("", "%s callback received a context that does not descend from a publish start (publish token %d)", e.kind, e.ptok)
				return o
			}
		case "pend", "hend", "send":
			st, ok := starts[e.tok]
			want := map[string]string{"pend": "pstart", "hend": "hstart", "send": "sstart"}[e.kind]
			if !ok || st.kind != want {
				o.Failf("", "%s callback received a context that was not returned by its own start callback (token %d)", e.kind, e.tok)
				return o
			}
			ended[e.tok]++
			if e.kind != "pend" && e.ptok != st.ptok {
				o.Failf("", "%s callback's context carries publish token %d, its start had %d", e.kind, e.ptok, st.ptok)
				return o
			}
			if e.err {
				errs[e.kind]++
			}
		}
	}
	// every handler start belongs to the publish of the event it handled: per
	// event, as many handler starts carry its publish token as handler
	// bodies were entered for it
	startsPerEvent := map[int]int{}
	for _, e := range rec.evs {
		if e.kind == "hstart" {
			startsPerEvent[rec.pubEvent[e.ptok]]++
		}
	}
	tr.perMu.Lock()
	for id, n := range tr.perEvent {
		if startsPerEvent[id] != n {
			o.Failf("", "event %d was handled by %d handler invocations, but %d handler-start callbacks received a context descending from that event's publish start (handler contexts must descend from their own publish context)", id, n, startsPerEvent[id])
			break
		}
	}
	for id, n := range startsPerEvent {
		if tr.perEvent[id] != n && len(o.Viol) == 0 {
			o.Failf("", "%d handler-start callbacks carried the publish context of event %d, which was handled by %d invocations", n, id, tr.perEvent[id])
			break
		}
	}
	tr.perMu.Unlock()
	if len(o.Viol) > 0 {
		return o
	}
	for tok, st := range starts {
		if ended[tok] != 1 {
			o.Failf("", "the %s with token %d was completed %d times, expected exactly once", st.kind, tok, ended[tok])
			return o
		}
	}
	if count["pstart"] != tr.publishes {
		o.Failf("", "%d publishes, %d publish-start callbacks", tr.publishes, count["pstart"])
	}
	if count["hstart"] != int(tr.entered.Load()) {
		o.Failf("", "%d handler bodies were entered, %d handler-start callbacks", tr.entered.Load(), count["hstart"])
	}
	if errs["hend"] != int(tr.panics.Load()) {
		o.Failf("", "%d handlers panicked, %d handler-complete callbacks carried an error", tr.panics.Load(), errs["hend"])
	}
	if count["sstart"] != tr.appends {
		o.Failf("", "%d append attempts, %d persist-start callbacks", tr.appends, count["sstart"])
	}
	if errs["send"] != tr.appendFails {
		o.Failf("", "%d appends failed, %d persist-complete callbacks carried an error", tr.appendFails, errs["send"])
	}
	classify(c, tr, o)
	return o
}

func classify(c *Case, tr *truth, o *vkit.Outcome) {
	skipped := false
	for _, h := range c.Handlers {
		if h.Filter != "" || h.Once {
			skipped = true
		}
	}
	for _, p := range c.Pubs {
		if p.Cancelled || p.Expired {
			skipped = true
		}
		if c.Store && p.Persist != "bad" && p.Persist != "reject" && (c.ShortTO || c.Ambient&busmodel.AmbTimeout != 0) && (p.Expired || (p.Persist == "slow" && c.ShortTO)) {
			o.Class("append_succeeds_after_the_persist_deadline")
		}
	}
	for _, h := range c.Handlers {
		if h.Cancels && !h.Async {
			skipped = true
			o.Class("context_cancelled_by_a_handler_during_dispatch")
			break
		}
	}
	if len(c.Handlers) >= 2 && (tr.panics.Load() > 0 || skipped || tr.appendFails > 0) {
		o.Nontrivial = true
		o.Class("panic_skip_or_failed_append_with_two_handlers")
	}
	if tr.panics.Load() > 0 {
		o.Class("panic")
	}
	if tr.appendFails > 0 {
		o.Class("failed_append")
	}
}

type panicCode int

type panicInfo struct{ H, ID int }

// panicValue: handlers panic with values of many shapes - whatever the value,
// a panic is a failed invocation.
func panicValue(hi, id int) any {
	switch (hi + id) % 9 {
	case 0:
		return fmt.Sprintf("boom %d/%d", hi, id)
	case 1:
		return fmt.Errorf("boom %d/%d", hi, id)
	case 2:
		return 42 + id
	case 3:
		return panicCode(id)
	case 4:
		return panicInfo{hi, id}
	case 5:
		return &panicInfo{hi, id}
	case 6:
		return map[string]int{"h": hi}
	case 7:
		return struct{ Codes []int }{[]int{hi, id}}
	}
	return []byte("boom")
}
