//go:build verif

package c20

import (
	"testing"

	"verif/vkit"
)

const rule = "workloads of 0-6 handlers (plain/context-aware x sync/async x Once x Sequential x filter x panicking always/on odd events), optionally one synchronous handler that cancels the publish context while async deliveries of the same publish are still queued, 1-8 publishes (Publish, live context, already-cancelled context) whose persistence succeeds, is rejected by the store, or has no attempt (unencodable event), optionally a nested publish from a handler. Oracle (recording implementation): one publish/handler/persist start and one complete per publish / handler body entered / append attempt, each complete receives the context returned by its own start, handler and persist contexts descend from the publish context, error flags <=> panic / failed append. Oracle (OpenTelemetry implementation over SDK span recorder, End-counting tracer wrapper, manual metric reader): started == ended, each span ended exactly once, handler and persist spans are children of a publish span, status Error <=> panic/failure, the five counters equal the harness's own counts. Non-trivial = a panic, a skipped handler or a failed append with >=2 handlers."

var collRec = vkit.NewCollector("C20", "TestRecording", rule)
var collOTel = vkit.NewCollector("C20", "TestOTel", rule)

var collStress = vkit.NewCollector("C20", "TestOTelStress", "free-running volume: 200-1500 publishes from each of 1-4 goroutines to 0-4 synchronous handlers that keep the publisher busy for a varying time and 1-2 asynchronous (optionally Sequential) handlers, drawn GOMAXPROCS, with the OpenTelemetry Observability on an SDK span recorder. Oracle after bus.Wait(): every started span ended exactly once (a leaked publish span is named), publish spans = publishes, handler spans = handler runs, handler spans are children of publish spans. Non-trivial = at least one synchronous handler.")

func TestOTelStress(t *testing.T) { vkit.Check(t, collStress, GenStress, RunStress) }

func TestMain(m *testing.M) { vkit.Main(m) }

func TestRecording(t *testing.T) { vkit.Check(t, collRec, Gen, RunRecording) }
func TestOTel(t *testing.T)      { vkit.Check(t, collOTel, Gen, RunOTel) }

func TestReplay(t *testing.T) {
	r := vkit.NeedReplay(t)
	_ = vkit.ReplayCase(t, r, collRec, RunRecording) || vkit.ReplayCase(t, r, collOTel, RunOTel) || vkit.ReplayCase(t, r, collStress, RunStress)
}
