//go:build verif

package c20

import (
	"pgregory.net/rapid"
	"verif/busmodel"
)

func Gen(t *rapid.T) *Case {
	c := &Case{Store: rapid.IntRange(0, 3).Draw(t, "store") != 0, Nested: rapid.IntRange(0, 3).Draw(t, "nested") == 0}
	if rapid.Bool().Draw(t, "hasAmbient") {
		c.Ambient = rapid.IntRange(0, busmodel.AmbAll).Draw(t, "ambient")
	}
	c.ShortTO = c.Store && rapid.IntRange(0, 3).Draw(t, "shortTO") == 0
	c.Unsampled = rapid.IntRange(0, 3).Draw(t, "unsampled") == 0
	nh := rapid.IntRange(0, 6).Draw(t, "nh")
	for i := 0; i < nh; i++ {
		c.Handlers = append(c.Handlers, H{
			Ctx:    rapid.Bool().Draw(t, "ctx"),
			Async:  rapid.IntRange(0, 2).Draw(t, "async") == 0,
			Once:   rapid.IntRange(0, 4).Draw(t, "once") == 0,
			Seq:    rapid.IntRange(0, 4).Draw(t, "seq") == 0,
			Filter: rapid.SampledFrom([]string{"", "", "", "even", "none"}).Draw(t, "filter"),
			Panic:  rapid.SampledFrom([]string{"", "", "", "always", "odd"}).Draw(t, "panic"),
			Replay: rapid.IntRange(0, 3).Draw(t, "replaySub") == 0,
		})
	}
	// one synchronous handler may cancel the publish context (placed anywhere, often last)
	if nh > 0 && rapid.IntRange(0, 2).Draw(t, "canceller") == 0 {
		k := nh - 1
		if rapid.Bool().Draw(t, "cancelAnywhere") {
			k = rapid.IntRange(0, nh-1).Draw(t, "cancelAt")
		}
		c.Handlers[k].Async = false
		c.Handlers[k].Cancels = true
	}
	np := rapid.IntRange(1, 8).Draw(t, "np")
	for i := 0; i < np; i++ {
		p := Pub{Persist: rapid.SampledFrom([]string{"ok", "ok", "ok", "reject", "bad", "slow", "timeout"}).Draw(t, "persist")}
		switch rapid.IntRange(0, 5).Draw(t, "ctxmode") {
		case 5:
			p.Expired = true
		case 0:
			p.Cancelled = true
		case 1, 2:
			p.UseCtx = true
		}
		p.Any = rapid.IntRange(0, 3).Draw(t, "viaAny") == 0
		c.Pubs = append(c.Pubs, p)
	}
	return c
}
