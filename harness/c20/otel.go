//go:build verif

package c20

import (
	"context"
	"fmt"
	"reflect"
	"sort"
	"sync"

	ebuotel "github.com/jilio/ebu/otel"
	"go.opentelemetry.io/otel/codes"
	sdkmetric "go.opentelemetry.io/otel/sdk/metric"
	"go.opentelemetry.io/otel/sdk/metric/metricdata"
	sdktrace "go.opentelemetry.io/otel/sdk/trace"
	"go.opentelemetry.io/otel/sdk/trace/tracetest"
	"go.opentelemetry.io/otel/trace"
	"go.opentelemetry.io/otel/trace/embedded"
	"verif/vkit"
)

type reflectType = reflect.Type

// countingProvider wraps a TracerProvider so that End calls are counted per span.
type countingProvider struct {
	embedded.TracerProvider
	inner trace.TracerProvider
	mu    sync.Mutex
	ends  map[trace.SpanID]int
	// starts: name of every span started through the provider, recording or not
	starts map[trace.SpanID]string
}

func (p *countingProvider) Tracer(name string, opts ...trace.TracerOption) trace.Tracer {
	return &countingTracer{inner: p.inner.Tracer(name, opts...), p: p}
}

type countingTracer struct {
	embedded.Tracer
	inner trace.Tracer
	p     *countingProvider
}

func (t *countingTracer) Start(ctx context.Context, name string, opts ...trace.SpanStartOption) (context.Context, trace.Span) {
	ctx, sp := t.inner.Start(ctx, name, opts...)
	t.p.mu.Lock()
	if t.p.starts != nil {
		t.p.starts[sp.SpanContext().SpanID()] = name
	}
	t.p.mu.Unlock()
	w := &countingSpan{Span: sp, p: t.p}
	return trace.ContextWithSpan(ctx, w), w
}

type countingSpan struct {
	trace.Span
	p *countingProvider
}

func (s *countingSpan) End(opts ...trace.SpanEndOption) {
	s.p.mu.Lock()
	s.p.ends[s.Span.SpanContext().SpanID()]++
	s.p.mu.Unlock()
	s.Span.End(opts...)
}

func sumCounter(rm *metricdata.ResourceMetrics, name string) int64 {
	var total int64
	for _, sm := range rm.ScopeMetrics {
		for _, m := range sm.Metrics {
			if m.Name != name {
				continue
			}
			if s, ok := m.Data.(metricdata.Sum[int64]); ok {
				for _, dp := range s.DataPoints {
					total += dp.Value
				}
			}
		}
	}
	return total
}

// RunOTel checks the bus together with the OpenTelemetry implementation.
func RunOTel(c *Case) *vkit.Outcome {
	recorder := tracetest.NewSpanRecorder()
	sampler := sdktrace.AlwaysSample()
	if c.Unsampled {
		// the trace is not being recorded (a never/ratio sampler, an upstream
		// caller that chose not to sample): spans are non-recording, the
		// metrics count all the same
		sampler = sdktrace.NeverSample()
	}
	tp := sdktrace.NewTracerProvider(sdktrace.WithSpanProcessor(recorder), sdktrace.WithSampler(sampler))
	cp := &countingProvider{inner: tp, ends: map[trace.SpanID]int{}, starts: map[trace.SpanID]string{}}
	reader := sdkmetric.NewManualReader()
	mp := sdkmetric.NewMeterProvider(sdkmetric.WithReader(reader))
	obs, err := ebuotel.New(ebuotel.WithTracerProvider(cp), ebuotel.WithMeterProvider(mp))
	if err != nil {
		o := &vkit.Outcome{}
		o.Failf("", "otel.New: %v", err)
		return o
	}
	tr, o := workload(c, obs, nil)
	if len(o.Viol) > 0 {
		return o
	}
	check := func(what string, got, want int) {
		if got != want {
			o.Failf("", "%s: OpenTelemetry shows %d, the harness counted %d", what, got, want)
		}
	}
	counters := func() {
		var rm metricdata.ResourceMetrics
		if err := reader.Collect(context.Background(), &rm); err != nil {
			o.Failf("", "collecting metrics: %v", err)
			return
		}
		check("counter eventbus.publish.count", int(sumCounter(&rm, "eventbus.publish.count")), tr.publishes)
		check("counter eventbus.handler.count", int(sumCounter(&rm, "eventbus.handler.count")), int(tr.entered.Load()))
		check("counter eventbus.handler.errors", int(sumCounter(&rm, "eventbus.handler.errors")), int(tr.panics.Load()))
		check("counter eventbus.persist.count", int(sumCounter(&rm, "eventbus.persist.count")), tr.appends)
		check("counter eventbus.persist.errors", int(sumCounter(&rm, "eventbus.persist.errors")), tr.appendFails)
	}
	if c.Unsampled {
		// nothing is recorded; what was started through the tracer is still
		// ended exactly once, and the counters are the true numbers
		cp.mu.Lock()
		for id, name := range cp.starts {
			if n := cp.ends[id]; n != 1 {
				o.Failf("", "unsampled trace: span %q was ended %d times, expected exactly once", name, n)
				break
			}
		}
		cp.mu.Unlock()
		counters()
		classify(c, tr, o)
		o.Class("trace_not_sampled")
		return o
	}
	started, ended := recorder.Started(), recorder.Ended()
	endedIDs := map[trace.SpanID]sdktrace.ReadOnlySpan{}
	for _, s := range ended {
		endedIDs[s.SpanContext().SpanID()] = s
	}
	publishSpans := map[trace.SpanID]bool{}
	nPub, nHandler, nPersist, errHandler, errPersist := 0, 0, 0, 0, 0
	for _, s := range started {
		id := s.SpanContext().SpanID()
		if _, ok := endedIDs[id]; !ok {
			o.Failf("", "span %q was started but never ended (leak)", s.Name())
			return o
		}
		if n := cp.ends[id]; n != 1 {
			o.Failf("", "span %q was ended %d times, expected exactly once", s.Name(), n)
			return o
		}
		if len(s.Name()) >= 17 && s.Name()[:17] == "eventbus.publish:" {
			publishSpans[id] = true
			nPub++
		}
	}
	if len(started) != len(ended) {
		o.Failf("", "%d spans started, %d ended", len(started), len(ended))
		return o
	}
	for _, s := range ended {
		name := s.Name()
		isHandler := len(name) >= 16 && name[:16] == "eventbus.handler"
		isPersist := len(name) >= 17 && name[:17] == "eventbus.persist:"
		if isHandler || isPersist {
			if !publishSpans[s.Parent().SpanID()] {
				o.Failf("", "span %q is not a child of a publish span (parent %v)", name, s.Parent().SpanID())
				return o
			}
		}
		if isHandler {
			nHandler++
			if s.Status().Code == codes.Error {
				errHandler++
			}
		}
		if isPersist {
			nPersist++
			if s.Status().Code == codes.Error {
				errPersist++
			}
		}
	}
	// handler spans hang under the publish span of the event they handled:
	// the numbers of handler children per publish span are the numbers of
	// handler invocations per published event (compared as multisets, the
	// spans carry no event id)
	children := map[trace.SpanID]int{}
	for id := range publishSpans {
		children[id] = 0
	}
	for _, s := range ended {
		if name := s.Name(); len(name) >= 16 && name[:16] == "eventbus.handler" {
			children[s.Parent().SpanID()]++
		}
	}
	var gotKids, wantKids []int
	for _, n := range children {
		gotKids = append(gotKids, n)
	}
	tr.perMu.Lock()
	for _, n := range tr.perEvent {
		wantKids = append(wantKids, n)
	}
	tr.perMu.Unlock()
	for len(wantKids) < tr.publishes {
		wantKids = append(wantKids, 0)
	}
	sort.Ints(gotKids)
	sort.Ints(wantKids)
	if fmt.Sprint(gotKids) != fmt.Sprint(wantKids) && nPub == tr.publishes {
		o.Failf("", "handler spans per publish span %v, handler invocations per published event %v: handler spans must be children of their own publish span", gotKids, wantKids)
		return o
	}
	check("publish spans", nPub, tr.publishes)
	check("handler spans", nHandler, int(tr.entered.Load()))
	check("handler spans with status Error", errHandler, int(tr.panics.Load()))
	check("persist spans", nPersist, tr.appends)
	check("persist spans with status Error", errPersist, tr.appendFails)
	counters()
	classify(c, tr, o)
	_ = fmt.Sprint
	return o
}
