//go:build verif

package c20

import (
	"context"
	"fmt"
	"runtime"
	"sync"
	"sync/atomic"

	eventbus "github.com/jilio/ebu"
	ebuotel "github.com/jilio/ebu/otel"
	sdktrace "go.opentelemetry.io/otel/sdk/trace"
	"go.opentelemetry.io/otel/sdk/trace/tracetest"
	"go.opentelemetry.io/otel/trace"
	"pgregory.net/rapid"
	"verif/vkit"
)

// StressCase: many publishes in a row (from 1-4 goroutines) to a few
// synchronous handlers that keep the publisher busy for a varying time and
// one or two asynchronous handlers, with the OpenTelemetry Observability
// recording spans - so that asynchronous handler completions land at every
// point of their publish's completion.  Span accounting must balance however
// these overlap: every started span ended exactly once, handler spans under
// publish spans, as many handler spans as handler runs.
type StressCase struct {
	Publishes  int   `json:"publishes"` // per publisher
	Publishers int   `json:"publishers"`
	NSync      int   `json:"n_sync"`
	NAsync     int   `json:"n_async"`
	AsyncSeq   bool  `json:"async_seq,omitempty"`
	AsyncFirst bool  `json:"async_first,omitempty"` // the asynchronous handlers are subscribed before the synchronous ones
	Spin       []int `json:"spin"`                  // busy iterations inside a synchronous handler (cyclic by event id)
	ASpin      []int `json:"a_spin"`
	Procs      int   `json:"procs"`
}

func GenStress(t *rapid.T) *StressCase {
	return &StressCase{
		Publishes:  rapid.SampledFrom([]int{200, 600, 1500}).Draw(t, "publishes"),
		Publishers: rapid.IntRange(1, 4).Draw(t, "publishers"),
		NSync:      rapid.IntRange(0, 4).Draw(t, "nsync"),
		NAsync:     rapid.IntRange(1, 2).Draw(t, "nasync"),
		AsyncSeq:   rapid.Bool().Draw(t, "asyncSeq"),
		AsyncFirst: rapid.IntRange(0, 2).Draw(t, "asyncFirst") != 0,
		Spin:       rapid.SliceOfN(rapid.SampledFrom([]int{0, 10, 100, 1000}), 1, 4).Draw(t, "spin"),
		ASpin:      rapid.SliceOfN(rapid.SampledFrom([]int{0, 10, 100, 1000}), 1, 4).Draw(t, "aspin"),
		Procs:      rapid.SampledFrom([]int{2, 4, 16}).Draw(t, "procs"),
	}
}

var stressSink atomic.Int64

func RunStress(c *StressCase) *vkit.Outcome {
	o := &vkit.Outcome{}
	if c.Procs > 0 {
		defer runtime.GOMAXPROCS(runtime.GOMAXPROCS(c.Procs))
	}
	recorder := tracetest.NewSpanRecorder()
	tp := sdktrace.NewTracerProvider(sdktrace.WithSpanProcessor(recorder), sdktrace.WithSampler(sdktrace.AlwaysSample()))
	cp := &countingProvider{inner: tp, ends: map[trace.SpanID]int{}}
	obs, err := ebuotel.New(ebuotel.WithTracerProvider(cp))
	if err != nil {
		o.Failf("", "otel.New: %v", err)
		return o
	}
	bus := eventbus.New(eventbus.WithObservability(obs))
	var runs atomic.Int64
	spin := func(n int) {
		for k := 0; k < n; k++ {
			stressSink.Add(1)
		}
	}
	subSync := func() {
		for i := 0; i < c.NSync; i++ {
			eventbus.Subscribe(bus, func(e Ev) { runs.Add(1); spin(c.Spin[e.ID%len(c.Spin)]) })
		}
	}
	subAsync := func() {
		for i := 0; i < c.NAsync; i++ {
			so := []eventbus.SubscribeOption{eventbus.Async()}
			if c.AsyncSeq {
				so = append(so, eventbus.Sequential())
			}
			eventbus.SubscribeContext(bus, func(_ context.Context, e Ev) { runs.Add(1); spin(c.ASpin[(e.ID/3)%len(c.ASpin)]) }, so...)
		}
	}
	if c.AsyncFirst {
		subAsync()
		subSync()
	} else {
		subSync()
		subAsync()
	}
	var wg sync.WaitGroup
	for p := 0; p < c.Publishers; p++ {
		wg.Add(1)
		go func(p int) {
			defer wg.Done()
			for i := 0; i < c.Publishes; i++ {
				eventbus.Publish(bus, Ev{ID: p*c.Publishes + i})
			}
		}(p)
	}
	wg.Wait()
	bus.Wait()
	total := c.Publishers * c.Publishes
	started, ended := recorder.Started(), recorder.Ended()
	endedIDs := map[trace.SpanID]bool{}
	for _, s := range ended {
		endedIDs[s.SpanContext().SpanID()] = true
	}
	leaks := map[string]int{}
	publishSpans := map[trace.SpanID]bool{}
	nPub, nHandler := 0, 0
	for _, s := range started {
		id := s.SpanContext().SpanID()
		name := s.Name()
		if len(name) >= 17 && name[:17] == "eventbus.publish:" {
			publishSpans[id] = true
			nPub++
		}
		if len(name) >= 16 && name[:16] == "eventbus.handler" {
			nHandler++
		}
		if !endedIDs[id] {
			leaks[name]++
		}
		if n := cp.ends[id]; n > 1 {
			o.Failf("", "span %q was ended %d times", name, n)
			return o
		}
	}
	if len(leaks) > 0 {
		o.Failf("", "after %d publishes and bus.Wait(): %d spans started, %d ended; never ended: %v", total, len(started), len(ended), leaks)
		return o
	}
	if nPub != total || nHandler != int(runs.Load()) {
		o.Failf("", "%d publishes and %d handler runs, but %d publish spans and %d handler spans", total, runs.Load(), nPub, nHandler)
		return o
	}
	for _, s := range ended {
		name := s.Name()
		if len(name) >= 16 && name[:16] == "eventbus.handler" && !publishSpans[s.Parent().SpanID()] {
			o.Failf("", "handler span %q is not a child of a publish span", name)
			return o
		}
	}
	o.Nontrivial = c.NSync > 0
	if o.Nontrivial {
		o.Class("async_completions_racing_with_busy_publishers")
	}
	_ = fmt.Sprint
	return o
}
