//go:build verif

package c19

import (
	"os"
	"path/filepath"
	"testing"

	"verif/vkit"
)

const ruleRT = "1-14 messages (a quarter of the entities padded to 1.5-20 KB around buffer-size boundaries; half of the cases build the whole batch before publishing it) built by the five change constructors and three control constructors with every subset of {WithTxID, WithTimestamp, WithAutoTimestamp, WithEntityType}, entities with nested structs, maps, nil and empty slices, pointer fields, unicode/escaped strings, extreme ints and finite floats, keys any non-empty valid-UTF-8 string; published through a bus on the memory / SQLite / durable-streams store and replayed into a strict materializer. Oracle: constructor output fields as given; every stored document uses only the protocol's field names and the fixed event type names; each materialized entity is JSON-equal to the original, deletes/resets respected, control callbacks as sent. Non-trivial = >=2 options, a pointer field, or non-ASCII key/name."
const ruleHostile = "arbitrary bytes, special documents (deep nesting, hybrid control+change headers, wrong JSON types) and structure-aware mutations of valid messages presented to Apply on a pre-populated materializer (strict and not, with every combination of the OnError, OnReset and OnSnapshot options). Oracle: no panic; an error leaves every collection and LastOffset unchanged; nil advances LastOffset. Non-trivial = valid JSON that is rejected."

var collMem = vkit.NewCollector("C19", "TestRoundTripMemory", ruleRT)
var collSQL = vkit.NewCollector("C19", "TestRoundTripSQLite", ruleRT)
var collDS = vkit.NewCollector("C19", "TestRoundTripDurable", ruleRT)
var collHostile = vkit.NewCollector("C19", "TestHostile", ruleHostile)
var collFuzz = vkit.NewCollector("C19", "FuzzApply", "native go fuzzing (coverage-guided) of the bytes given to Apply, seeded with the repository's conformance documents; same oracle as TestHostile")

var collNull = vkit.NewCollector("C19", "TestNullEntities", "1-8 insert/update/delete messages built by the helper constructors for entities whose JSON encoding can be the literal null (a pointer, a map, a slice, a nullable wrapper with its own MarshalJSON), null or not, published through a bus with a memory store and replayed into a materializer with every combination of strict schema and the OnError/OnReset/OnSnapshot options. Oracle: the replay succeeds and every collection holds exactly the last written value of every key (null entities included). Non-trivial = a null-encoding entity was materialized.")

func TestMain(m *testing.M) { vkit.Main(m) }

func TestRoundTripMemory(t *testing.T)  { vkit.Check(t, collMem, GenRT("memory"), RunRT) }
func TestRoundTripSQLite(t *testing.T)  { vkit.Check(t, collSQL, GenRT("sqlite"), RunRT) }
func TestRoundTripDurable(t *testing.T) { vkit.Check(t, collDS, GenRT("durable"), RunRT) }
func TestNullEntities(t *testing.T)     { vkit.Check(t, collNull, GenNull, RunNull) }
func TestHostile(t *testing.T)          { vkit.Check(t, collHostile, GenHostile, RunHostile) }

// FuzzApply is the coverage-guided variant (thorough tier only).
func FuzzApply(f *testing.F) {
	for _, s := range hostileSeeds {
		f.Add([]byte(s), false, uint8(0))
		f.Add([]byte(s), true, uint8(7))
	}
	f.Add([]byte(`{"type":"user","key":"user:1","value":{"name":"Alice"},"headers":{"operation":"insert"}}`), false, uint8(1))
	f.Add([]byte(`{"type":"user","key":"1","value":{"name":"new"},"old_value":{"name":"old"},"headers":{"operation":"update"}}`), true, uint8(1))
	f.Add([]byte(`{"headers":{"control":"snapshot-end"}}`), false, uint8(6))
	f.Fuzz(func(t *testing.T, data []byte, strict bool, opts uint8) {
		c := &HostileCase{Data: string(data), Strict: strict, Opts: int(opts & 7)}
		if v := collFuzz.Account(c, RunHostile(c)); v != nil {
			vkit.SaveFail("C19", "FuzzApply", c, v)
			if dir := os.Getenv("VERIF_OUT"); dir != "" {
				os.WriteFile(filepath.Join(dir, "fuzz-crasher.txt"), data, 0o644)
			}
			t.Fatalf("%s", v.Error())
		}
	})
}

func TestReplay(t *testing.T) {
	r := vkit.NeedReplay(t)
	_ = vkit.ReplayCase(t, r, collMem, RunRT) || vkit.ReplayCase(t, r, collSQL, RunRT) || vkit.ReplayCase(t, r, collDS, RunRT) ||
		vkit.ReplayCase(t, r, collHostile, RunHostile) || vkit.ReplayCase(t, r, collNull, RunNull) || vkit.ReplayCase(t, r, collFuzz, RunHostile)
}
