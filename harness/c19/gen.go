//go:build verif

package c19

import (
	"encoding/json"
	"math"
	"strings"

	"pgregory.net/rapid"
)

func genKey(t *rapid.T) string {
	k := rapid.OneOf(rapid.SampledFrom([]string{"1", "a/b", "user:1", " ", "ключ/値", "k\"q", "\t", "a b", "/", "😀", "a/", "/a", "a//b", "./1", "..", "c19.entity/1", "user/1", "1/"}), rapid.StringN(1, 8, 24)).Draw(t, "key")
	if k == "" || !json.Valid([]byte(`"`+strings.ReplaceAll(strings.ReplaceAll(k, `\`, `\\`), `"`, `\"`)+`"`)) && false {
		k = "k"
	}
	// keys must survive JSON: drop invalid UTF-8 (rapid strings are valid) and the replacement char
	k = strings.ToValidUTF8(k, "")
	k = strings.ReplaceAll(k, "�", "")
	if k == "" {
		k = "k"
	}
	return k
}

func genRT(t *rapid.T) RT {
	r := RT{Ctor: rapid.SampledFrom([]string{"insert", "insert", "update", "updateold", "updatesame", "delete", "deleteold", "reset", "snapstart", "snapend"}).Draw(t, "ctor")}
	r.Key = genKey(t)
	r.Name = strings.ReplaceAll(strings.ToValidUTF8(rapid.OneOf(rapid.SampledFrom([]string{"", "Zoë", "名", "<x>&", "q\"\\", "\x00\x1f"}), rapid.StringN(0, 6, 20)).Draw(t, "name"), ""), "�", "")
	r.I64 = rapid.OneOf(rapid.SampledFrom([]int64{0, math.MaxInt64, math.MinInt64, 1<<53 + 1}), rapid.Int64()).Draw(t, "i64")
	r.U64 = rapid.OneOf(rapid.SampledFrom([]uint64{0, math.MaxUint64}), rapid.Uint64()).Draw(t, "u64")
	r.F = rapid.OneOf(rapid.SampledFrom([]float64{0, 1e308, 5e-324, -0.1, 1.0 / 3}), rapid.Float64()).Draw(t, "f")
	if math.IsNaN(r.F) || math.IsInf(r.F, 0) {
		r.F = 1
	}
	r.NilSlice = rapid.Bool().Draw(t, "nilslice")
	r.EmptyMap = rapid.Bool().Draw(t, "emptymap")
	r.HasP = rapid.Bool().Draw(t, "hasp")
	if rapid.Bool().Draw(t, "hastx") {
		r.TxID = rapid.SampledFrom([]string{"tx-1", "тх", "a b", " lead", "trail ", "\t", "control", "operation", "reset"}).Draw(t, "txid")
	}
	switch rapid.IntRange(0, 3).Draw(t, "tsmode") {
	case 0:
		r.UseTS = true
		r.TSSec = rapid.Int64Range(-62135510400, 253402128000).Draw(t, "tssec")
		r.TSNano = rapid.SampledFrom([]int{0, 1, 999999999, 120000000}).Draw(t, "tsnano")
	case 1:
		r.AutoTS = true
	case 2:
		r.UseTS, r.AutoTS = true, true
		r.TSSec = 1700000000
	}
	if rapid.Bool().Draw(t, "hastype") {
		r.TypeName = rapid.SampledFrom([]string{"user", "a/b", "ünï", "x y"}).Draw(t, "tname")
	}
	r.Offset = rapid.SampledFrom([]string{"", "0000000001", "off/1"}).Draw(t, "coff")
	if rapid.IntRange(0, 2).Draw(t, "proto") == 0 {
		r.Proto = rapid.IntRange(1, 4).Draw(t, "protoKind")
	}
	if rapid.IntRange(0, 3).Draw(t, "padded") == 0 {
		r.Pad = rapid.SampledFrom([]int{1500, 3000, 3300, 3500, 3700, 3900, 4100, 6000, 20000}).Draw(t, "pad")
	}
	return r
}

func GenRT(store string) func(t *rapid.T) *RTCase {
	return func(t *rapid.T) *RTCase {
		c := &RTCase{Store: store, Batch: rapid.Bool().Draw(t, "batch")}
		n := rapid.IntRange(1, 14).Draw(t, "n") // past ten: SQLite offsets gain a digit
		for i := 0; i < n; i++ {
			c.Msgs = append(c.Msgs, genRT(t))
		}
		return c
	}
}

var hostileSeeds = []string{
	`{"type":"user","key":"1","value":{"id":"1","name":"x"},"headers":{"operation":"insert"}}`,
	`{"type":"user","key":"1","headers":{"operation":"delete"}}`,
	`{"headers":{"control":"reset"}}`,
	`{"headers":{"control":"snapshot-start","offset":"1"}}`,
	`{"type":"a/b","key":"c","value":{"id":"c"},"headers":{"operation":"update","txid":"t"}}`,
	`{"type":"loose","key":"z","value":{"anything":[1,2,3]},"headers":{"operation":"insert"}}`,
	`{"type":"ghost","key":"1","value":{},"headers":{"operation":"insert"}}`,
	// changes that carry an old_value, decodable or not (it is never stored)
	`{"type":"user","key":"1","value":{"id":"1","name":"new"},"old_value":"str","headers":{"operation":"update"}}`,
	`{"type":"user","key":"2","old_value":[1],"headers":{"operation":"delete"}}`,
	`{"type":"user","key":"3","value":{"id":"3","name":"ins"},"old_value":{"id":5},"headers":{"operation":"insert"}}`,
	`{"type":"a/b","key":"c","value":{"id":"c","name":"upd"},"old_value":{"id":"c","name":"seed"},"headers":{"operation":"update"}}`,
	// objects that leave fields out
	`{"key":"1"}`,
	`{"key":"2","headers":{}}`,
	`{"headers":{"operation":"delete"}}`,
	`{"value":{"id":"1","name":"M"},"headers":{"operation":"update"}}`,
	`{"type":"user","headers":{"operation":"delete"}}`,
	`{"type":null,"key":null,"value":{"id":"c","name":"N"},"headers":{"operation":null}}`,
	`{"key":"c","value":{"id":"c","name":"N"}}`,
}

var mutationsFrom = []string{`"insert"`, `"user"`, `"1"`, `{"id":"1","name":"x"}`, `"headers"`, `"operation"`, `"control"`, `"reset"`, `"value"`, `"type"`, `"key"`, `{"id":"c"}`}
var mutationsTo = []string{`5`, `null`, `[]`, `{}`, `"delete"`, `"bogus"`, `""`, `true`, `"value"`, `{"id":7}`, `{"id":"1","name":5}`, `[1]`, `"user"`, `"a/b"`, `"hdrs"`, `{"control":"reset"}`, `1e999`, `"\u0000"`}

func GenHostile(t *rapid.T) *HostileCase {
	c := &HostileCase{Strict: rapid.Bool().Draw(t, "strict"), Opts: rapid.IntRange(0, 7).Draw(t, "opts")}
	switch rapid.IntRange(0, 5).Draw(t, "mode") {
	case 0:
		c.Data = string(rapid.SliceOfN(rapid.Byte(), 0, 40).Draw(t, "bytes"))
	case 1:
		c.Data = rapid.SampledFrom([]string{"", "null", "[]", "{}", "1", `"s"`, "{", `{"headers":`, `{"headers":null}`, `{"headers":5}`, `{"headers":{}}`, `{"headers":{"control":""}}`, `{"headers":{"control":5}}`, `{"headers":{"control":"reset","operation":"insert"},"type":"user","key":"1","value":{"id":"zz"}}`,
			strings.Repeat("[", 2000) + strings.Repeat("]", 2000), strings.Repeat(`{"a":`, 500) + "1" + strings.Repeat("}", 500)}).Draw(t, "special")
	default:
		s := rapid.SampledFrom(hostileSeeds).Draw(t, "seed")
		n := rapid.IntRange(1, 3).Draw(t, "nmut")
		for i := 0; i < n; i++ {
			from := rapid.SampledFrom(mutationsFrom).Draw(t, "from")
			to := rapid.SampledFrom(mutationsTo).Draw(t, "to")
			s = strings.Replace(s, from, to, 1)
		}
		if rapid.IntRange(0, 5).Draw(t, "dup") == 0 {
			s = strings.Replace(s, `{`, `{"type":"user","key":"2",`, 1)
		}
		if rapid.IntRange(0, 4).Draw(t, "trailing") == 0 {
			// a message followed by more bytes: not one JSON document
			s += rapid.SampledFrom([]string{"}", "{", " x", "]", "\x00", `{"headers":{"control":"reset"}}`, ` {"type":"user"`, ","}).Draw(t, "tail")
		}
		c.Data = s
	}
	return c
}

func GenNull(t *rapid.T) *NullCase {
	c := &NullCase{Strict: rapid.Bool().Draw(t, "strict"), Opts: rapid.IntRange(0, 7).Draw(t, "opts")}
	n := rapid.IntRange(1, 8).Draw(t, "n")
	for i := 0; i < n; i++ {
		c.Msgs = append(c.Msgs, NullMsg{
			Coll: rapid.IntRange(0, 3).Draw(t, "coll"),
			Op:   rapid.SampledFrom([]string{"insert", "insert", "update", "delete"}).Draw(t, "op"),
			Key:  rapid.SampledFrom([]string{"a", "b", "a/b"}).Draw(t, "key"),
			Null: rapid.Bool().Draw(t, "null"),
			N:    rapid.IntRange(-3, 99).Draw(t, "n"),
		})
	}
	return c
}
