//go:build verif

package c19

import (
	"context"
	"encoding/json"
	"fmt"
	"sort"

	eventbus "github.com/jilio/ebu"
	"github.com/jilio/ebu/state"
	"verif/vkit"
)

// Entities whose JSON encoding can be the literal null: a pointer, a map, a
// slice and a nullable wrapper.  They are as JSON-encodable as any struct.
type Small struct {
	N int `json:"n"`
}

type NullStr struct {
	S     string
	Valid bool
}

func (n NullStr) MarshalJSON() ([]byte, error) {
	if !n.Valid {
		return []byte("null"), nil
	}
	return json.Marshal(n.S)
}

func (n *NullStr) UnmarshalJSON(b []byte) error {
	if string(b) == "null" {
		*n = NullStr{}
		return nil
	}
	n.Valid = true
	return json.Unmarshal(b, &n.S)
}

type NullMsg struct {
	Coll int    `json:"coll"` // 0 *Small, 1 map[string]int, 2 []string, 3 NullStr
	Op   string `json:"op"`   // insert update delete
	Key  string `json:"key"`
	Null bool   `json:"null"` // the entity encodes as null
	N    int    `json:"n"`
}

type NullCase struct {
	Msgs   []NullMsg `json:"msgs"`
	Strict bool      `json:"strict,omitempty"`
	Opts   int       `json:"opts,omitempty"` // 1 OnError 2 OnReset 4 OnSnapshot
}

var nullCollNames = []string{"small", "counts", "tags", "nick"}

func RunNull(c *NullCase) *vkit.Outcome {
	o := &vkit.Outcome{}
	ctx := context.Background()
	store := eventbus.NewMemoryStore()
	bus := eventbus.New(eventbus.WithStore(store))
	model := map[string]string{} // composite key -> JSON of the entity
	sawNull := false
	for i, m := range c.Msgs {
		tn := nullCollNames[m.Coll%4]
		var msg *state.ChangeMessage
		var err error
		var enc []byte
		build := func(ins func() (*state.ChangeMessage, error), upd func() (*state.ChangeMessage, error), del func() (*state.ChangeMessage, error)) {
			switch m.Op {
			case "insert":
				msg, err = ins()
			case "update":
				msg, err = upd()
			default:
				msg, err = del()
			}
		}
		wt := state.WithEntityType(tn)
		switch m.Coll % 4 {
		case 0:
			var v *Small
			if !m.Null {
				v = &Small{N: m.N}
			}
			enc, _ = json.Marshal(v)
			build(func() (*state.ChangeMessage, error) { return state.Insert(m.Key, v, wt) }, func() (*state.ChangeMessage, error) { return state.Update(m.Key, v, wt) }, func() (*state.ChangeMessage, error) { return state.Delete[*Small](m.Key, wt) })
		case 1:
			var v map[string]int
			if !m.Null {
				v = map[string]int{"n": m.N}
			}
			enc, _ = json.Marshal(v)
			build(func() (*state.ChangeMessage, error) { return state.Insert(m.Key, v, wt) }, func() (*state.ChangeMessage, error) { return state.Update(m.Key, v, wt) }, func() (*state.ChangeMessage, error) { return state.Delete[map[string]int](m.Key, wt) })
		case 2:
			var v []string
			if !m.Null {
				v = []string{fmt.Sprint(m.N)}
			}
			enc, _ = json.Marshal(v)
			build(func() (*state.ChangeMessage, error) { return state.Insert(m.Key, v, wt) }, func() (*state.ChangeMessage, error) { return state.Update(m.Key, v, wt) }, func() (*state.ChangeMessage, error) { return state.Delete[[]string](m.Key, wt) })
		default:
			v := NullStr{S: fmt.Sprint(m.N), Valid: !m.Null}
			enc, _ = json.Marshal(v)
			build(func() (*state.ChangeMessage, error) { return state.Insert(m.Key, v, wt) }, func() (*state.ChangeMessage, error) { return state.Update(m.Key, v, wt) }, func() (*state.ChangeMessage, error) { return state.Delete[NullStr](m.Key, wt) })
		}
		if err != nil {
			o.Failf("", "message %d %+v: the constructor failed: %v", i, m, err)
			return o
		}
		eventbus.Publish(bus, msg)
		if m.Op == "delete" {
			delete(model, state.CompositeKey(tn, m.Key))
		} else {
			model[state.CompositeKey(tn, m.Key)] = string(enc)
			if string(enc) == "null" {
				sawNull = true
			}
		}
	}
	var opts []state.MaterializerOption
	if c.Strict {
		opts = append(opts, state.WithStrictSchema())
	}
	if c.Opts&1 != 0 {
		opts = append(opts, state.WithOnError(func(error) {}))
	}
	if c.Opts&2 != 0 {
		opts = append(opts, state.WithOnReset(func() {}))
	}
	if c.Opts&4 != 0 {
		opts = append(opts, state.WithOnSnapshot(func(bool) {}))
	}
	mat := state.NewMaterializer(opts...)
	small := state.NewTypedCollectionWithType[*Small](state.NewMemoryStore[*Small](), "small")
	counts := state.NewTypedCollectionWithType[map[string]int](state.NewMemoryStore[map[string]int](), "counts")
	tags := state.NewTypedCollectionWithType[[]string](state.NewMemoryStore[[]string](), "tags")
	nick := state.NewTypedCollectionWithType[NullStr](state.NewMemoryStore[NullStr](), "nick")
	state.RegisterCollection(mat, small)
	state.RegisterCollection(mat, counts)
	state.RegisterCollection(mat, tags)
	state.RegisterCollection(mat, nick)
	if err := mat.Replay(ctx, bus, eventbus.OffsetOldest); err != nil {
		o.Failf("", "replaying %d constructor-built messages into a materializer (strict=%v opts=%d) failed: %v (messages %+v)", len(c.Msgs), c.Strict, c.Opts, err, c.Msgs)
		return o
	}
	got := map[string]string{}
	add := func(tn string, all any) {
		b, _ := json.Marshal(all)
		var mm map[string]json.RawMessage
		json.Unmarshal(b, &mm)
		for k, v := range mm {
			got[k] = string(v)
		}
	}
	add("small", small.All())
	add("counts", counts.All())
	add("tags", tags.All())
	add("nick", nick.All())
	keys := map[string]bool{}
	for k := range got {
		keys[k] = true
	}
	for k := range model {
		keys[k] = true
	}
	var ks []string
	for k := range keys {
		ks = append(ks, k)
	}
	sort.Strings(ks)
	for _, k := range ks {
		g, gok := got[k]
		w, wok := model[k]
		if gok != wok || (gok && !vkit.JSONEqual([]byte(g), []byte(w))) {
			o.Failf("", "entity %q: materialized %q (present %v), sent %q (present %v); strict=%v, messages %+v", k, g, gok, w, wok, c.Strict, c.Msgs)
			return o
		}
	}
	if sawNull {
		o.Nontrivial = true
		o.Class("entity_encoding_as_null_materialized")
		if c.Strict {
			o.Class("null_entity_with_strict_schema")
		}
	}
	return o
}
