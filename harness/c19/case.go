//go:build verif

// Package c19 decides property C19: state messages survive the round trip;
// bad input is rejected without damage.
package c19

import (
	"context"
	"encoding/json"
	"fmt"
	"math/big"
	"sort"
	"strings"
	"time"

	eventbus "github.com/jilio/ebu"
	"github.com/jilio/ebu/state"
	"verif/storekit"
	"verif/vkit"
)

type Inner struct {
	X int               `json:"x"`
	M map[string]string `json:"m"`
	L []float64         `json:"l"`
}

// PtrCodec has its JSON codec on the pointer receiver (like math/big.Int):
// it is only honoured when the value is addressable while being encoded.
type PtrCodec struct{ V string }

func (p *PtrCodec) MarshalJSON() ([]byte, error) { return json.Marshal("pc:" + p.V) }
func (p *PtrCodec) UnmarshalJSON(b []byte) error {
	var s string
	if err := json.Unmarshal(b, &s); err != nil {
		return err
	}
	if len(s) < 3 || s[:3] != "pc:" {
		return fmt.Errorf("PtrCodec: bad encoding %q", s)
	}
	p.V = s[3:]
	return nil
}

// StateTypeName makes Entity a state.TypeNamer: without WithEntityType its
// messages carry this name, with the option the explicit name wins.
func (Entity) StateTypeName() string { return "c19.entity" }

type Entity struct {
	ID    string         `json:"id"`
	PC    PtrCodec       `json:"pc"`  // by value, codec on the pointer receiver
	Big   big.Int        `json:"big"` // by value, codec on the pointer receiver
	Name  string         `json:"name"`
	I64   int64          `json:"i64"`
	U64   uint64         `json:"u64"`
	F     float64        `json:"f"`
	B     bool           `json:"b"`
	In    Inner          `json:"in"`
	P     *Inner         `json:"p"`
	Tags  []string       `json:"tags"`
	Extra map[string]any `json:"extra,omitempty"`
	Pad   string         `json:"pad,omitempty"`
	// fields named like the words of the state protocol: they are the
	// entity's own business and mean nothing to the envelope around it
	Control   string            `json:"control,omitempty"`
	Operation string            `json:"operation,omitempty"`
	Offset    string            `json:"offset,omitempty"`
	Headers   map[string]string `json:"headers,omitempty"`
	Type      string            `json:"type,omitempty"`
	Key       string            `json:"key,omitempty"`
}

type RT struct {
	Ctor     string  `json:"ctor"` // insert update updateold delete deleteold reset snapstart snapend
	Key      string  `json:"key"`
	Name     string  `json:"name"`
	I64      int64   `json:"i64"`
	U64      uint64  `json:"u64"`
	F        float64 `json:"f"`
	NilSlice bool    `json:"nil_slice,omitempty"`
	EmptyMap bool    `json:"empty_map,omitempty"`
	HasP     bool    `json:"has_p,omitempty"`
	TxID     string  `json:"txid,omitempty"`
	TSSec    int64   `json:"ts_sec,omitempty"`
	TSNano   int     `json:"ts_nano,omitempty"`
	UseTS    bool    `json:"use_ts,omitempty"`
	AutoTS   bool    `json:"auto_ts,omitempty"`
	TypeName string  `json:"type_name,omitempty"` // WithEntityType
	Offset   string  `json:"offset,omitempty"`    // control messages
	Pad      int     `json:"pad,omitempty"`       // extra bytes in the entity (buffer-size boundaries)
	// Proto 1-4: the entity carries fields named like protocol words
	// (control, operation, offset, headers, type, key) with protocol-like values.
	Proto int `json:"proto,omitempty"`
}

type RTCase struct {
	Store string `json:"store"` // memory sqlite durable
	Msgs  []RT   `json:"msgs"`
	// Batch: all messages are built first and published afterwards (a
	// transaction assembled before it is sent) instead of one at a time.
	Batch bool `json:"batch,omitempty"`
}

func entityOf(r RT) Entity {
	e := Entity{ID: r.Key, Name: r.Name, I64: r.I64, U64: r.U64, F: r.F, B: r.I64%2 == 0}
	e.PC = PtrCodec{V: r.Name}
	e.Big.SetUint64(r.U64)
	e.Big.Mul(&e.Big, &e.Big)
	e.In = Inner{X: int(r.I64 % 1000), L: []float64{r.F, 0.5}}
	if r.EmptyMap {
		e.In.M = map[string]string{}
	} else {
		e.In.M = map[string]string{"k": r.Name, "": "e"}
	}
	if r.HasP {
		e.P = &Inner{X: 1}
	}
	if !r.NilSlice {
		e.Tags = []string{r.Name, ""}
	}
	if r.I64%3 == 0 {
		e.Extra = map[string]any{"n": nil, "arr": []any{1.5, "s"}}
	}
	if r.Pad > 0 {
		e.Pad = strings.Repeat("p", r.Pad)
	}
	switch r.Proto {
	case 1:
		e.Control = "reset"
	case 2:
		e.Control, e.Offset = "manual", "upstream-17"
		e.Headers = map[string]string{"control": "reset", "operation": "delete"}
	case 3:
		e.Type, e.Key, e.Operation = "ghost", "zz", "delete"
	case 4:
		e.Control, e.Operation = "snapshot-end", "insert"
		e.Headers = map[string]string{"control": "snapshot-start"}
	}
	return e
}

var allowedTop = map[string]bool{"type": true, "key": true, "value": true, "old_value": true, "headers": true}
var allowedChangeHdr = map[string]bool{"operation": true, "txid": true, "timestamp": true}
var allowedCtrlHdr = map[string]bool{"control": true, "offset": true}

func RunRT(c *RTCase) *vkit.Outcome {
	o := &vkit.Outcome{}
	storekit.SetVariant(vkit.HashOf(c))
	ctx := context.Background()
	var store eventbus.EventStore
	switch c.Store {
	case "sqlite":
		dir, cleanup := storekit.TempDir("c19-")
		defer cleanup()
		st, err := storekit.OpenSQLite(dir, "s.db")
		if err != nil {
			o.Failf("", "open: %v", err)
			return o
		}
		defer st.Close()
		store = st
	case "durable":
		st, err := storekit.NewDSServer(0).Open("state")
		if err != nil {
			o.Failf("", "open: %v", err)
			return o
		}
		store = st
	default:
		store = eventbus.NewMemoryStore()
	}
	bus := eventbus.New(eventbus.WithStore(store), eventbus.WithReplayBatchSize(1000))

	// model of the collection keyed by (type,key)
	type mk struct{ t, k string }
	model := map[mk]string{}
	types := map[string]bool{}
	var ctrl []string
	var sentDocs [][]byte // JSON of every message as built
	var pending []any     // batch mode: messages waiting to be published
	sent := 0
	for i, r := range c.Msgs {
		var opts []state.ChangeOption
		if r.TxID != "" {
			opts = append(opts, state.WithTxID(r.TxID))
		}
		ts := time.Unix(r.TSSec, int64(r.TSNano)).UTC()
		if r.UseTS {
			opts = append(opts, state.WithTimestamp(ts))
		}
		if r.AutoTS {
			opts = append(opts, state.WithAutoTimestamp())
		}
		tn := state.EntityType(Entity{})
		if r.TypeName != "" {
			opts = append(opts, state.WithEntityType(r.TypeName))
			tn = r.TypeName
		}
		e := entityOf(r)
		var msg *state.ChangeMessage
		var cm *state.ControlMessage
		var err error
		wantOp := state.Operation("")
		switch r.Ctor {
		case "insert":
			msg, err = state.Insert(r.Key, e, opts...)
			wantOp = state.OperationInsert
		case "update":
			msg, err = state.Update(r.Key, e, opts...)
			wantOp = state.OperationUpdate
		case "updateold":
			msg, err = state.UpdateWithOldValue(r.Key, e, Entity{ID: "old"}, opts...)
			wantOp = state.OperationUpdate
		case "updatesame":
			// the old value equals the new one (a feed that reports untouched rows)
			msg, err = state.UpdateWithOldValue(r.Key, e, e, opts...)
			wantOp = state.OperationUpdate
		case "delete":
			msg, err = state.Delete[Entity](r.Key, opts...)
			wantOp = state.OperationDelete
		case "deleteold":
			msg, err = state.DeleteWithOldValue(r.Key, e, opts...)
			wantOp = state.OperationDelete
		case "reset":
			cm = state.Reset(r.Offset)
		case "snapstart":
			cm = state.SnapshotStart(r.Offset)
		case "snapend":
			cm = state.SnapshotEnd(r.Offset)
		}
		if err != nil {
			o.Failf("", "message %d: constructor %s(key %q) failed: %v", i, r.Ctor, r.Key, err)
			return o
		}
		if msg != nil {
			if msg.Type != tn || msg.Key != r.Key || msg.Headers.Operation != wantOp || msg.Headers.TxID != r.TxID {
				o.Failf("", "message %d: built %+v, expected type %q key %q op %q txid %q", i, msg, tn, r.Key, wantOp, r.TxID)
				return o
			}
			if r.UseTS {
				got, perr := time.Parse(time.RFC3339Nano, msg.Headers.Timestamp)
				if perr != nil || !got.Equal(ts) {
					o.Failf("", "message %d: timestamp header %q, given %v", i, msg.Headers.Timestamp, ts)
					return o
				}
			} else if r.AutoTS {
				if _, perr := time.Parse(time.RFC3339Nano, msg.Headers.Timestamp); perr != nil {
					o.Failf("", "message %d: auto timestamp %q is not RFC 3339", i, msg.Headers.Timestamp)
					return o
				}
			} else if msg.Headers.Timestamp != "" {
				o.Failf("", "message %d: unexpected timestamp %q", i, msg.Headers.Timestamp)
				return o
			}
			d, _ := json.Marshal(msg)
			sentDocs = append(sentDocs, d)
			if c.Batch {
				pending = append(pending, msg)
			} else {
				eventbus.Publish(bus, msg)
			}
			types[tn] = true
			switch wantOp {
			case state.OperationDelete:
				delete(model, mk{tn, r.Key})
			default:
				b, _ := json.Marshal(&e)
				model[mk{tn, r.Key}] = string(b)
			}
		} else {
			d, _ := json.Marshal(cm)
			sentDocs = append(sentDocs, d)
			if c.Batch {
				pending = append(pending, cm)
			} else {
				eventbus.Publish(bus, cm)
			}
			ctrl = append(ctrl, r.Ctor)
			if r.Ctor == "reset" {
				model = map[mk]string{}
			}
		}
		sent++
	}
	for _, m := range pending {
		switch v := m.(type) {
		case *state.ChangeMessage:
			eventbus.Publish(bus, v)
		case *state.ControlMessage:
			eventbus.Publish(bus, v)
		}
	}
	// stored documents use only the protocol's field names
	var all []*eventbus.StoredEvent
	cur := eventbus.OffsetOldest
	for {
		page, next, err := store.Read(ctx, cur, 0)
		if err != nil {
			o.Failf("", "read: %v", err)
			return o
		}
		if len(page) == 0 {
			break
		}
		all = append(all, page...)
		cur = next
	}
	if len(all) != sent {
		o.Failf("", "%d messages published, %d stored", sent, len(all))
		return o
	}
	for i, se := range all {
		var top map[string]json.RawMessage
		if err := json.Unmarshal(se.Data, &top); err != nil {
			o.Failf("", "stored document %d is not a JSON object: %s", i, se.Data)
			return o
		}
		for k := range top {
			if !allowedTop[k] {
				o.Failf("", "stored document %d has a field %q outside the state protocol: %s", i, k, se.Data)
				return o
			}
		}
		var hdr map[string]json.RawMessage
		json.Unmarshal(top["headers"], &hdr)
		allowed := allowedChangeHdr
		wantType := "state.ChangeMessage"
		if _, isCtrl := hdr["control"]; isCtrl {
			allowed = allowedCtrlHdr
			wantType = "state.ControlMessage"
		}
		for k := range hdr {
			if !allowed[k] {
				o.Failf("", "stored document %d has a header %q outside the state protocol: %s", i, k, se.Data)
				return o
			}
		}
		// type, key, operation, txid, timestamp and values arrive as built
		if !vkit.JSONEqual(se.Data, sentDocs[i]) {
			o.Failf("", "stored document %d differs from the message as built: %s vs %s", i, se.Data, sentDocs[i])
			return o
		}
		var cmBack state.ChangeMessage
		if wantType == "state.ChangeMessage" {
			r := c.Msgs[i]
			if err := json.Unmarshal(se.Data, &cmBack); err != nil || cmBack.Key != r.Key || cmBack.Headers.TxID != r.TxID {
				o.Failf("", "stored document %d decodes to key %q txid %q (err %v), given key %q txid %q", i, cmBack.Key, cmBack.Headers.TxID, err, r.Key, r.TxID)
				return o
			}
		}
		if se.Type != wantType {
			o.Failf("", "stored document %d has event type %q, expected %q", i, se.Type, wantType)
			return o
		}
	}
	// materialize through replay
	var resets int
	var snaps []string
	m := state.NewMaterializer(state.WithStrictSchema(), state.WithOnReset(func() { resets++ }), state.WithOnSnapshot(func(s bool) {
		if s {
			snaps = append(snaps, "snapstart")
		} else {
			snaps = append(snaps, "snapend")
		}
	}))
	colls := map[string]*state.TypedCollection[Entity]{}
	for tn := range types {
		colls[tn] = state.NewTypedCollectionWithType[Entity](state.NewMemoryStore[Entity](), tn)
		state.RegisterCollection(m, colls[tn])
	}
	if err := m.Replay(ctx, bus, eventbus.OffsetOldest); err != nil {
		o.Failf("", "materializing the round-tripped messages failed: %v", err)
		return o
	}
	for k, want := range model {
		got, ok := colls[k.t].Get(k.k)
		if !ok {
			o.Failf("", "entity type %q key %q is missing after the round trip", k.t, k.k)
			return o
		}
		b, _ := json.Marshal(&got)
		if !vkit.JSONEqual(b, []byte(want)) {
			o.Failf("", "entity type %q key %q came back as %s, sent %s", k.t, k.k, b, want)
			return o
		}
	}
	total := 0
	for tn, cl := range colls {
		for ck := range cl.All() {
			total++
			_ = tn
			_ = ck
		}
	}
	if total != len(model) {
		o.Failf("", "collections hold %d entities after the round trip, expected %d", total, len(model))
	}
	var wantSnaps []string
	wantResets := 0
	for _, k := range ctrl {
		if k == "reset" {
			wantResets++
		} else {
			wantSnaps = append(wantSnaps, k)
		}
	}
	if resets != wantResets || fmt.Sprint(snaps) != fmt.Sprint(wantSnaps) {
		o.Failf("", "control messages after the round trip: %d resets %v, sent %d resets %v", resets, snaps, wantResets, wantSnaps)
	}
	for _, r := range c.Msgs {
		nopt := 0
		for _, b := range []bool{r.TxID != "", r.UseTS, r.AutoTS, r.TypeName != ""} {
			if b {
				nopt++
			}
		}
		if nopt >= 2 || r.HasP {
			o.Nontrivial = true
		}
		for _, ch := range r.Name + r.Key {
			if ch > 127 {
				o.Nontrivial = true
			}
		}
	}
	o.Class("store_" + c.Store)
	return o
}

// ---------------------------------------------------------------------------
// hostile input to Apply

type HostileCase struct {
	Data   string `json:"data"` // the bytes presented as event data
	Strict bool   `json:"strict,omitempty"`
	// Opts is a mask of further materializer options: 1 WithOnError,
	// 2 WithOnReset, 4 WithOnSnapshot.
	Opts int `json:"opts,omitempty"`
}

func snapshotOf(colls []*state.TypedCollection[Entity], other *state.TypedCollection[map[string]any]) string {
	out := map[string]any{}
	for i, c := range colls {
		all := c.All()
		keys := make([]string, 0, len(all))
		for k := range all {
			keys = append(keys, k)
		}
		sort.Strings(keys)
		for _, k := range keys {
			out[fmt.Sprintf("%d|%s", i, k)] = all[k]
		}
	}
	for k, v := range other.All() {
		out["o|"+k] = v
	}
	b, _ := json.Marshal(out)
	return string(b)
}

// hostileRun is one presentation of the data to a materializer whose
// collections hold user/1, user/2 and a/b c.  hist selects how they got there:
// the contents are the same, the events applied before (and so whatever the
// materializer may have kept from decoding them) differ.
type hostileRun struct {
	err                   error
	before, after         string
	lastBefore, lastAfter eventbus.Offset
	panicked              any
	onErrors              int
}

func hostileOnce(c *HostileCase, hist int) *hostileRun {
	r := &hostileRun{}
	var opts []state.MaterializerOption
	if c.Strict {
		opts = append(opts, state.WithStrictSchema())
	}
	if c.Opts&1 != 0 {
		opts = append(opts, state.WithOnError(func(error) { r.onErrors++ }))
	}
	if c.Opts&2 != 0 {
		opts = append(opts, state.WithOnReset(func() {}))
	}
	if c.Opts&4 != 0 {
		opts = append(opts, state.WithOnSnapshot(func(bool) {}))
	}
	m := state.NewMaterializer(opts...)
	users := state.NewTypedCollectionWithType[Entity](state.NewMemoryStore[Entity](), "user")
	ab := state.NewTypedCollectionWithType[Entity](state.NewMemoryStore[Entity](), "a/b")
	loose := state.NewTypedCollectionWithType[map[string]any](state.NewMemoryStore[map[string]any](), "loose")
	state.RegisterCollection(m, users)
	state.RegisterCollection(m, ab)
	state.RegisterCollection(m, loose)
	n := 0
	apply := func(msg any) {
		n++
		d, _ := json.Marshal(msg)
		m.Apply(&eventbus.StoredEvent{Offset: eventbus.Offset(fmt.Sprintf("%04d", n)), Type: "state.ChangeMessage", Data: d})
	}
	seed := func(tn, key string) {
		msg, _ := state.Insert(key, Entity{ID: key, Name: "seed"}, state.WithEntityType(tn))
		apply(msg)
	}
	switch hist {
	case 0:
		seed("user", "1")
		seed("user", "2")
		seed("a/b", "c")
	case 1:
		// last applied: a delete of user/9
		seed("a/b", "c")
		seed("user", "2")
		seed("user", "9")
		seed("user", "1")
		del, _ := state.Delete[Entity]("9", state.WithEntityType("user"), state.WithTxID("tx-9"))
		apply(del)
	default:
		// last applied: an update of user/2 carrying every optional field
		seed("user", "1")
		seed("a/b", "c")
		seed("loose", "gone")
		delLoose, _ := state.Delete[map[string]any]("gone", state.WithEntityType("loose"))
		apply(delLoose)
		upd, _ := state.Update("2", Entity{ID: "2", Name: "seed"}, state.WithEntityType("user"), state.WithTxID("tx-2"), state.WithTimestamp(time.Unix(1700000000, 0)))
		apply(upd)
	}
	for n < 6 {
		// pad with events of a type nobody registered, so that LastOffset is
		// the same in every history
		n++
		m.Apply(&eventbus.StoredEvent{Offset: eventbus.Offset(fmt.Sprintf("%04d", n)), Type: "state.ChangeMessage", Data: []byte(`{"headers":{"control":"snapshot-end"}}`)})
	}
	colls := []*state.TypedCollection[Entity]{users, ab}
	r.before, r.lastBefore = snapshotOf(colls, loose), m.LastOffset()
	func() {
		defer func() { r.panicked = recover() }()
		r.err = m.Apply(&eventbus.StoredEvent{Offset: "0099", Type: "state.ChangeMessage", Data: []byte(c.Data)})
	}()
	r.after, r.lastAfter = snapshotOf(colls, loose), m.LastOffset()
	return r
}

// RunHostile presents data to Apply on a pre-populated materializer.
func RunHostile(c *HostileCase) (out *vkit.Outcome) {
	o := &vkit.Outcome{}
	var runs []*hostileRun
	for hist := 0; hist < 3; hist++ {
		r := hostileOnce(c, hist)
		runs = append(runs, r)
		if r.panicked != nil {
			o.Failf("", "Apply panicked on data %q: %v", c.Data, r.panicked)
			return o
		}
		if r.err != nil {
			if r.after != r.before || r.lastAfter != r.lastBefore {
				o.Failf("", "Apply(%q) returned error %v but changed the state (%s -> %s) or LastOffset (%q -> %q)", c.Data, r.err, r.before, r.after, r.lastBefore, r.lastAfter)
			}
		} else if r.lastAfter != "0099" {
			o.Failf("", "Apply(%q) returned nil but LastOffset is %q", c.Data, r.lastAfter)
		}
		if r.err == nil && !json.Valid([]byte(c.Data)) {
			o.Failf("", "Apply(%q) returned nil: the data is not a JSON document, so it cannot be applied (state %s -> %s, LastOffset %q -> %q)", c.Data, r.before, r.after, r.lastBefore, r.lastAfter)
			return o
		}
	}
	if len(o.Viol) > 0 {
		return o
	}
	r0 := runs[0]
	// what Apply does with an event is decided by the event and the state,
	// not by the events applied earlier
	for hist, r := range runs[1:] {
		if r.before != r0.before {
			o.Failf("", "harness: history %d leaves state %s, history 0 leaves %s", hist+1, r.before, r0.before)
			return o
		}
		if (r.err == nil) != (r0.err == nil) || r.after != r0.after {
			o.Failf("", "Apply(%q) on two materializers holding the same state %s: after history 0 it returned %v and left %s, after history %d (same contents, other events applied before) it returned %v and left %s", c.Data, r0.before, r0.err, r0.after, hist+1, r.err, r.after)
			return o
		}
	}
	// an accepted event changes nothing but the entity it names (a reset
	// clears everything)
	if r0.err == nil && r0.after != r0.before {
		var fresh struct {
			Type    string `json:"type"`
			Key     string `json:"key"`
			Headers struct {
				Control string `json:"control"`
			} `json:"headers"`
		}
		if json.Unmarshal([]byte(c.Data), &fresh) == nil && fresh.Headers.Control == "" {
			var b, a map[string]json.RawMessage
			json.Unmarshal([]byte(r0.before), &b)
			json.Unmarshal([]byte(r0.after), &a)
			prefix := map[string]string{"user": "0|", "a/b": "1|", "loose": "o|"}[fresh.Type]
			for _, mm := range []map[string]json.RawMessage{b, a} {
				for slot := range mm {
					if string(b[slot]) == string(a[slot]) {
						continue
					}
					named := prefix != "" && (slot == prefix+fresh.Key || slot == prefix+state.CompositeKey(fresh.Type, fresh.Key))
					if !named {
						o.Failf("", "Apply(%q) returned nil and changed slot %q (%s -> %s); the event names entity type %q key %q", c.Data, slot, b[slot], a[slot], fresh.Type, fresh.Key)
						return o
					}
				}
			}
		}
	}
	if json.Valid([]byte(c.Data)) && r0.err != nil {
		o.Nontrivial = true
		o.Class("valid_json_rejected")
	}
	if r0.err == nil {
		o.Class("accepted")
		if r0.after != r0.before {
			o.Class("accepted_and_changed_state")
		}
	}
	if c.Opts&1 != 0 && r0.err != nil {
		o.Class("rejected_with_on_error_handler")
	}
	return o
}
