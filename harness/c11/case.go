//go:build verif

// Package c11 decides property C11: Replay delivers every event after the
// offset, or says that it did not - for every store configuration, log,
// start offset and injected fault.
package c11

import (
	"context"
	"database/sql"
	"errors"
	"fmt"
	"io"
	"net/http"
	"path/filepath"
	"sync/atomic"

	eventbus "github.com/jilio/ebu"
	"github.com/jilio/ebu/stores/sqlite"
	_ "modernc.org/sqlite"
	"verif/storekit"
	"verif/vkit"
)

type Ev struct {
	I int `json:"i"`
}

type Case struct {
	// DupStore: the option list carries an earlier WithStore naming another store.
	DupStore bool   `json:"dup_store,omitempty"`
	Config   string `json:"config"`          // mem-stream mem-paged sqlite sqlite-batched sqlitemem sqlitemem-batched durable
	Batch    int    `json:"batch,omitempty"` // replay batch size (paged paths; 0 = default) / sqlite stream batch
	Chunk    int    `json:"chunk,omitempty"` // durable-streams chunk bytes
	N        int    `json:"n"`
	Start    int    `json:"start"`
	// Nested (fault "none"): inside the callback of its second event the
	// replay's consumer runs a complete replay of its own over the same bus
	// (a projection that needs the whole log to interpret one event).  Both
	// replays deliver what a replay running alone delivers.  Not on the
	// durable-streams store, whose replays are subject to the listed
	// batch-smaller-than-chunk finding.
	Nested bool   `json:"nested,omitempty"`
	Fill   string `json:"fill,omitempty"` // "" = appended directly to the store; "bus" = published through the replaying bus; "mixed" = first half published, rest appended by another writer afterwards
	// Fault: none cberr cancel-before cancel-at store-read store-row sql-next
	// sql-query http-err http-500 badrow; cancel-in-read cancels the context
	// while the K-th store read (page, row fetch or HTTP request) is in flight
	// and lets that read complete, cancel-in-read-err makes it fail with the
	// context's error as a context-honouring store would.
	Fault string `json:"fault"`
	K     int    `json:"k,omitempty"`
}

var errCallback = errors.New("callback failed")

func Run(c *Case) *vkit.Outcome {
	o := &vkit.Outcome{}
	storekit.SetVariant(vkit.HashOf(c))
	ctx, cancel := context.WithCancel(context.Background())
	defer cancel()
	bg := context.Background()

	var store eventbus.EventStore
	var base *storekit.Base
	var plan *storekit.FaultPlan
	var srv *storekit.DSServer
	var opts []eventbus.Option
	var faultFired, cancelFired atomic.Bool
	var sqlPath string

	switch c.Config {
	case "mem-stream", "mem-paged":
		ms := eventbus.NewMemoryStore()
		store, base = storekit.Wrap(ms, c.Config == "mem-stream", true)
		if c.Config == "mem-paged" && c.Batch > 0 {
			opts = append(opts, eventbus.WithReplayBatchSize(c.Batch))
		}
	case "sqlite", "sqlite-batched":
		dir, cleanup := storekit.TempDir("c11-")
		defer cleanup()
		sqlPath = filepath.Join(dir, "r.db")
		var so []sqlite.Option
		if c.Config == "sqlite-batched" {
			so = append(so, sqlite.WithStreamBatchSize(c.Batch))
		}
		st, p, err := storekit.OpenSQLiteFaulty(sqlPath, so...)
		if err != nil {
			o.Failf("", "open sqlite: %v", err)
			return o
		}
		defer st.Close()
		store, plan = st, p
	case "sqlitemem", "sqlitemem-batched":
		// a :memory: database (no driver fault plan: common faults only)
		var so []sqlite.Option
		if c.Config == "sqlitemem-batched" {
			so = append(so, sqlite.WithStreamBatchSize(c.Batch))
		}
		st, err := sqlite.New(":memory:", so...)
		if err != nil {
			o.Failf("", "open sqlite :memory:: %v", err)
			return o
		}
		defer st.Close()
		store = st
	case "durable":
		srv = storekit.NewDSServer(c.Chunk)
		st, err := srv.Open("replay")
		if err != nil {
			o.Failf("", "open durable: %v", err)
			return o
		}
		store = st
		if c.Batch > 0 {
			opts = append(opts, eventbus.WithReplayBatchSize(c.Batch))
		}
	default:
		o.Failf("", "unknown config %q", c.Config)
		return o
	}

	// the bus (created before the log is filled: it may be the writer)
	if c.DupStore {
		// an option list assembled from defaults and overrides: an earlier
		// WithStore names another (streaming, non-empty) store; the last one wins
		decoy := eventbus.NewMemoryStore()
		for i := 0; i < 3; i++ {
			decoy.Append(bg, &eventbus.Event{Type: "decoy", Data: []byte(`{"i":-7}`)})
		}
		opts = append([]eventbus.Option{eventbus.WithStore(decoy)}, opts...)
	}
	opts = append(opts, eventbus.WithStore(store))
	bus := eventbus.New(opts...)
	var liveCalls atomic.Int32
	eventbus.Subscribe(bus, func(e Ev) { liveCalls.Add(1) })
	eventbus.SubscribeContext(bus, func(_ context.Context, e Ev) { liveCalls.Add(1) }, eventbus.Async())

	// fill the log: directly through the store, through the bus, or both
	typeName := eventbus.EventType(Ev{})
	offsets := make([]eventbus.Offset, 0, c.N)
	for i := 1; i <= c.N; i++ {
		viaBus := c.Fill == "bus" || (c.Fill == "mixed" && i <= c.N/2)
		var off eventbus.Offset
		if viaBus {
			eventbus.Publish(bus, Ev{I: i})
			bus.Wait()
			// the offset of the event just published: the last one in the store
			all, err := readAll(store)
			if err != nil || len(all) != i {
				o.Failf("", "filling the log through the bus: %d records after %d publishes (err %v)", len(all), i, err)
				return o
			}
			off = all[len(all)-1].Offset
			if c.Config == "durable" {
				// synthetic read offsets are not resume points (C10 known finding): use the server's own
				off = eventbus.Offset(fmt.Sprintf("%010d", i))
			}
		} else {
			var err error
			off, err = store.Append(bg, &eventbus.Event{Type: typeName, Data: []byte(fmt.Sprintf(`{"i":%d}`, i))})
			if err != nil {
				o.Failf("", "filling the log: %v", err)
				return o
			}
		}
		offsets = append(offsets, off)
		if c.Fault == "badrow" && i == c.K && sqlPath != "" {
			// a row whose timestamp cannot be scanned, written behind the store's back
			db, err := sql.Open("sqlite", "file:"+sqlPath)
			if err == nil {
				_, err = db.Exec("INSERT INTO events (type, data, timestamp) VALUES (?, ?, ?)", typeName, []byte(`{"i":-1}`), "not-a-timestamp")
				db.Close()
			}
			if err != nil {
				o.Failf("", "inserting the bad row: %v", err)
				return o
			}
		}
	}
	liveCalls.Store(0)
	from := eventbus.OffsetOldest
	if c.Start > 0 {
		from = offsets[c.Start-1]
	}
	rest := c.N - c.Start // events after the start offset
	if c.Config == "durable" && c.Batch > 0 {
		// A page of the paged replay is one server chunk.  A batch smaller
		// than a chunk cuts it short and loses the rest (listed finding of
		// C10/C11, probed separately); any batch that is at least as large as
		// every chunk of this replay is within the property.
		maxChunk, cur := 0, from
		for i := 0; i <= c.N+1; i++ {
			page, next, rerr := store.Read(bg, cur, 0)
			if rerr != nil || len(page) == 0 {
				break
			}
			if len(page) > maxChunk {
				maxChunk = len(page)
			}
			cur = next
		}
		if c.Batch < maxChunk {
			o.Exclude("durablestream:replay-batch-smaller-than-a-chunk(listed finding, probed separately)", 1)
			return o
		}
		if c.Batch < rest {
			o.Class("durable_paged_replay_over_several_pages")
		}
	}
	badAt := -1 // index (within the replayed suffix, 0-based) before which the bad row sits
	if c.Fault == "badrow" && c.K >= 1 && c.K <= c.N && sqlPath != "" {
		if c.K >= c.Start {
			badAt = c.K - c.Start
		}
	}

	// arm the fault
	switch c.Fault {
	case "cancel-before":
		cancel()
	case "store-read", "store-read-deadline", "store-read-eof":
		if base != nil {
			base.SetHook(func(op string, n, seq int, _ context.Context) storekit.Action {
				if op == "read" && n == c.K {
					faultFired.Store(true)
					if c.Fault == "store-read-eof" {
						// what net/http reports when the server hangs up
						// without answering: an error that wraps io.EOF
						return storekit.Action{Err: fmt.Errorf("store: Get \"http://store/v1/stream\": %w", io.EOF)}
					}
					if c.Fault == "store-read-deadline" {
						// the store's own timeout: an error of context class
						// while the caller's context is alive
						return storekit.Action{Err: fmt.Errorf("store: read timed out: %w", context.DeadlineExceeded)}
					}
					return storekit.Action{Err: storekit.ErrInjected}
				}
				return storekit.Action{}
			})
		}
	case "store-row", "store-row-deadline", "store-row-eof":
		if base != nil {
			base.SetHook(func(op string, n, seq int, _ context.Context) storekit.Action {
				if op == "row" && n == c.K {
					faultFired.Store(true)
					if c.Fault == "store-row-eof" {
						return storekit.Action{Err: fmt.Errorf("store: unexpected end of stream: %w", io.ErrUnexpectedEOF)}
					}
					if c.Fault == "store-row-deadline" {
						return storekit.Action{Err: fmt.Errorf("store: row fetch timed out: %w", context.DeadlineExceeded)}
					}
					return storekit.Action{Err: storekit.ErrInjected}
				}
				return storekit.Action{}
			})
		}
	case "cancel-in-read", "cancel-in-read-err":
		if base != nil {
			want := "read"
			if c.Config == "mem-stream" {
				want = "row"
			}
			base.SetHook(func(op string, n, seq int, _ context.Context) storekit.Action {
				if op == want && n == c.K {
					cancelFired.Store(true)
					cancel()
					if c.Fault == "cancel-in-read-err" {
						return storekit.Action{Err: context.Canceled}
					}
				}
				return storekit.Action{}
			})
		}
		if plan != nil {
			plan.CallNext = c.K
			plan.OnNext = func() { cancelFired.Store(true); cancel() }
			plan.Arm(true)
		}
		if srv != nil {
			base0 := int(srv.Requests())
			srv.SetFault(func(n int, r *http.Request) (int, error) {
				if n-base0 == c.K {
					cancelFired.Store(true)
					cancel()
				}
				return 0, nil
			})
		}
	case "sql-next":
		if plan != nil {
			plan.NextFail = c.K
			plan.Arm(true)
		}
	case "sql-query":
		if plan != nil {
			plan.QueryFail = c.K
			plan.Arm(true)
		}
	case "http-err", "http-500", "http-deadline", "http-eof":
		if srv != nil {
			base0 := int(srv.Requests())
			srv.SetFault(func(n int, r *http.Request) (int, error) {
				if n-base0 == c.K {
					faultFired.Store(true)
					if c.Fault == "http-500" {
						return 500, nil
					}
					if c.Fault == "http-eof" {
						return 0, io.EOF
					}
					if c.Fault == "http-deadline" {
						return 0, fmt.Errorf("client timeout: %w", context.DeadlineExceeded)
					}
					return 0, storekit.ErrInjected
				}
				return 0, nil
			})
		}
	}

	var got []int
	var gotOffsets []eventbus.Offset
	calls := 0
	nestedBad, nestedRan := "", false
	err := bus.Replay(ctx, from, func(se *eventbus.StoredEvent) error {
		calls++
		var e Ev
		if jerr := jsonUnmarshal(se.Data, &e); jerr != nil {
			e.I = -999
		}
		got = append(got, e.I)
		gotOffsets = append(gotOffsets, se.Offset)
		if c.Nested && c.Fault == "none" && c.Config != "durable" && calls == 2 {
			var inner []int
			nerr := bus.Replay(context.Background(), eventbus.OffsetOldest, func(ne *eventbus.StoredEvent) error {
				var x Ev
				if jsonUnmarshal(ne.Data, &x) != nil {
					x.I = -999
				}
				inner = append(inner, x.I)
				return nil
			})
			okInner := nerr == nil && len(inner) == c.N
			for j, v := range inner {
				okInner = okInner && v == j+1
			}
			if !okInner {
				nestedBad = fmt.Sprintf("a replay started from inside the callback of event %d delivered %v (err %v); the log holds events 1..%d", e.I, inner, nerr, c.N)
			}
			nestedRan = true
		}
		if c.Fault == "cberr" && calls == c.K {
			return errCallback
		}
		if c.Fault == "cancel-at" && calls == c.K {
			cancel()
		}
		return nil
	})
	if plan != nil {
		plan.Arm(false)
		nexts, _, _, queries := plan.Counts()
		if c.Fault == "sql-next" && nexts >= c.K {
			faultFired.Store(true)
		}
		if c.Fault == "sql-query" && queries >= c.K {
			faultFired.Store(true)
		}
	}
	if srv != nil {
		srv.SetFault(nil)
	}
	if base != nil {
		base.SetHook(nil)
	}
	bus.Wait()

	desc := fmt.Sprintf("%+v", *c)
	if nestedBad != "" {
		o.Failf("", "%s: %s", desc, nestedBad)
		return o
	}
	if nestedRan {
		o.Class("replay_started_from_inside_a_replay_callback")
	}
	// R1: gap-free, repeat-free, in-order prefix of log[start:]
	for j, v := range got {
		want := c.Start + j + 1
		if badAt >= 0 && j >= badAt {
			o.Failf("", "%s: the callback received event %d (%d) past the unscannable row", desc, j, v)
			return o
		}
		if v != want {
			o.Failf("", "%s: R1 callback %d received event %d, expected event %d (delivered %v): not a gap-free in-order prefix of the log after the start offset", desc, j+1, v, want, got)
			return o
		}
	}
	if len(got) > rest {
		o.Failf("", "%s: R1 delivered %d events, only %d are stored after the start offset", desc, len(got), rest)
		return o
	}
	// R2: nil => everything was delivered
	if err == nil && len(got) != rest {
		o.Failf(c.sig("nil-after-partial-delivery"), "%s: R2 Replay returned nil after delivering %d of %d events %v", desc, len(got), rest, got)
		return o
	}
	if err == nil && badAt >= 0 {
		o.Failf("", "%s: Replay returned nil although a stored row could not be decoded", desc)
		return o
	}
	// R3: callback error
	if c.Fault == "cberr" && c.K >= 1 && c.K <= rest {
		if err == nil || !errors.Is(err, errCallback) {
			o.Failf("", "%s: R3 callback failed at event %d, Replay returned %v (must wrap the callback's error)", desc, c.K, err)
			return o
		}
		if len(got) != c.K {
			o.Failf("", "%s: R3 callback failed at event %d but %d events were delivered", desc, c.K, len(got))
			return o
		}
	}
	// R4: cancellation
	if c.Fault == "cancel-before" && rest > 0 && err == nil {
		o.Failf("", "%s: R4 context cancelled before the call, %d events to deliver, Replay returned nil", desc, rest)
		return o
	}
	if c.Fault == "cancel-at" && c.K >= 1 && c.K < rest && err == nil {
		o.Failf(c.sig("nil-after-cancel"), "%s: R4 context cancelled during event %d of %d, Replay returned nil (delivered %d)", desc, c.K, rest, len(got))
		return o
	}
	// R5: a store failure that happened must surface
	if faultFired.Load() && err == nil {
		o.Failf(c.sig("nil-after-store-failure"), "%s: R5 an injected store failure occurred during the replay, Replay returned nil (delivered %d of %d)", desc, len(got), rest)
		return o
	}
	// R6: no subscribed handler ran
	if n := liveCalls.Load(); n != 0 {
		o.Failf("", "%s: R6 subscribed handlers were invoked %d times during Replay", desc, n)
		return o
	}
	// R7: the log is unchanged
	all, rerr := readAll(store)
	wantLen := c.N
	if c.Fault == "badrow" && sqlPath != "" && c.K >= 1 && c.K <= c.N {
		// the bad row makes a full read fail; count rows directly
		db, derr := sql.Open("sqlite", "file:"+sqlPath)
		if derr == nil {
			var cnt int
			db.QueryRow("SELECT COUNT(*) FROM events").Scan(&cnt)
			db.Close()
			if cnt != c.N+1 {
				o.Failf("", "%s: R7 the store holds %d rows after Replay, %d before", desc, cnt, c.N+1)
			}
		}
	} else if rerr != nil {
		o.Failf("", "%s: reading the log after Replay failed: %v", desc, rerr)
	} else if len(all) != wantLen {
		o.Failf("", "%s: R7 the store holds %d events after Replay, %d before", desc, len(all), wantLen)
	}

	// classification
	pages := 1
	switch c.Config {
	case "mem-paged":
		b := c.Batch
		if b <= 0 {
			b = 100
		}
		pages = (rest + b - 1) / b
	case "sqlite-batched", "sqlitemem-batched":
		if c.Batch > 0 {
			pages = (rest + c.Batch - 1) / c.Batch
		}
	case "durable":
		if srv != nil {
			pages = int(srv.Requests()) // coarse
		}
	}
	inside := (c.Fault != "none" && c.K >= 1 && c.K < rest) || (c.Start > 0 && c.Start < c.N)
	if pages >= 2 && inside {
		o.Nontrivial = true
		o.Class("multi_page_with_fault_or_start_inside")
	}
	o.Class("config_" + c.Config)
	if c.Fill != "" {
		o.Class("fill_" + c.Fill)
	}
	o.Class("fault_" + c.Fault)
	if faultFired.Load() {
		o.Class("store_fault_fired")
	}
	if cancelFired.Load() {
		o.Class("cancelled_during_store_read")
		if len(got) < rest {
			o.Class("cancelled_during_store_read_before_the_end")
		}
	}
	return o
}

func (c *Case) sig(what string) string {
	return ""
}

func readAll(store eventbus.EventStore) ([]*eventbus.StoredEvent, error) {
	var all []*eventbus.StoredEvent
	cur := eventbus.OffsetOldest
	for i := 0; i < 1000; i++ {
		page, next, err := store.Read(context.Background(), cur, 0)
		if err != nil {
			return nil, err
		}
		if len(page) == 0 {
			break
		}
		all = append(all, page...)
		cur = next
	}
	return all, nil
}
