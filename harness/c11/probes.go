//go:build verif

package c11

import (
	"context"
	"fmt"

	eventbus "github.com/jilio/ebu"
	"verif/storekit"
	"verif/vkit"
)

// Probes re-observes the known finding behind the durable-streams exclusion:
// a replay batch smaller than the number of events in a server chunk.
func Probes() *vkit.Outcome {
	o := &vkit.Outcome{}
	srv := storekit.NewDSServer(0)
	st, err := srv.Open("probe")
	if err != nil {
		o.Failf("", "probe open: %v", err)
		return o
	}
	for i := 1; i <= 5; i++ {
		st.Append(context.Background(), &eventbus.Event{Type: "t", Data: []byte(fmt.Sprintf(`{"i":%d}`, i))})
	}
	bus := eventbus.New(eventbus.WithStore(st), eventbus.WithReplayBatchSize(2))
	n := 0
	err = bus.Replay(context.Background(), eventbus.OffsetOldest, func(*eventbus.StoredEvent) error { n++; return nil })
	if err == nil && n != 5 {
		o.Failf("durablestream:replay-batch-smaller-than-chunk", "probe: 5 events in one server chunk, replay batch size 2: Replay delivered %d of 5 events and returned nil", n)
	}
	return o
}
