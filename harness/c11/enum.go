//go:build verif

package c11

// EnumSmall enumerates completely the sub-space: log length n <= maxN, every
// configuration (with a fixed set of batch/chunk sizes), every start offset,
// every fault kind applicable to the configuration and every fault position.
func EnumSmall(maxN int, visit func(*Case)) {
	type cfg struct {
		name  string
		batch int
		chunk int
	}
	cfgs := []cfg{{"mem-stream", 0, 0}}
	for _, b := range []int{0, 1, 2, 3, 7} {
		cfgs = append(cfgs, cfg{"mem-paged", b, 0})
	}
	cfgs = append(cfgs, cfg{"sqlite", 0, 0})
	for _, b := range []int{1, 2, 3} {
		cfgs = append(cfgs, cfg{"sqlite-batched", b, 0})
	}
	cfgs = append(cfgs, cfg{"sqlitemem", 0, 0}, cfg{"sqlitemem-batched", 1, 0}, cfg{"sqlitemem-batched", 3, 0})
	for _, ch := range []int{1, 60, 0} {
		cfgs = append(cfgs, cfg{"durable", 0, ch})
	}
	fills := []string{"", "bus", "mixed"}
	for ci, cf := range cfgs {
		faults := map[string]bool{}
		for _, f := range faultsFor(cf.name) {
			faults[f] = true
		}
		var fl []string
		for _, f := range []string{"none", "cberr", "cancel-before", "cancel-at", "store-read", "store-read-deadline", "store-read-eof", "store-row", "store-row-deadline", "store-row-eof", "cancel-in-read", "cancel-in-read-err", "sql-next", "sql-query", "badrow", "http-err", "http-500", "http-deadline", "http-eof"} {
			if faults[f] {
				fl = append(fl, f)
			}
		}
		for n := 0; n <= maxN; n++ {
			for start := 0; start <= n; start++ {
				for _, f := range fl {
					fill := fills[(ci+n+start)%len(fills)]
					if f == "badrow" {
						fill = ""
					}
					if f == "none" || f == "cancel-before" {
						for _, fl2 := range fills {
							visit(&Case{Config: cf.name, Batch: cf.batch, Chunk: cf.chunk, N: n, Start: start, Fault: f, Fill: fl2})
						}
						continue
					}
					maxK := n - start + 2
					if f == "badrow" {
						maxK = n + 1
					}
					for k := 1; k <= maxK; k++ {
						visit(&Case{Config: cf.name, Batch: cf.batch, Chunk: cf.chunk, N: n, Start: start, Fault: f, K: k, Fill: fill})
					}
				}
			}
		}
	}
}
