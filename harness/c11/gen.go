//go:build verif

package c11

import "pgregory.net/rapid"

var configs = []string{"mem-stream", "mem-paged", "mem-paged", "sqlite", "sqlite-batched", "sqlite-batched", "sqlitemem", "sqlitemem-batched", "durable", "durable"}

func faultsFor(config string) []string {
	common := []string{"none", "cberr", "cberr", "cancel-before", "cancel-at", "cancel-at"}
	switch config {
	case "mem-stream":
		return append(common, "store-row", "store-row", "store-row-deadline", "store-row-eof", "cancel-in-read", "cancel-in-read-err")
	case "mem-paged":
		return append(common, "store-read", "store-read", "store-read-deadline", "store-read-eof", "cancel-in-read", "cancel-in-read", "cancel-in-read-err")
	case "sqlite", "sqlite-batched":
		return append(common, "sql-next", "sql-next", "sql-query", "badrow", "cancel-in-read")
	case "durable":
		return append(common, "http-err", "http-500", "http-deadline", "http-eof", "cancel-in-read")
	}
	return common
}

// Gen draws a case; cfgs restricts the configurations ("" = all).
func Gen(cfgs []string) func(t *rapid.T) *Case {
	return func(t *rapid.T) *Case {
		c := &Case{}
		c.Config = rapid.SampledFrom(cfgs).Draw(t, "config")
		c.N = rapid.IntRange(0, 25).Draw(t, "n")
		c.Start = rapid.IntRange(0, c.N).Draw(t, "start")
		switch c.Config {
		case "mem-paged":
			c.Batch = rapid.SampledFrom([]int{0, 1, 2, 3, 4, 5, 6, 7}).Draw(t, "batch")
		case "sqlite-batched", "sqlitemem-batched":
			c.Batch = rapid.IntRange(1, 7).Draw(t, "batch")
		case "durable":
			c.Chunk = rapid.SampledFrom([]int{1, 60, 130, 300, 0}).Draw(t, "chunk")
			// batches smaller than a server chunk cut it short (listed finding,
			// probed separately): the interpreter measures the chunks of the
			// replay and only judges batches that are at least that large
			c.Batch = rapid.SampledFrom([]int{0, 1, 2, 3, 4, 5, 7, 8, 25, 26, 100}).Draw(t, "batch")
		}
		c.DupStore = rapid.IntRange(0, 3).Draw(t, "dupStore") == 0
		c.Fill = rapid.SampledFrom([]string{"", "", "bus", "mixed"}).Draw(t, "fill")
		c.Fault = rapid.SampledFrom(faultsFor(c.Config)).Draw(t, "fault")
		if c.Fault == "badrow" {
			c.Fill = ""
		}
		c.Nested = c.Fault == "none" && c.Config != "durable" && rapid.Bool().Draw(t, "nested")
		if c.Fault != "none" && c.Fault != "cancel-before" {
			c.K = rapid.IntRange(1, c.N-c.Start+2).Draw(t, "k")
			if c.Fault == "badrow" {
				c.K = rapid.IntRange(1, c.N+1).Draw(t, "k")
			}
		}
		return c
	}
}
