//go:build verif

package c11

import (
	"testing"

	"verif/vkit"
)

const rule = "configuration x log x fault: store in {memory streaming, memory behind a non-streaming wrapper with replay batch 1-7 or default, SQLite unbatched, SQLite stream batch 1-7, durable-streams with drawn chunk size}, log length 0-25 written directly to the store, published through the replaying bus itself, or half and half (another writer), start at any position, fault in {none, callback error at event k, context cancelled before the call or by the callback at event k, store failure at page/row/query/request k (wrapper stores, guarded SQLite fault driver, RoundTripper), unscannable SQLite row}; the bus has live subscribers. Oracle R1-R7: callbacks are a gap-free in-order prefix of log[start:], nil => all delivered, callback error => wrapped and exactly k delivered, cancellation before the end => non-nil, a store failure that occurred => non-nil, no subscribed handler ran, store length unchanged. Non-trivial = >=2 pages/batches to deliver AND (a fault strictly inside the log or a start strictly inside it)."

var all = []string{"mem-stream", "mem-paged", "mem-paged", "sqlite", "sqlite-batched", "sqlite-batched", "sqlitemem", "sqlitemem-batched", "durable", "durable"}

var collMem = vkit.NewCollector("C11", "TestReplayMemory", rule)
var collSQL = vkit.NewCollector("C11", "TestReplaySQLite", rule)
var collDS = vkit.NewCollector("C11", "TestReplayDurable", rule)

func TestMain(m *testing.M) { vkit.Main(m) }

func TestReplayMemory(t *testing.T) {
	vkit.Check(t, collMem, Gen([]string{"mem-stream", "mem-paged", "mem-paged"}), Run)
}
func TestReplaySQLite(t *testing.T) {
	vkit.Check(t, collSQL, Gen([]string{"sqlite", "sqlite-batched", "sqlite-batched", "sqlitemem", "sqlitemem-batched"}), Run)
}
func TestReplayDurable(t *testing.T) { vkit.Check(t, collDS, Gen([]string{"durable"}), Run) }

var collEnum = vkit.NewCollector("C11", "TestEnumSmall", "complete enumeration of the sub-space: log length n<=6 (quick: n<=3) x every configuration (replay batch in {default,1,2,3,7}, SQLite stream batch in {1,2,3}, durable chunk in {1 byte, 60 bytes, default}) x every start offset x every applicable fault kind x every fault position 1..rest+2; same oracle R1-R7. Every case of the sub-space is run (sharded by index).")
var collProbe = vkit.NewCollector("C11", "TestKnownProbes", "deterministic replay of the input behind the listed known finding")

func TestEnumSmall(t *testing.T) {
	maxN := 3
	if vkit.Tier() == "thorough" {
		maxN = 6
	}
	shard, shards := vkit.Shard()
	i := 0
	EnumSmall(maxN, func(c *Case) {
		i++
		if i%shards != shard {
			return
		}
		if v := collEnum.Account(c, Run(c)); v != nil {
			vkit.SaveFail("C11", "TestEnumSmall", c, v)
			t.Fatalf("%s", v.Error())
		}
	})
	collEnum.SetExhaustive(true)
}

var collDuring = vkit.NewCollector("C11", "TestReplayWhileAppending", "memory store (streaming or paged, batch 0/7/1000) with 0-20000 stored events; a goroutine appends 1-40 more (directly or by publishing through the bus) while 1-6 replays run from a start offset (oldest, middle or end of the initial log); then, with the log at rest, one more replay from the same offset. Oracle: an overlapping replay delivers a gap-free in-order prefix containing at least everything stored when it began; the replay over the quiescent log delivers every stored event after the offset and returns nil. Non-trivial = at least 50 events stored before the overlap.")

func TestReplayWhileAppending(t *testing.T) { vkit.Check(t, collDuring, GenDuring, RunDuring) }

func TestKnownProbes(t *testing.T) {
	if v := collProbe.Judge(Probes().Viol); v != nil {
		vkit.SaveFail("C11", "TestKnownProbes", map[string]string{"probe": v.Sig}, v)
		t.Fatalf("%s", v.Error())
	}
}

func TestReplay(t *testing.T) {
	r := vkit.NeedReplay(t)
	_ = vkit.ReplayCase(t, r, collEnum, Run) || vkit.ReplayCase(t, r, collMem, Run) || vkit.ReplayCase(t, r, collSQL, Run) || vkit.ReplayCase(t, r, collDS, Run) || vkit.ReplayCase(t, r, collDuring, RunDuring)
}
