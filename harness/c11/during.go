//go:build verif

package c11

import (
	"context"
	"fmt"
	"runtime"
	"sync"

	eventbus "github.com/jilio/ebu"
	"pgregory.net/rapid"
	"verif/storekit"
	"verif/vkit"
)

// DuringCase: replays run while another goroutine appends to the log, and
// then - the log at rest again - one more replay from the same start offset.
// A replay that overlaps appends delivers a gap-free in-order prefix that
// contains at least everything stored when it began; the replay over the
// quiescent log delivers every stored event after the offset and returns nil.
type DuringCase struct {
	Config  string `json:"config"` // mem-stream mem-paged
	Pre     int    `json:"pre"`    // events stored before anything overlaps
	Add     int    `json:"add"`    // events appended while replays run
	Start   int    `json:"start"`  // replays start after this many events (<= Pre)
	Replays int    `json:"replays"`
	Batch   int    `json:"batch,omitempty"`
	ViaBus  bool   `json:"via_bus,omitempty"` // the appender publishes through the bus instead of appending directly
	// Appenders > 1: that many goroutines append directly to the store at the
	// same time (several writers sharing one store).  Their events carry ids
	// in no particular order, so replays are judged by offsets: strictly
	// increasing along every replay, no event twice, and the replay over the
	// log at rest delivers every stored event.
	Appenders int `json:"appenders,omitempty"`
	Procs     int `json:"procs"`
}

func GenDuring(t *rapid.T) *DuringCase {
	c := &DuringCase{Config: rapid.SampledFrom([]string{"mem-stream", "mem-stream", "mem-paged"}).Draw(t, "config"),
		Pre: rapid.SampledFrom([]int{0, 3, 50, 2000, 20000}).Draw(t, "pre"), Add: rapid.IntRange(1, 40).Draw(t, "add"),
		Replays: rapid.IntRange(1, 6).Draw(t, "replays"), ViaBus: rapid.Bool().Draw(t, "viaBus"), Procs: rapid.SampledFrom([]int{2, 4, 16}).Draw(t, "procs")}
	c.Start = rapid.SampledFrom([]int{0, 0, c.Pre / 2, c.Pre}).Draw(t, "start")
	if rapid.IntRange(0, 2).Draw(t, "multi") == 0 {
		c.Appenders = rapid.IntRange(2, 6).Draw(t, "appenders")
		c.ViaBus = false
	}
	if c.Config == "mem-paged" {
		c.Batch = rapid.SampledFrom([]int{0, 7, 1000}).Draw(t, "batch")
	}
	return c
}

func RunDuring(c *DuringCase) *vkit.Outcome {
	o := &vkit.Outcome{}
	if c.Procs > 0 {
		defer runtime.GOMAXPROCS(runtime.GOMAXPROCS(c.Procs))
	}
	ms := eventbus.NewMemoryStore()
	store, _ := storekit.Wrap(ms, c.Config == "mem-stream", true)
	opts := []eventbus.Option{eventbus.WithStore(store)}
	if c.Batch > 0 {
		opts = append(opts, eventbus.WithReplayBatchSize(c.Batch))
	}
	bus := eventbus.New(opts...)
	bg := context.Background()
	typeName := eventbus.EventType(Ev{})
	var from eventbus.Offset = eventbus.OffsetOldest
	for i := 1; i <= c.Pre; i++ {
		off, err := store.Append(bg, &eventbus.Event{Type: typeName, Data: []byte(fmt.Sprintf(`{"i":%d}`, i))})
		if err != nil {
			o.Failf("", "filling the log: %v", err)
			return o
		}
		if i == c.Start {
			from = off
		}
	}
	multi := c.Appenders > 1
	replay := func(what string, atLeast, exactly int) bool {
		want := c.Start + 1
		n := 0
		var prev eventbus.Offset
		seen := map[int]bool{}
		err := bus.Replay(bg, from, func(se *eventbus.StoredEvent) error {
			var e Ev
			if jsonUnmarshal(se.Data, &e) != nil {
				return fmt.Errorf("callback %d received undecodable data %s", n+1, se.Data)
			}
			if multi {
				if n > 0 && !(se.Offset > prev) {
					return fmt.Errorf("callback %d received offset %q after %q: not in log order", n+1, se.Offset, prev)
				}
				if seen[e.I] {
					return fmt.Errorf("callback %d received event %d a second time", n+1, e.I)
				}
				seen[e.I] = true
				prev = se.Offset
			} else if e.I != want {
				return fmt.Errorf("callback %d received event %d, expected event %d", n+1, e.I, want)
			}
			want++
			n++
			return nil
		})
		if err != nil {
			o.Failf("", "%+v: %s: %v", *c, what, err)
			return false
		}
		if n < atLeast || (exactly >= 0 && n != exactly) {
			o.Failf("", "%+v: %s returned nil after delivering %d events; %d were stored after the start offset when it began%s", *c, what, n, atLeast, map[bool]string{true: " and nothing was appended meanwhile", false: ""}[exactly >= 0])
			return false
		}
		return true
	}
	var wg sync.WaitGroup
	nApp := 1
	if multi {
		nApp = c.Appenders
	}
	for a := 0; a < nApp; a++ {
		wg.Add(1)
		go func(a int) {
			defer wg.Done()
			for k := 0; k < c.Add; k++ {
				i := c.Pre + 1 + a*c.Add + k
				if c.ViaBus {
					eventbus.Publish(bus, Ev{I: i})
				} else {
					store.Append(bg, &eventbus.Event{Type: typeName, Data: []byte(fmt.Sprintf(`{"i":%d}`, i))})
				}
				runtime.Gosched()
			}
		}(a)
	}
	ok := true
	for r := 0; r < c.Replays && ok; r++ {
		ok = replay(fmt.Sprintf("replay %d (overlapping appends)", r+1), c.Pre-c.Start, -1)
	}
	wg.Wait()
	bus.Wait()
	if !ok {
		return o
	}
	total := c.Pre + nApp*c.Add - c.Start
	if !replay("the replay over the log at rest", total, total) {
		return o
	}
	o.Nontrivial = c.Pre >= 50
	if o.Nontrivial {
		o.Class("replays_overlapping_appends_on_a_long_log")
	}
	return o
}
