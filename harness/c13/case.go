//go:build verif

// Package c13 decides property C13: persistence failures are contained,
// reported once and never corrupt the log.
package c13

import (
	"context"
	"encoding/json"
	"errors"
	"fmt"
	"math"
	"reflect"
	"sync"
	"sync/atomic"
	"time"

	eventbus "github.com/jilio/ebu"
	"verif/storekit"
	"verif/vkit"
)

type Good struct {
	ID int    `json:"id"`
	S  string `json:"s"`
}
type BadChan struct {
	ID int      `json:"id"`
	C  chan int `json:"c"`
}
type BadFunc struct {
	ID int    `json:"id"`
	F  func() `json:"f"`
}
type BadNaN struct {
	ID int     `json:"id"`
	F  float64 `json:"f"`
}

// BadM brings its own encoder, which returns text that is not JSON (and no
// error): encoding/json refuses such output, so the event has no encoding.
type BadM struct {
	ID int
}

func (b BadM) MarshalJSON() ([]byte, error) { return []byte(fmt.Sprintf(`{"id":%d`, b.ID)), nil }

// Dyn is encodable or not depending on the value of its dynamic part.
type Dyn struct {
	ID      int            `json:"id"`
	Payload any            `json:"payload"`
	M       map[string]any `json:"m,omitempty"`
}

// Pub is one publish of the run.
type Pub struct {
	Kind string `json:"kind"` // ok badchan badfunc badnan reject timeout dynok dynbad dynbadmap dynreject
}

type Case struct {
	Pubs       []Pub  `json:"pubs"`
	ErrHandler bool   `json:"err_handler"`
	SetLater   bool   `json:"set_later,omitempty"` // install the error handler with SetPersistenceErrorHandler
	Store      string `json:"store"`               // memory sqlite
	CloseAt    int    `json:"close_at,omitempty"`  // sqlite: close the store before publish CloseAt (1-based; 0 = never)
	Handlers   int    `json:"handlers"`            // 1-3 handlers per type
	Async      bool   `json:"async,omitempty"`     // the last handler is asynchronous
	UseCtx     bool   `json:"usectx,omitempty"`
	// Notify: the persistence error handler publishes a Notice event on the
	// same bus for every failure it is told about (a dead-letter notification).
	Notify bool `json:"notify,omitempty"`
	// ReplaySub: one more handler of the plain event type is subscribed
	// through SubscribeWithReplay (empty log: a live subscription that also
	// records its position).  A failed persistence does not keep an event
	// from any of its handlers.
	ReplaySub bool `json:"replay_sub,omitempty"`
	// Obs: an Observability implementation is installed as well (tracing in
	// production).  Who is told about a persistence failure does not depend on it.
	Obs bool `json:"obs,omitempty"`
	// ViaAny: events are published through the static type any.
	ViaAny bool `json:"via_any,omitempty"`
}

// obsPlain is an Observability that derives a context of its own at every start.
type obsPlain struct{}

type obsKey struct{}

func (obsPlain) OnPublishStart(ctx context.Context, _ string, _ any) context.Context {
	return context.WithValue(ctx, obsKey{}, "publish")
}
func (obsPlain) OnPublishComplete(context.Context, string) {}
func (obsPlain) OnHandlerStart(ctx context.Context, _ string, _ bool) context.Context {
	return context.WithValue(ctx, obsKey{}, "handler")
}
func (obsPlain) OnHandlerComplete(context.Context, time.Duration, error) {}
func (obsPlain) OnPersistStart(ctx context.Context, _ string, _ int64) context.Context {
	return context.WithValue(ctx, obsKey{}, "persist")
}
func (obsPlain) OnPersistComplete(context.Context, time.Duration, error) {}

// Notice is what a notifying error handler publishes.
type Notice struct {
	For int `json:"notice_for"`
}

type report struct {
	id  int
	typ reflect.Type
	err error
}

func idOfAny(ev any) int {
	switch e := ev.(type) {
	case Good:
		return e.ID
	case BadChan:
		return e.ID
	case BadFunc:
		return e.ID
	case BadNaN:
		return e.ID
	case BadM:
		return e.ID
	case Dyn:
		return e.ID
	}
	return -1
}

// Run executes the case under a watchdog: nothing in it waits on purpose
// beyond 2-6 ms store delays, so 20 s without an end, twice, is a hang.
func Run(c *Case) *vkit.Outcome {
	var res *vkit.Outcome
	timedOut, dump := vkit.Watchdog(20*time.Second, func() { res = run(c) })
	if timedOut {
		again, dump2 := vkit.Watchdog(20*time.Second, func() { res = run(c) })
		if again {
			o := &vkit.Outcome{}
			if len(dump2) > 6000 {
				dump2 = dump2[:6000]
			}
			o.Failf("", "%+v: the run of publishes did not finish within 20 s, twice (Publish or Wait blocked after a persistence failure); goroutines:\n%s", *c, dump2)
			return o
		}
		_ = dump
	}
	return res
}

func run(c *Case) *vkit.Outcome {
	o := &vkit.Outcome{}
	storekit.SetVariant(vkit.HashOf(c))
	var inner eventbus.EventStore
	var sq interface{ Close() error }
	switch c.Store {
	case "sqlite":
		dir, cleanup := storekit.TempDir("c13-")
		defer cleanup()
		st, err := storekit.OpenSQLite(dir, "f.db")
		if err != nil {
			o.Failf("", "open: %v", err)
			return o
		}
		defer st.Close()
		inner, sq = st, st
	default:
		inner = eventbus.NewMemoryStore()
	}
	store, base := storekit.Wrap(inner, true, true)

	// which append (by order of arrival at the wrapper) is rejected / blocked
	var mu sync.Mutex
	plan := map[int]string{} // append call number -> reject|timeout
	appendNo := 0
	closed := false
	for i, p := range c.Pubs {
		if c.Store == "sqlite" && c.CloseAt > 0 && i+1 >= c.CloseAt {
			closed = true
		}
		switch p.Kind {
		case "ok", "reject", "timeout", "slowok", "lostack", "dynok", "dynreject":
			appendNo++
			if p.Kind == "reject" || p.Kind == "dynreject" {
				plan[appendNo] = "reject"
			} else if p.Kind == "timeout" || p.Kind == "slowok" || p.Kind == "lostack" {
				plan[appendNo] = p.Kind
			}
		}
	}
	_ = closed
	// The persistence timeout is real time (2 ms).  An append that the plan
	// lets through can still time out inside a slow inner store (SQLite on a
	// busy machine): that is the environment, not the bus - the case is then
	// not judged.
	var envTimeouts atomic.Int32
	var curPlanned atomic.Value       // kind planned for the append in flight
	var innerAppendFailed atomic.Bool // the inner store itself refused the append in flight
	base.OnInnerError = func(op string, err error) {
		if op == "append" {
			innerAppendFailed.Store(true)
		}
		if !errors.Is(err, context.DeadlineExceeded) && !errors.Is(err, context.Canceled) {
			return
		}
		if op == "append-bypass" {
			envTimeouts.Add(1) // a notice timed out inside the inner store
			return
		}
		// planned successes - and the "lostack" append, whose record the inner
		// store is meant to write before the acknowledgement is dropped
		if k, _ := curPlanned.Load().(string); k == "" || k == "lostack" {
			envTimeouts.Add(1)
		}
	}
	base.SetHook(func(op string, n, seq int, ctx context.Context) storekit.Action {
		if op != "append" {
			return storekit.Action{}
		}
		curPlanned.Store(plan[n])
		switch plan[n] {
		case "reject":
			if n%3 == 2 {
				// the store's own per-operation deadline passed (an HTTP client
				// timeout, say): a refusal like any other, whatever the bus's
				// own persistence context says
				return storekit.Action{Err: fmt.Errorf("store: write timed out: %w (%w)", storekit.ErrInjected, context.DeadlineExceeded)}
			}
			if n%2 == 0 {
				// the same refusal, calling itself temporary: still one attempt, one report
				return storekit.Action{Err: fmt.Errorf("store: %w", storekit.ErrInjectedTemp)}
			}
			return storekit.Action{Err: storekit.ErrInjected}
		case "timeout":
			return storekit.Action{Block: true}
		case "lostack":
			// the record is written, the acknowledgement is lost
			return storekit.Action{ErrAfter: storekit.ErrInjected}
		case "slowok":
			// outlasts the 2 ms persistence timeout without looking at the
			// context; what happens then is up to the inner store
			return storekit.Action{Delay: 6 * time.Millisecond}
		}
		return storekit.Action{}
	})

	var reports []report
	var bus *eventbus.EventBus
	var noticeReports, noticesDelivered atomic.Int32
	noticeType := eventbus.EventType(Notice{})
	base.Bypass = func(e *eventbus.Event) bool { return e.Type == noticeType }
	errHandler := func(ev any, t reflect.Type, err error) {
		if _, isNotice := ev.(Notice); isNotice {
			noticeReports.Add(1) // a notice that could not be stored (closed store): no further notice
			return
		}
		mu.Lock()
		reports = append(reports, report{idOfAny(ev), t, err})
		mu.Unlock()
		if c.Notify && bus != nil {
			eventbus.Publish(bus, Notice{For: idOfAny(ev)})
		}
	}
	opts := []eventbus.Option{eventbus.WithStore(store), eventbus.WithPersistenceTimeout(2 * time.Millisecond)}
	if c.ErrHandler && !c.SetLater {
		opts = append(opts, eventbus.WithPersistenceErrorHandler(errHandler))
	}
	if c.Obs {
		opts = append(opts, eventbus.WithObservability(obsPlain{}))
	}
	bus = eventbus.New(opts...)
	eventbus.Subscribe(bus, func(Notice) { noticesDelivered.Add(1) })
	if c.ErrHandler && c.SetLater {
		bus.SetPersistenceErrorHandler(errHandler)
	}

	delivered := map[int]int{} // event id -> handler invocations
	inStore := map[int]int{}   // event id -> records seen from inside the first handler
	handle := func(hi, id int) {
		mu.Lock()
		delivered[id]++
		mu.Unlock()
		if hi == 0 {
			// the first handler reads the store
			evs, _, err := inner.Read(context.Background(), eventbus.OffsetOldest, 0)
			n := 0
			if err == nil {
				for _, se := range evs {
					var x struct {
						ID int `json:"id"`
					}
					if json.Unmarshal(se.Data, &x) == nil && x.ID == id {
						n++
					}
				}
			} else {
				n = -1
			}
			mu.Lock()
			inStore[id] = n
			mu.Unlock()
		}
	}
	for hi := 0; hi < c.Handlers; hi++ {
		hi := hi
		var so []eventbus.SubscribeOption
		if c.Async && hi == c.Handlers-1 && hi > 0 {
			so = append(so, eventbus.Async())
		}
		eventbus.Subscribe(bus, func(e Good) { handle(hi, e.ID) }, so...)
		eventbus.Subscribe(bus, func(e BadChan) { handle(hi, e.ID) }, so...)
		eventbus.SubscribeContext(bus, func(_ context.Context, e BadFunc) { handle(hi, e.ID) }, so...)
		eventbus.Subscribe(bus, func(e BadNaN) { handle(hi, e.ID) }, so...)
		eventbus.Subscribe(bus, func(e BadM) { handle(hi, e.ID) }, so...)
		eventbus.Subscribe(bus, func(e Dyn) { handle(hi, e.ID) }, so...)
	}

	rsDelivered := map[int]int{}
	if c.ReplaySub {
		if err := eventbus.SubscribeWithReplay(context.Background(), bus, "c13-sub", func(e Good) {
			mu.Lock()
			rsDelivered[e.ID]++
			mu.Unlock()
		}); err != nil {
			o.Failf("", "SubscribeWithReplay on the empty log failed: %v", err)
			return o
		}
	}

	type exp struct {
		kind    string
		failed  bool
		typ     reflect.Type
		present bool // failed, yet written: the store lost its acknowledgement
	}
	expect := map[int]exp{}
	var okOrder []int
	innerLostAcks := 0
	sqlClosed := false
	for i, p := range c.Pubs {
		id := i + 1
		if c.Store == "sqlite" && c.CloseAt == id && sq != nil {
			sq.Close()
			sqlClosed = true
		}
		var panicked any
		func() {
			defer func() { panicked = recover() }()
			pub := func(ev any) {}
			_ = pub
			switch p.Kind {
			case "badchan":
				e := BadChan{ID: id, C: make(chan int)}
				expect[id] = exp{p.Kind, true, reflect.TypeOf(e), false}
				publish(bus, c.UseCtx, c.ViaAny, e)
			case "badfunc":
				e := BadFunc{ID: id, F: func() {}}
				expect[id] = exp{p.Kind, true, reflect.TypeOf(e), false}
				publish(bus, c.UseCtx, c.ViaAny, e)
			case "badnan":
				e := BadNaN{ID: id, F: math.NaN()}
				expect[id] = exp{p.Kind, true, reflect.TypeOf(e), false}
				publish(bus, c.UseCtx, c.ViaAny, e)
			case "badmarshal":
				e := BadM{ID: id}
				expect[id] = exp{"badchan", true, reflect.TypeOf(e), false}
				publish(bus, c.UseCtx, c.ViaAny, e)
			case "dynok", "dynreject":
				e := Dyn{ID: id, Payload: map[string]any{"k": []any{1, "two"}}, M: map[string]any{"x": id}}
				failed := p.Kind == "dynreject" || sqlClosed
				expect[id] = exp{map[string]string{"dynok": "ok", "dynreject": "reject"}[p.Kind], failed, reflect.TypeOf(e), false}
				if !failed {
					okOrder = append(okOrder, id)
				}
				publish(bus, c.UseCtx, c.ViaAny, e)
			case "dynbad":
				e := Dyn{ID: id, Payload: make(chan int)}
				expect[id] = exp{"badchan", true, reflect.TypeOf(e), false}
				publish(bus, c.UseCtx, c.ViaAny, e)
			case "dynbadmap":
				e := Dyn{ID: id, Payload: "fine", M: map[string]any{"f": func() {}}}
				expect[id] = exp{"badfunc", true, reflect.TypeOf(e), false}
				publish(bus, c.UseCtx, c.ViaAny, e)
			case "lostack":
				// the store wrote the record and then reported an error: one
				// report, one Append call, and the record (the store's doing)
				// is in the log exactly once
				e := Good{ID: id, S: p.Kind}
				present := !sqlClosed
				expect[id] = exp{"lostack", true, reflect.TypeOf(e), present}
				if present {
					okOrder = append(okOrder, id)
				}
				publish(bus, c.UseCtx, c.ViaAny, e)
			case "slowok":
				// the memory store ignores the expired context and appends:
				// a success, nothing to report; SQLite refuses an expired
				// context: an ordinary timeout failure, nothing written.
				// Whether the context had expired when the inner store looked
				// at it is a matter of timers (on a starved machine 6 ms may
				// not be enough), so the expectation follows what the inner
				// store actually answered.
				e := Good{ID: id, S: p.Kind}
				innerAppendFailed.Store(false)
				publish(bus, c.UseCtx, c.ViaAny, e)
				failed := innerAppendFailed.Load() || sqlClosed
				kind := "ok"
				if failed {
					kind = "timeout"
				}
				// An inner store that answers "context deadline exceeded" may
				// already have written the row (the driver notices the expiry
				// after its INSERT went through): a lost acknowledgement of
				// the store's own making, seen on a starved machine.  Whether
				// the row exists is read from the inner store directly.
				present := false
				if failed && !sqlClosed {
					if evs, _, rerr := inner.Read(context.Background(), eventbus.OffsetOldest, 0); rerr == nil {
						for _, se := range evs {
							var x struct {
								ID int `json:"id"`
							}
							if se.Type != noticeType && json.Unmarshal(se.Data, &x) == nil && x.ID == id {
								present = true
							}
						}
					}
					if present {
						innerLostAcks++
					}
				}
				expect[id] = exp{kind, failed, reflect.TypeOf(e), present}
				if !failed || present {
					okOrder = append(okOrder, id)
				}
			default:
				e := Good{ID: id, S: p.Kind}
				failed := p.Kind != "ok" || sqlClosed
				expect[id] = exp{p.Kind, failed, reflect.TypeOf(e), false}
				if !failed {
					okOrder = append(okOrder, id)
				}
				publish(bus, c.UseCtx, c.ViaAny, e)
			}
		}()
		if panicked != nil {
			o.Failf("", "publish %d (%s) panicked: %v", id, p.Kind, panicked)
			return o
		}
	}
	bus.Wait()
	base.SetHook(nil)
	if n := envTimeouts.Load(); n > 0 {
		o.Exclude("case_not_judged_inner_store_slower_than_the_2ms_persistence_timeout", 1)
		return o
	}

	mu.Lock()
	defer mu.Unlock()
	desc := fmt.Sprintf("%+v", *c)
	nFail := 0
	for id, e := range expect {
		if delivered[id] != c.Handlers {
			o.Failf("", "%s: event %d (%s) was delivered to %d of %d handlers", desc, id, e.kind, delivered[id], c.Handlers)
			return o
		}
		if c.ReplaySub && e.typ == reflect.TypeOf(Good{}) && rsDelivered[id] != 1 {
			o.Failf("", "%s: event %d (%s) was delivered %d times to the handler subscribed through SubscribeWithReplay (a failed persistence must not keep an event from its handlers)", desc, id, e.kind, rsDelivered[id])
			return o
		}
		// record visible from inside the handler iff persisted
		if !sqlClosed || id < c.CloseAt {
			want := 1
			if e.failed && !e.present {
				want = 0
			}
			if got := inStore[id]; got != want && got != -1 {
				o.Failf("", "%s: while event %d (%s) was handled the store held %d records of it, expected %d", desc, id, e.kind, got, want)
				return o
			}
		}
		var mine []report
		for _, r := range reports {
			if r.id == id {
				mine = append(mine, r)
			}
		}
		if e.failed {
			nFail++
		}
		if c.ErrHandler {
			if e.failed && len(mine) != 1 {
				o.Failf("", "%s: the persistence error handler was called %d times for failed publish %d (%s), expected exactly once", desc, len(mine), id, e.kind)
				return o
			}
			if !e.failed && len(mine) != 0 {
				o.Failf("", "%s: the persistence error handler was called for successful publish %d: %v", desc, id, mine[0].err)
				return o
			}
			if e.failed {
				r := mine[0]
				if r.typ != e.typ {
					o.Failf("", "%s: error handler for publish %d received type %v, the event's type is %v", desc, id, r.typ, e.typ)
					return o
				}
				switch e.kind {
				case "reject":
					if !errors.Is(r.err, storekit.ErrInjected) {
						o.Failf("", "%s: error for rejected publish %d does not wrap the store's error: %v", desc, id, r.err)
						return o
					}
				case "timeout":
					if !sqlClosed && !errors.Is(r.err, context.DeadlineExceeded) {
						o.Failf("", "%s: error for timed-out publish %d does not wrap context.DeadlineExceeded: %v", desc, id, r.err)
						return o
					}
				case "badchan", "badfunc", "badnan":
					var ute *json.UnsupportedTypeError
					var uve *json.UnsupportedValueError
					var me *json.MarshalerError
					if !errors.As(r.err, &ute) && !errors.As(r.err, &uve) && !errors.As(r.err, &me) {
						o.Failf("", "%s: error for unencodable publish %d does not wrap the JSON error: %v", desc, id, r.err)
						return o
					}
				}
				if r.err == nil {
					o.Failf("", "%s: nil error reported for publish %d", desc, id)
					return o
				}
			}
		}
	}
	if c.ErrHandler && c.Notify {
		if got := int(noticesDelivered.Load()); got != len(reports) {
			o.Failf("", "%s: the error handler published %d notices on the bus, %d were delivered", desc, len(reports), got)
			return o
		}
		o.Class("error_handler_publishes_on_the_same_bus")
	}
	if innerLostAcks > 0 {
		o.Class("inner_store_reported_a_timeout_for_a_row_it_had_written")
	}
	if len(reports) != nFail && c.ErrHandler {
		o.Failf("", "%s: %d failures, %d reports", desc, nFail, len(reports))
		return o
	}
	// exactly one Append attempt per encodable publish (no retry)
	encodable := 0
	for _, p := range c.Pubs {
		if p.Kind == "ok" || p.Kind == "reject" || p.Kind == "timeout" || p.Kind == "slowok" || p.Kind == "lostack" || p.Kind == "dynok" || p.Kind == "dynreject" {
			encodable++
		}
	}
	if base.Appends != encodable {
		o.Failf("", "%s: the store saw %d Append calls for %d encodable publishes (no retry, no skipped attempt)", desc, base.Appends, encodable)
		return o
	}
	// the log holds exactly the successful events, in order, offsets increasing
	if !sqlClosed {
		evs, _, err := inner.Read(context.Background(), eventbus.OffsetOldest, 0)
		if err != nil {
			o.Failf("", "%s: reading the log: %v", desc, err)
			return o
		}
		var gotIDs []int
		kept := evs[:0:0]
		nNotices := 0
		for _, se := range evs {
			if se.Type == noticeType {
				nNotices++
				continue
			}
			kept = append(kept, se)
		}
		evs = kept
		if c.ErrHandler && c.Notify && nNotices != len(reports) {
			o.Failf("", "%s: %d notices were published by the error handler, the log holds %d of them", desc, len(reports), nNotices)
			return o
		}
		for i, se := range evs {
			var x struct {
				ID int `json:"id"`
			}
			json.Unmarshal(se.Data, &x)
			gotIDs = append(gotIDs, x.ID)
			if i > 0 {
				a, b := evs[i-1].Offset, se.Offset
				if !(len(a) < len(b) || (len(a) == len(b) && a < b)) {
					o.Failf("", "%s: offsets not increasing: %q then %q", desc, a, b)
					return o
				}
			}
		}
		if fmt.Sprint(gotIDs) != fmt.Sprint(okOrder) {
			o.Failf("", "%s: the log holds events %v, the successful publishes were %v", desc, gotIDs, okOrder)
			return o
		}
	}
	// classification: a failure that is first, last or adjacent to another, followed by a success
	for i, p := range c.Pubs {
		if !expect[i+1].failed {
			continue
		}
		adj := i == 0 || (i+1 < len(c.Pubs) && expect[i+2].failed) || (i > 0 && expect[i].failed)
		later := false
		for j := i + 1; j < len(c.Pubs); j++ {
			if !expect[j+1].failed {
				later = true
			}
		}
		if adj && later {
			o.Nontrivial = true
		}
		_ = p
	}
	if o.Nontrivial {
		o.Class("failure_first_or_adjacent_then_success")
	}
	if sqlClosed {
		o.Class("sqlite_store_closed")
	}
	for _, p := range c.Pubs {
		if p.Kind == "slowok" {
			o.Class("append_outlasting_the_timeout_in_a_store_that_ignores_contexts")
			break
		}
	}
	return o
}

func publish[T any](bus *eventbus.EventBus, useCtx, viaAny bool, e T) {
	if viaAny {
		// through the static type any: the event's type is its dynamic type
		var a any = e
		if useCtx {
			eventbus.PublishContext(bus, context.Background(), a)
		} else {
			eventbus.Publish(bus, a)
		}
		return
	}
	if useCtx {
		eventbus.PublishContext(bus, context.Background(), e)
	} else {
		eventbus.Publish(bus, e)
	}
}
