//go:build verif

package c13

import (
	"testing"

	"verif/vkit"
)

const rule = "runs of 1-30 publishes on a fresh persistent bus, each tagged ok / unencodable (chan field, func field, NaN, and a type with interface-typed parts that is encodable or not depending on the value) / append rejected by the store / persistence timeout (the store blocks until the persistence context ends) / an append that outlasts the timeout in a store that does not watch its context (a success on the memory store, an ordinary timeout failure on SQLite) and, on SQLite, 'store closed from publish k on'; error handler set by option, by setter, or absent, in a third of the cases publishing a notice event on the same bus for every failure (re-entrant use from the error handler); 1-3 handlers per type (the first reads the store while it runs, the last may be async). Oracle: no panic; every handler received every event; the error handler was called exactly once per failed publish with the event, its reflect.Type and an error wrapping the cause, never for a successful one; the store saw exactly one Append per encodable publish; the log holds exactly the successful events in publish order with increasing offsets, and a failed event is never visible from inside its handlers. Non-trivial = a failure that is first or adjacent to another failure, followed by a success."

var collMem = vkit.NewCollector("C13", "TestFailuresMemory", rule)
var collSQL = vkit.NewCollector("C13", "TestFailuresSQLite", rule)

func TestMain(m *testing.M) { vkit.Main(m) }

func TestFailuresMemory(t *testing.T) { vkit.Check(t, collMem, Gen("memory"), Run) }
func TestFailuresSQLite(t *testing.T) { vkit.Check(t, collSQL, Gen("sqlite"), Run) }

func TestReplay(t *testing.T) {
	r := vkit.NeedReplay(t)
	_ = vkit.ReplayCase(t, r, collMem, Run) || vkit.ReplayCase(t, r, collSQL, Run)
}
