//go:build verif

package c13

import (
	"testing"

	"verif/vkit"
)

const rule = "runs of 1-30 publishes on a fresh persistent bus, each tagged ok / unencodable (chan field, func field, NaN, an own MarshalJSON that returns text that is not JSON, and a type with interface-typed parts that is encodable or not depending on the value) / append rejected by the store / append written by the store, which then reports an error (lost acknowledgement: one report, one Append call, the record in the log once) / persistence timeout (the store blocks until the persistence context ends) / an append that outlasts the timeout in a store that does not watch its context (a success on the memory store, an ordinary timeout failure on SQLite) and, on SQLite, 'store closed from publish k on'; error handler set by option, by setter, or absent, in a third of the cases publishing a notice event on the same bus for every failure (re-entrant use from the error handler); 1-3 handlers per type (the first reads the store while it runs, the last may be async). Oracle: no panic; every handler received every event; the error handler was called exactly once per failed publish with the event, its reflect.Type and an error wrapping the cause, never for a successful one; the store saw exactly one Append per encodable publish; the log holds exactly the successful events in publish order with increasing offsets, and a failed event is never visible from inside its handlers. Non-trivial = a failure that is first or adjacent to another failure, followed by a success."

var collMem = vkit.NewCollector("C13", "TestFailuresMemory", rule)
var collSQL = vkit.NewCollector("C13", "TestFailuresSQLite", rule)

var collConc = vkit.NewCollector("C13", "TestConcurrentOutcome", "2-6 goroutines publish 1-5 events each on one persistent bus with a real 2 ms persistence timeout; the store (memory, optionally refusing calls whose context is done) rejects, stalls until the context ends, or delays chosen events, so publishers also queue behind each other's slow appends. Oracle, for every event and whatever the interleaving: delivered once, exactly one Append call reached the store, at most once in the log, and - with an error handler - in the log or reported, never both and never neither; an event the store refused is not in the log. Non-trivial = >=2 publishers with a stalled or delayed append among them.")

func TestMain(m *testing.M) { vkit.Main(m) }

func TestFailuresMemory(t *testing.T)    { vkit.Check(t, collMem, Gen("memory"), Run) }
func TestConcurrentOutcome(t *testing.T) { vkit.Check(t, collConc, GenConc, RunConc) }
func TestFailuresSQLite(t *testing.T)    { vkit.Check(t, collSQL, Gen("sqlite"), Run) }

func TestReplay(t *testing.T) {
	r := vkit.NeedReplay(t)
	_ = vkit.ReplayCase(t, r, collMem, Run) || vkit.ReplayCase(t, r, collSQL, Run) || vkit.ReplayCase(t, r, collConc, RunConc)
}
