//go:build verif

package c13

import (
	"context"
	"encoding/json"
	"fmt"
	"reflect"
	"runtime"
	"sync"
	"time"

	eventbus "github.com/jilio/ebu"
	"verif/storekit"
	"verif/vkit"
)

// ConcCase: several goroutines publish on one persistent bus whose store
// rejects, stalls or delays chosen events; the persistence timeout is real
// (2 ms), so publishers also queue behind each other's slow appends.
type ConcCase struct {
	Publishers [][]string `json:"publishers"` // per publisher: kinds ok reject block slow
	ErrHandler bool       `json:"err_handler"`
	Honour     bool       `json:"honour,omitempty"` // the store refuses calls whose context is done
	Procs      int        `json:"procs"`
	// EHDelayUs: the error handler takes this long, so reports of failures
	// from different publishers are in progress at the same time.
	EHDelayUs int `json:"eh_delay_us,omitempty"`
}

// RunConc: whatever the interleaving, every publish is delivered, reaches
// the store exactly once (no retry, no skipped attempt) and ends up either in
// the log or reported to the error handler - never both, never neither.
func RunConc(c *ConcCase) *vkit.Outcome {
	var res *vkit.Outcome
	timedOut, dump := vkit.Watchdog(30*time.Second, func() { res = runConc(c) })
	if timedOut {
		again, dump2 := vkit.Watchdog(30*time.Second, func() { res = runConc(c) })
		if again {
			o := &vkit.Outcome{}
			if len(dump2) > 6000 {
				dump2 = dump2[:6000]
			}
			o.Failf("", "%+v: concurrent publishes with persistence failures did not finish within 30 s, twice; goroutines:\n%s", *c, dump2)
			return o
		}
		_ = dump
	}
	return res
}

func runConc(c *ConcCase) *vkit.Outcome {
	o := &vkit.Outcome{}
	if c.Procs > 0 {
		defer runtime.GOMAXPROCS(runtime.GOMAXPROCS(c.Procs))
	}
	inner := eventbus.NewMemoryStore()
	store, base := storekit.Wrap(inner, true, true)
	base.HonourCtx = c.Honour
	kindOf := map[int]string{}
	id := 0
	for _, ks := range c.Publishers {
		for _, k := range ks {
			id++
			kindOf[id] = k
		}
	}
	var mu sync.Mutex
	attempts := map[int]int{}
	base.EventHook = func(e *eventbus.Event) storekit.Action {
		var x struct {
			ID int `json:"id"`
		}
		json.Unmarshal(e.Data, &x)
		mu.Lock()
		attempts[x.ID]++
		mu.Unlock()
		switch kindOf[x.ID] {
		case "reject":
			return storekit.Action{Err: storekit.ErrInjected}
		case "block":
			return storekit.Action{Block: true}
		case "slow":
			return storekit.Action{Delay: 3 * time.Millisecond}
		}
		return storekit.Action{}
	}
	reports := map[int]int{}
	inReport, maxInReport := 0, 0
	opts := []eventbus.Option{eventbus.WithStore(store), eventbus.WithPersistenceTimeout(2 * time.Millisecond)}
	if c.ErrHandler {
		opts = append(opts, eventbus.WithPersistenceErrorHandler(func(ev any, _ reflect.Type, err error) {
			mu.Lock()
			reports[idOfAny(ev)]++
			inReport++
			if inReport > maxInReport {
				maxInReport = inReport
			}
			mu.Unlock()
			if c.EHDelayUs > 0 {
				time.Sleep(time.Duration(c.EHDelayUs) * time.Microsecond)
			}
			mu.Lock()
			inReport--
			mu.Unlock()
		}))
	}
	bus := eventbus.New(opts...)
	delivered := map[int]int{}
	eventbus.Subscribe(bus, func(e Good) {
		mu.Lock()
		delivered[e.ID]++
		mu.Unlock()
	})
	var start, done sync.WaitGroup
	start.Add(1)
	base0 := 0
	for _, ks := range c.Publishers {
		done.Add(1)
		go func(first int, ks []string) {
			defer done.Done()
			start.Wait()
			for i, k := range ks {
				eventbus.Publish(bus, Good{ID: first + i + 1, S: k})
			}
		}(base0, ks)
		base0 += len(ks)
	}
	start.Done()
	done.Wait()
	bus.Wait()
	base.EventHook = nil

	evs, _, err := inner.Read(context.Background(), eventbus.OffsetOldest, 0)
	if err != nil {
		o.Failf("", "reading the log: %v", err)
		return o
	}
	inLog := map[int]int{}
	for _, se := range evs {
		var x struct {
			ID int `json:"id"`
		}
		json.Unmarshal(se.Data, &x)
		inLog[x.ID]++
	}
	mu.Lock()
	defer mu.Unlock()
	desc := fmt.Sprintf("%+v", *c)
	queued := false
	for id := 1; id <= len(kindOf); id++ {
		k := kindOf[id]
		if delivered[id] != 1 {
			o.Failf("", "%s: event %d (%s) was delivered %d times to its handler", desc, id, k, delivered[id])
			return o
		}
		if attempts[id] != 1 {
			o.Failf("", "%s: the store saw %d Append calls for event %d (%s): every publish reaches the store exactly once (no retry, no skipped attempt)", desc, attempts[id], id, k)
			return o
		}
		if inLog[id] > 1 {
			o.Failf("", "%s: event %d (%s) is in the log %d times", desc, id, k, inLog[id])
			return o
		}
		if c.ErrHandler && inLog[id]+reports[id] != 1 {
			o.Failf("", "%s: event %d (%s) is in the log %d times and was reported as failed %d times; exactly one of the two must hold", desc, id, k, inLog[id], reports[id])
			return o
		}
		if (k == "reject" || k == "block") && inLog[id] != 0 {
			o.Failf("", "%s: event %d (%s) was refused by the store and is in the log", desc, id, k)
			return o
		}
		if k == "block" || k == "slow" {
			queued = true
		}
	}
	if maxInReport >= 5 {
		o.Class("five_or_more_failure_reports_in_progress_at_once")
	} else if maxInReport >= 2 {
		o.Class("two_or_more_failure_reports_in_progress_at_once")
	}
	if len(c.Publishers) >= 2 && queued {
		o.Nontrivial = true
		o.Class("concurrent_publishers_queueing_behind_a_stalled_append")
	}
	return o
}
