//go:build verif

package c13

import "pgregory.net/rapid"

func Gen(store string) func(t *rapid.T) *Case {
	return func(t *rapid.T) *Case {
		c := &Case{Store: store, ErrHandler: rapid.IntRange(0, 4).Draw(t, "eh") != 0, SetLater: rapid.IntRange(0, 3).Draw(t, "later") == 0,
			Handlers: rapid.IntRange(1, 3).Draw(t, "handlers"), Async: rapid.Bool().Draw(t, "async"), UseCtx: rapid.Bool().Draw(t, "usectx"), Notify: rapid.IntRange(0, 2).Draw(t, "notify") == 0, ReplaySub: rapid.IntRange(0, 2).Draw(t, "replaySub") == 0, Obs: rapid.IntRange(0, 2).Draw(t, "obs") == 0, ViaAny: rapid.IntRange(0, 2).Draw(t, "viaAny") == 0}
		n := rapid.IntRange(1, 30).Draw(t, "n")
		kinds := []string{"ok", "ok", "ok", "badchan", "badfunc", "badnan", "badmarshal", "reject", "reject", "timeout", "slowok", "lostack", "dynok", "dynok", "dynbad", "dynbadmap", "dynreject"}
		failHeavy := rapid.Bool().Draw(t, "failHeavy")
		if failHeavy {
			kinds = []string{"ok", "badchan", "badnan", "badmarshal", "reject", "reject", "timeout", "slowok", "lostack", "badfunc", "dynok", "dynbad", "dynbadmap", "dynreject"}
		}
		for i := 0; i < n; i++ {
			c.Pubs = append(c.Pubs, Pub{Kind: rapid.SampledFrom(kinds).Draw(t, "kind")})
		}
		if store == "sqlite" && rapid.Bool().Draw(t, "close") {
			c.CloseAt = rapid.IntRange(1, n).Draw(t, "closeAt")
		}
		return c
	}
}

func GenConc(t *rapid.T) *ConcCase {
	c := &ConcCase{ErrHandler: rapid.IntRange(0, 4).Draw(t, "eh") != 0, Honour: rapid.Bool().Draw(t, "honour"), Procs: rapid.SampledFrom([]int{2, 4, 16}).Draw(t, "procs")}
	np := rapid.IntRange(2, 6).Draw(t, "np")
	kinds := []string{"ok", "ok", "ok", "reject", "block", "block", "slow"}
	if rapid.IntRange(0, 3).Draw(t, "storm") == 0 {
		// many publishers failing at once, with an error handler that takes a while
		np = rapid.IntRange(6, 12).Draw(t, "npStorm")
		kinds = []string{"reject", "reject", "reject", "ok"}
		c.EHDelayUs = rapid.SampledFrom([]int{500, 3000, 10000}).Draw(t, "ehDelay")
	} else if rapid.IntRange(0, 2).Draw(t, "slowEH") == 0 {
		c.EHDelayUs = rapid.SampledFrom([]int{200, 3000}).Draw(t, "ehDelay")
	}
	for p := 0; p < np; p++ {
		n := rapid.IntRange(1, 5).Draw(t, "n")
		var ks []string
		for i := 0; i < n; i++ {
			ks = append(ks, rapid.SampledFrom(kinds).Draw(t, "kind"))
		}
		c.Publishers = append(c.Publishers, ks)
	}
	return c
}
