package c15

import (
	"context"
	"errors"
	"fmt"
	"reflect"

	eventbus "github.com/jilio/ebu"
	"pgregory.net/rapid"
	"verif/vkit"
)

// FlakyCase: events of drawn shapes are published on a bus whose store fails
// some appends - with a plain error or with a temporary one (an error whose
// Temporary() method reports true, as network errors do).  Whatever the bus
// does about a failed append, every record that ends up in the log carries
// the name EventType reports for the event it holds.
type FlakyCase struct {
	Shapes []int    `json:"shapes"` // shape of the k-th publish
	Fail   []string `json:"fail"`   // per Append call (cyclic): "", "plain", "temp"
}

type tempErr struct{}

func (tempErr) Error() string   { return "temporarily unavailable" }
func (tempErr) Temporary() bool { return true }
func (tempErr) Timeout() bool   { return false }

type flakyStore struct {
	*eventbus.MemoryStore
	plan  []string
	calls int
}

func (f *flakyStore) Append(ctx context.Context, e *eventbus.Event) (eventbus.Offset, error) {
	k := ""
	if len(f.plan) > 0 {
		k = f.plan[f.calls%len(f.plan)]
	}
	f.calls++
	switch k {
	case "plain":
		return "", errors.New("append refused")
	case "temp":
		return "", fmt.Errorf("store: %w", tempErr{})
	}
	return f.MemoryStore.Append(ctx, e)
}

func GenFlaky(t *rapid.T) *FlakyCase {
	c := &FlakyCase{}
	n := rapid.IntRange(1, 12).Draw(t, "n")
	for i := 0; i < n; i++ {
		c.Shapes = append(c.Shapes, rapid.IntRange(0, len(shapes)-1).Draw(t, "shape"))
	}
	c.Fail = rapid.SliceOfN(rapid.SampledFrom([]string{"", "", "plain", "temp", "temp"}), 1, 6).Draw(t, "fail")
	return c
}

func RunFlaky(c *FlakyCase) *vkit.Outcome {
	o := &vkit.Outcome{}
	store := &flakyStore{MemoryStore: eventbus.NewMemoryStore(), plan: c.Fail}
	bus := eventbus.New(eventbus.WithStore(store), eventbus.WithPersistenceErrorHandler(func(any, reflect.Type, error) {}))
	allowed := map[string]string{}
	custom, failed := false, false
	for i, si := range c.Shapes {
		sh := shapes[si%len(shapes)]
		allowed[sh.eventType()] = sh.name
		custom = custom || sh.custom
		sh.publish(bus, i+1, "s")
	}
	for _, f := range c.Fail {
		failed = failed || f != ""
	}
	all, _, err := store.MemoryStore.Read(context.Background(), eventbus.OffsetOldest, 0)
	if err != nil {
		o.Failf("", "read: %v", err)
		return o
	}
	if len(all) > len(c.Shapes) {
		o.Failf("", "%d publishes left %d records in the log", len(c.Shapes), len(all))
		return o
	}
	for i, se := range all {
		if _, ok := allowed[se.Type]; !ok {
			o.Failf("", "record %d of the log carries the type name %q, which EventType reports for none of the published events (their names: %v); append plan %v", i, se.Type, allowed, c.Fail)
			return o
		}
	}
	if custom && failed {
		o.Nontrivial = true
		o.Class("failed_appends_with_custom_named_or_pointer_events")
	}
	return o
}
