//go:build verif

package c15

import (
	"testing"

	"verif/vkit"
)

const rule = "the finite product {struct value, pointer to struct, TypeNamer on value receiver published as value / as pointer, TypeNamer on pointer receiver, named non-struct with a name method, state.ChangeMessage and state.ControlMessage as value and pointer, two function-local types that print identically (same reflect.Type.String()) and carry different custom names, named slice and map types with a custom name (nil zero value), a type whose name method is on the pointer receiver published by value and as pointer} x {publish+persist, Replay with EventType comparison, SubscribeWithReplay[T], RegisterUpcast with T as source, RegisterUpcast with T as target followed by SubscribeWithReplay[T]}, enumerated completely every run and sampled with random ids, strings, noise events of other shapes and option order on top. Every case also publishes events of one Go type whose TypeNamer name depends on the value (an envelope) under several names on both buses. Oracle: stored Type == EventType(v); the typed API selects exactly the stored events published as T (ids in log order); upcasters fire for them and yield EventType(zero To). Non-trivial = a shape with a custom name or a pointer, through a typed API."

var collEnum = vkit.NewCollector("C15", "TestProduct", rule)
var collRand = vkit.NewCollector("C15", "TestRandom", rule)

var collFlaky = vkit.NewCollector("C15", "TestFlakyStore", "1-12 publishes of drawn shapes (all shapes of TestProduct) on a bus whose store fails appends by a drawn cyclic plan: plain errors and temporary errors (Temporary() == true, wrapped). Oracle: whatever the bus does about a failed append, no more records than publishes, and every record in the log carries a type name EventType reports for one of the published events. Non-trivial = a failing append and a custom-named or pointer shape in the same case.")

func TestFlakyStore(t *testing.T) { vkit.Check(t, collFlaky, GenFlaky, RunFlaky) }

func TestMain(m *testing.M) { vkit.Main(m) }

func TestProduct(t *testing.T) {
	EnumProduct(func(c *Case) {
		if v := collEnum.Account(c, Run(c)); v != nil {
			vkit.SaveFail("C15", "TestProduct", c, v)
			t.Errorf("%s", v.Error())
		}
	})
	collEnum.SetExhaustive(true)
}

func TestRandom(t *testing.T) { vkit.Check(t, collRand, Gen, Run) }

func TestReplay(t *testing.T) {
	r := vkit.NeedReplay(t)
	_ = vkit.ReplayCase(t, r, collEnum, Run) || vkit.ReplayCase(t, r, collRand, Run) || vkit.ReplayCase(t, r, collFlaky, RunFlaky)
}
