//go:build verif

// Package c15 decides property C15: one type name per event type, everywhere.
package c15

import (
	"context"
	"encoding/json"
	"fmt"
	"verif/busmodel"

	eventbus "github.com/jilio/ebu"
	"github.com/jilio/ebu/state"
	"verif/vkit"
)

// --- event shapes -----------------------------------------------------------

type Plain struct {
	ID int    `json:"id"`
	S  string `json:"s"`
}
type PlainP struct {
	ID int    `json:"id"`
	S  string `json:"s"`
}
type NamedV struct {
	ID int    `json:"id"`
	S  string `json:"s"`
}

func (NamedV) EventTypeName() string { return "c15.named-value.v1" }

type NamedVP struct { // value-receiver name, published as pointer
	ID int    `json:"id"`
	S  string `json:"s"`
}

func (NamedVP) EventTypeName() string { return "c15.named-value-as-pointer.v1" }

type NamedP struct {
	ID int    `json:"id"`
	S  string `json:"s"`
}

func (*NamedP) EventTypeName() string { return "c15.named-pointer.v3" }

// Both is used both as a value and through a pointer on the same bus: the two
// are different event types with different names ("c15.Both", "*c15.Both").
type Both struct {
	ID int    `json:"id"`
	S  string `json:"s"`
}

type Code int

func (Code) EventTypeName() string { return "c15.code" }

// helper types for upcasting
type UpSource struct {
	ID int    `json:"id"`
	S  string `json:"s"`
}

// UpSibling is a second legacy type migrated to the same targets as UpSource;
// its upcaster is registered next to UpSource's and cleared again
// (ClearUpcastsForType) before anything is replayed - which must not disturb
// the UpSource chain.
type UpSibling struct {
	ID int `json:"id"`
}

type UpTarget struct {
	ID   int    `json:"id"`
	From string `json:"from"`
}

// shape bundles the typed operations of one event shape.
type shape struct {
	name      string
	custom    bool // custom name or pointer: the interesting half of the product
	publish   func(bus *eventbus.EventBus, id int, s string)
	eventType func() string
	subReplay func(ctx context.Context, bus *eventbus.EventBus, sub string, sink func(id int)) error
	upFrom    func(bus *eventbus.EventBus) error // RegisterUpcast[Shape, UpTarget]
	upTo      func(bus *eventbus.EventBus) error // RegisterUpcast[UpSource, Shape]
}

func mkShape[T any](name string, custom bool, mk func(id int, s string) T, idOf func(T) int) shape {
	return shape{
		name:   name,
		custom: custom,
		publish: func(bus *eventbus.EventBus, id int, s string) {
			if id%3 == 2 {
				// through the static type any: the name is that of the dynamic type
				eventbus.Publish[any](bus, mk(id, s))
				return
			}
			eventbus.Publish(bus, mk(id, s))
		},
		eventType: func() string { return eventbus.EventType(mk(0, "")) },
		subReplay: func(ctx context.Context, bus *eventbus.EventBus, sub string, sink func(int)) error {
			return eventbus.SubscribeWithReplay(ctx, bus, sub, func(e T) { sink(idOf(e)) })
		},
		upFrom: func(bus *eventbus.EventBus) error {
			return eventbus.RegisterUpcast(bus, func(e T) UpTarget { return UpTarget{ID: idOf(e), From: name} })
		},
		upTo: func(bus *eventbus.EventBus) error {
			if err := eventbus.RegisterUpcast(bus, func(src UpSibling) T { return mk(src.ID+5000, "sibling") }); err != nil {
				return err
			}
			if err := eventbus.RegisterUpcast(bus, func(src UpSource) T { return mk(src.ID+1000, src.S) }); err != nil {
				return err
			}
			// the sibling migration is retired again; UpSource's stays
			bus.ClearUpcastsForType(eventbus.EventType(UpSibling{}))
			return nil
		},
	}
}

func changeMsg(id int, s string) state.ChangeMessage {
	v, _ := json.Marshal(map[string]any{"id": id, "s": s})
	return state.ChangeMessage{Type: "ent", Key: fmt.Sprint(id), Value: v, Headers: state.Headers{Operation: state.OperationInsert}}
}

func changeID(m state.ChangeMessage) int {
	var n int
	fmt.Sscan(m.Key, &n)
	return n
}

func ctrlMsg(id int, s string) state.ControlMessage {
	return state.ControlMessage{Headers: state.ControlHeaders{Control: state.ControlSnapshotStart, Offset: fmt.Sprint(id)}}
}

func ctrlID(m state.ControlMessage) int {
	var n int
	fmt.Sscan(m.Headers.Offset, &n)
	return n
}

var shapes = []shape{
	mkShape("struct-value", false, func(id int, s string) Plain { return Plain{id, s} }, func(e Plain) int { return e.ID }),
	mkShape("struct-pointer", true, func(id int, s string) *PlainP { return &PlainP{id, s} }, func(e *PlainP) int { return e.ID }),
	mkShape("same-struct-value", false, func(id int, s string) Both { return Both{id, s} }, func(e Both) int { return e.ID }),
	mkShape("same-struct-pointer", true, func(id int, s string) *Both { return &Both{id, s} }, func(e *Both) int { return e.ID }),
	mkShape("namer-value", true, func(id int, s string) NamedV { return NamedV{id, s} }, func(e NamedV) int { return e.ID }),
	mkShape("namer-value-as-pointer", true, func(id int, s string) *NamedVP { return &NamedVP{id, s} }, func(e *NamedVP) int { return e.ID }),
	mkShape("namer-pointer", true, func(id int, s string) *NamedP { return &NamedP{id, s} }, func(e *NamedP) int { return e.ID }),
	mkShape("namer-nonstruct", true, func(id int, s string) Code { return Code(id) }, func(e Code) int { return int(e) }),
	mkShape("state-change-value", true, changeMsg, changeID),
	mkShape("state-change-pointer", true, func(id int, s string) *state.ChangeMessage { m := changeMsg(id, s); return &m }, func(m *state.ChangeMessage) int { return changeID(*m) }),
	mkShape("state-control-value", true, ctrlMsg, ctrlID),
	mkShape("state-control-pointer", true, func(id int, s string) *state.ControlMessage { m := ctrlMsg(id, s); return &m }, func(m *state.ControlMessage) int { return ctrlID(*m) }),
}

// Two distinct event types that print identically (reflect.Type.String() is
// "c15.Local" for both function-local types) and name themselves differently
// through an embedded TypeNamer.
type nameA struct{}

func (nameA) EventTypeName() string { return "c15.local.a" }

type nameB struct{}

func (nameB) EventTypeName() string { return "c15.local.b" }

func localShapeA() shape {
	type Local struct {
		nameA
		ID int    `json:"id"`
		S  string `json:"s"`
	}
	return mkShape("same-printed-name-a", true, func(id int, s string) Local { return Local{ID: id, S: s} }, func(e Local) int { return e.ID })
}

func localShapeB() shape {
	type Local struct {
		nameB
		ID int    `json:"id"`
		S  string `json:"s"`
	}
	return mkShape("same-printed-name-b", true, func(id int, s string) Local { return Local{ID: id, S: s} }, func(e Local) int { return e.ID })
}

// Event types declared on a slice and on a map, with a custom name: their
// zero value is nil, their published values are not.
type Items []string

func (Items) EventTypeName() string { return "c15.items.v1" }

type Labels map[string]string

func (Labels) EventTypeName() string { return "c15.labels.v1" }

func atoi(s string) int {
	n := 0
	fmt.Sscan(s, &n)
	return n
}

// NamedPV declares its name on the pointer receiver and is published by
// value: the value does not implement TypeNamer, so every API must use the
// reflection name for it.  NamedPVP is the same shape published as a pointer.
type NamedPV struct {
	ID int    `json:"id"`
	S  string `json:"s"`
}

func (*NamedPV) EventTypeName() string { return "c15.pointer-named-published-by-value.v1" }

func init() {
	shapes = append(shapes,
		mkShape("namer-pointer-published-as-value", true, func(id int, s string) NamedPV { return NamedPV{id, s} }, func(e NamedPV) int { return e.ID }),
		mkShape("namer-pointer-same-type-as-pointer", true, func(id int, s string) *NamedPV { return &NamedPV{id, s} }, func(e *NamedPV) int { return e.ID }),
	)
}

func init() {
	shapes = append(shapes, localShapeA(), localShapeB(),
		mkShape("namer-slice", true, func(id int, s string) Items { return Items{fmt.Sprint(id), s} }, func(e Items) int {
			if len(e) == 0 {
				return -1
			}
			return atoi(e[0])
		}),
		mkShape("namer-map", true, func(id int, s string) Labels { return Labels{"id": fmt.Sprint(id), "s": s} }, func(e Labels) int { return atoi(e["id"]) }),
	)
}

// Unlabelled provides a name of its own, and that name is the empty string.
type Unlabelled struct {
	ID int
	S  string
}

func (Unlabelled) EventTypeName() string { return "" }

func init() {
	shapes = append(shapes,
		mkShape("namer-empty-name", true, func(id int, s string) Unlabelled { return Unlabelled{id, s} }, func(e Unlabelled) int { return e.ID }),
		mkShape("namer-empty-name-pointer", true, func(id int, s string) *Unlabelled { return &Unlabelled{id, s} }, func(e *Unlabelled) int { return e.ID }),
	)
}

// Envelope names itself by value: one Go type, several event type names.
type Envelope struct {
	ID   int    `json:"id"`
	Kind string `json:"kind"`
}

func (e Envelope) EventTypeName() string { return "c15.envelope." + e.Kind }

// checkEnvelopes publishes events of one Go type under varying names and
// requires each record to carry the name EventType reports for that value.
func checkEnvelopes(o *vkit.Outcome, bus *eventbus.EventBus, store eventbus.EventStore, kinds []string) {
	ctx := context.Background()
	before, _, _ := store.Read(ctx, eventbus.OffsetOldest, 0)
	for i, k := range kinds {
		eventbus.Publish(bus, Envelope{ID: 9000 + i, Kind: k})
	}
	all, _, err := store.Read(ctx, eventbus.OffsetOldest, 0)
	if err != nil || len(all) != len(before)+len(kinds) {
		o.Failf("", "publishing %d value-named events added %d records (err %v)", len(kinds), len(all)-len(before), err)
		return
	}
	for i, k := range kinds {
		want := eventbus.EventType(Envelope{Kind: k})
		if got := all[len(before)+i].Type; got != want {
			o.Failf("", "a TypeNamer whose name depends on the value: event %d of kinds %v was stored under %q, EventType reports %q", i, kinds, got, want)
			return
		}
	}
}

var apis = []string{"persist", "subscribe-replay", "upcast-source", "upcast-target", "replay-eventtype"}

// Case: one shape through one API, with generated values around it.
type Case struct {
	Shape      int      `json:"shape"`
	API        string   `json:"api"`
	IDs        []int    `json:"ids"`                   // ids of the subject events
	Strings    []string `json:"strings"`               // their string payloads (cyclic)
	Noise      []int    `json:"noise"`                 // shapes of other events published in between (never the subject's)
	StoreFirst bool     `json:"store_first,omitempty"` // option order
	Obs        bool     `json:"obs,omitempty"`         // an Observability implementation is installed (it must not affect names)
}

func Run(c *Case) *vkit.Outcome {
	o := &vkit.Outcome{}
	sh := shapes[c.Shape%len(shapes)]
	store := eventbus.NewMemoryStore()
	var opts []eventbus.Option
	if c.StoreFirst {
		opts = []eventbus.Option{eventbus.WithStore(store), eventbus.WithReplayBatchSize(2)}
	} else {
		opts = []eventbus.Option{eventbus.WithReplayBatchSize(2), eventbus.WithStore(store)}
	}
	if c.Obs {
		opts = append(opts, busmodel.Ambient(busmodel.AmbObs)...)
	}
	bus := eventbus.New(opts...)
	ctx := context.Background()
	desc := fmt.Sprintf("shape %s via %s", sh.name, c.API)

	str := func(i int) string {
		if len(c.Strings) == 0 {
			return ""
		}
		return c.Strings[i%len(c.Strings)]
	}
	// publish subject events interleaved with noise of other shapes
	for i, id := range c.IDs {
		if c.API == "upcast-target" {
			eventbus.Publish(bus, UpSource{ID: id, S: str(i)})
		} else {
			sh.publish(bus, id, str(i))
		}
		if i < len(c.Noise) {
			ns := shapes[c.Noise[i]%len(shapes)]
			if ns.eventType() != sh.eventType() {
				ns.publish(bus, 5000+i, "noise")
			}
		}
	}
	all, _, err := store.Read(ctx, eventbus.OffsetOldest, 0)
	if err != nil {
		o.Failf("", "%s: read: %v", desc, err)
		return o
	}
	// what the log holds now, copied (the memory store hands out its own records)
	type recCopy struct{ typ, data string }
	logBefore := make([]recCopy, len(all))
	for i, se := range all {
		logBefore[i] = recCopy{se.Type, string(se.Data)}
	}
	wantName := sh.eventType()
	srcName := wantName
	if c.API == "upcast-target" {
		srcName = eventbus.EventType(UpSource{})
	}
	// stored type == EventType(v)
	n := 0
	for _, se := range all {
		if se.Type == srcName {
			n++
		}
	}
	if n != len(c.IDs) {
		o.Failf("", "%s: %d events were published, %d records carry the name EventType reports (%q); stored types: %v", desc, len(c.IDs), n, srcName, typesOf(all))
		return o
	}

	bus2 := eventbus.New(eventbus.WithStore(store)) // a restarted bus on the same store
	switch c.API {
	case "persist", "replay-eventtype":
		var got []int
		err := bus2.Replay(ctx, eventbus.OffsetOldest, func(se *eventbus.StoredEvent) error {
			if se.Type == wantName {
				got = append(got, 1)
			}
			return nil
		})
		if err != nil || len(got) != len(c.IDs) {
			o.Failf("", "%s: Replay with an EventType comparison matched %d of %d events (err %v)", desc, len(got), len(c.IDs), err)
		}
	case "subscribe-replay":
		var got []int
		if err := sh.subReplay(ctx, bus2, "sub", func(id int) { got = append(got, id) }); err != nil {
			o.Failf("", "%s: SubscribeWithReplay failed: %v", desc, err)
			return o
		}
		if fmt.Sprint(got) != fmt.Sprint(c.IDs) {
			o.Failf("", "%s: SubscribeWithReplay[T] replayed events %v, the stored events published as T are %v (stored under %q)", desc, got, c.IDs, wantName)
		}
	case "upcast-source":
		if err := sh.upFrom(bus2); err != nil {
			if wantName == "" {
				// an empty name cannot take part in upcasting (C16): nothing to match
				o.Class("upcast_registration_for_the_empty_name_rejected")
				return o
			}
			o.Failf("", "%s: RegisterUpcast: %v", desc, err)
			return o
		}
		targetName := eventbus.EventType(UpTarget{})
		var got []int
		err := bus2.ReplayWithUpcast(ctx, eventbus.OffsetOldest, func(se *eventbus.StoredEvent) error {
			if se.Type == targetName {
				var t UpTarget
				if json.Unmarshal(se.Data, &t) == nil && t.From == sh.name {
					got = append(got, t.ID)
				}
			} else if se.Type == wantName {
				got = append(got, -1) // arrived without having been upcast
			}
			return nil
		})
		if err != nil || fmt.Sprint(got) != fmt.Sprint(c.IDs) {
			o.Failf("", "%s: an upcaster registered with RegisterUpcast[T, UpTarget] produced %v (-1 = not upcast) for stored events %v of name %q (err %v)", desc, got, c.IDs, wantName, err)
		}
	case "upcast-target":
		if err := sh.upTo(bus2); err != nil {
			if wantName == "" {
				o.Class("upcast_registration_for_the_empty_name_rejected")
				return o
			}
			o.Failf("", "%s: RegisterUpcast: %v", desc, err)
			return o
		}
		var types []string
		bus2.ReplayWithUpcast(ctx, eventbus.OffsetOldest, func(se *eventbus.StoredEvent) error {
			if se.Type == wantName || se.Type == srcName {
				types = append(types, se.Type)
			}
			return nil
		})
		for _, tname := range types {
			if tname != wantName {
				o.Failf("", "%s: RegisterUpcast[UpSource, T] yields type %q, EventType(zero T) = %q", desc, tname, wantName)
				return o
			}
		}
		var got []int
		if err := sh.subReplay(ctx, bus2, "sub2", func(id int) { got = append(got, id) }); err != nil {
			o.Failf("", "%s: SubscribeWithReplay after RegisterUpcast failed: %v", desc, err)
			return o
		}
		var want []int
		for _, id := range c.IDs {
			want = append(want, id+1000)
		}
		if sh.name == "state-control-value" || sh.name == "state-control-pointer" || sh.name == "state-change-value" || sh.name == "state-change-pointer" || sh.name == "namer-nonstruct" {
			// ids survive through the respective encodings as well
		}
		if fmt.Sprint(got) != fmt.Sprint(want) {
			o.Failf("", "%s: a chain UpSource -> T does not reach SubscribeWithReplay[T]: delivered %v, expected %v", desc, got, want)
		}
	}
	if len(o.Viol) == 0 {
		// reading, replaying and upcasting never change what is persisted
		after, _, rerr := store.Read(ctx, eventbus.OffsetOldest, 0)
		if rerr != nil || len(after) < len(logBefore) {
			o.Failf("", "%s: the log shrank or cannot be read after the typed APIs were used (%d -> %d records, err %v)", desc, len(logBefore), len(after), rerr)
		} else {
			for i, b := range logBefore {
				if after[i].Type != b.typ || string(after[i].Data) != b.data {
					o.Failf("", "%s: record %d was persisted as %q %s; after the typed API ran (upcasting replay on a second bus) the store holds %q %s for it - the persisted name is no longer the one EventType reported", desc, i, b.typ, b.data, after[i].Type, after[i].Data)
					break
				}
			}
		}
	}
	if len(o.Viol) == 0 {
		kinds := []string{"a", "b", "a", "c"}
		if len(c.Strings) > 0 {
			kinds = append(kinds, c.Strings...)
		}
		checkEnvelopes(o, bus, store, kinds)
		checkEnvelopes(o, bus2, store, kinds[1:])
	}
	if sh.custom && (c.API == "subscribe-replay" || c.API == "upcast-source" || c.API == "upcast-target") && len(c.IDs) > 0 {
		o.Nontrivial = true
		o.Class("custom_name_or_pointer_through_typed_api")
	}
	o.Class("api_" + c.API)
	o.Class("shape_" + sh.name)
	return o
}

func typesOf(all []*eventbus.StoredEvent) []string {
	var out []string
	for _, se := range all {
		out = append(out, se.Type)
	}
	return out
}
