//go:build verif

package c15

import "pgregory.net/rapid"

func Gen(t *rapid.T) *Case {
	c := &Case{Shape: rapid.IntRange(0, len(shapes)-1).Draw(t, "shape"), API: rapid.SampledFrom(apis).Draw(t, "api"), StoreFirst: rapid.Bool().Draw(t, "storeFirst"), Obs: rapid.Bool().Draw(t, "obs")}
	n := rapid.IntRange(1, 6).Draw(t, "n")
	seen := map[int]bool{}
	for len(c.IDs) < n {
		id := rapid.IntRange(1, 900).Draw(t, "id")
		if !seen[id] {
			seen[id] = true
			c.IDs = append(c.IDs, id)
		}
	}
	c.Strings = rapid.SliceOfN(rapid.OneOf(rapid.SampledFrom([]string{"", "a", "ünï", "日本", "q\"uote"}), rapid.StringN(0, 5, 16)), 0, 3).Draw(t, "strings")
	c.Noise = rapid.SliceOfN(rapid.IntRange(0, len(shapes)-1), 0, n).Draw(t, "noise")
	// sibling shapes (same struct as value / pointer, same name family) are the interesting noise
	if len(c.Noise) > 0 && rapid.Bool().Draw(t, "siblingNoise") {
		c.Noise[0] = c.Shape ^ 1
	}
	return c
}

// EnumProduct visits the full shape x API product.
func EnumProduct(visit func(*Case)) {
	for s := range shapes {
		for _, api := range apis {
			for _, sf := range []bool{false, true} {
				visit(&Case{Shape: s, API: api, IDs: []int{3, 1, 2}, Strings: []string{"x", "é"}, Noise: []int{(s + 1) % len(shapes), (s + 4) % len(shapes)}, StoreFirst: sf, Obs: sf})
				// with the sibling shape (index ^ 1: same struct or same name family in the other form) as noise
				visit(&Case{Shape: s, API: api, IDs: []int{7, 8}, Strings: []string{"y"}, Noise: []int{s ^ 1, s ^ 1}, StoreFirst: sf, Obs: !sf})
			}
		}
	}
}
