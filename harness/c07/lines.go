package c07

import (
	"context"
	"fmt"
	"runtime"
	"sync"
	"time"

	eventbus "github.com/jilio/ebu"
	"pgregory.net/rapid"
	"verif/vkit"
)

// LinesCase: 2-4 Async+Sequential handlers of one event type.  The first one
// blocks inside its first invocation (a slow consumer) until the harness lets
// it go.  Every handler has a line of its own: while the first one is busy the
// others receive every published event, in publish order, and when it is let
// go it receives them all too.  Shared: the subscriptions are made with one
// reused option list ([]SubscribeOption{Async(), Sequential()} built once);
// option values carry no identity, so that changes nothing.
type LinesCase struct {
	Handlers int  `json:"handlers"`
	Events   int  `json:"events"`
	Shared   bool `json:"shared,omitempty"`
	SeqFirst bool `json:"seq_first,omitempty"`
	ViaAny   bool `json:"via_any,omitempty"`
	Ctx      bool `json:"ctx,omitempty"` // context-aware handlers
	Procs    int  `json:"procs"`
}

func GenLines(t *rapid.T) *LinesCase {
	return &LinesCase{Handlers: rapid.IntRange(2, 4).Draw(t, "handlers"), Events: rapid.IntRange(1, 8).Draw(t, "events"),
		Shared: rapid.Bool().Draw(t, "shared"), SeqFirst: rapid.Bool().Draw(t, "seqFirst"), ViaAny: rapid.IntRange(0, 2).Draw(t, "viaAny") == 0,
		Ctx: rapid.Bool().Draw(t, "ctx"), Procs: rapid.SampledFrom([]int{1, 2, 4, 16}).Draw(t, "procs")}
}

func RunLines(c *LinesCase) *vkit.Outcome {
	if c.Procs > 0 {
		defer runtime.GOMAXPROCS(runtime.GOMAXPROCS(c.Procs))
	}
	o, stuck := runLines(c)
	if stuck {
		// confirm on a second execution before reporting
		if o2, stuck2 := runLines(c); !stuck2 {
			o2.Class("slow_first_run_not_reproduced")
			return o2
		}
	}
	return o
}

func runLines(c *LinesCase) (*vkit.Outcome, bool) {
	o := &vkit.Outcome{}
	bus := eventbus.New()
	gate := make(chan struct{})
	var mu sync.Mutex
	seen := make([][]int, c.Handlers)
	body := func(hi, id int) {
		if hi == 0 && id == 0 {
			<-gate
		}
		mu.Lock()
		seen[hi] = append(seen[hi], id)
		mu.Unlock()
	}
	shared := H{Async: true, SeqFirst: c.SeqFirst}.asyncSeq()
	for hi := 0; hi < c.Handlers; hi++ {
		hi := hi
		so := shared
		if !c.Shared {
			so = H{Async: true, SeqFirst: c.SeqFirst}.asyncSeq()
		}
		if c.Ctx {
			eventbus.SubscribeContext(bus, func(_ context.Context, e Ev) { body(hi, e.ID) }, so...)
		} else {
			eventbus.Subscribe(bus, func(e Ev) { body(hi, e.ID) }, so...)
		}
	}
	for id := 0; id < c.Events; id++ {
		pub(bus, nil, Ev{id}, c.ViaAny)
	}
	done := func() (int, bool) {
		mu.Lock()
		defer mu.Unlock()
		for hi := 1; hi < c.Handlers; hi++ {
			if len(seen[hi]) != c.Events {
				return hi, false
			}
		}
		return 0, true
	}
	deadline := time.Now().Add(15 * time.Second)
	for {
		hi, ok := done()
		if ok {
			break
		}
		if time.Now().After(deadline) {
			mu.Lock()
			got := fmt.Sprint(seen[hi])
			mu.Unlock()
			close(gate)
			bus.Wait()
			o.Failf("", "%+v: while Async+Sequential handler 0 was busy with its first event, handler %d (a separate subscription) had received only %s of the %d published events after 15 s (twice): handlers do not wait for each other", *c, hi, got, c.Events)
			return o, true
		}
		time.Sleep(50 * time.Microsecond)
	}
	close(gate)
	bus.Wait()
	for hi := 0; hi < c.Handlers; hi++ {
		want := make([]int, c.Events)
		for i := range want {
			want[i] = i
		}
		if fmt.Sprint(seen[hi]) != fmt.Sprint(want) {
			o.Failf("", "%+v: Async+Sequential handler %d processed %v, published 0..%d in that order", *c, hi, seen[hi], c.Events-1)
			return o, false
		}
	}
	o.Nontrivial = c.Events >= 2
	if c.Shared {
		o.Class("subscriptions_made_with_one_reused_option_list")
	}
	o.Class("first_handler_busy_while_the_others_work")
	return o, false
}
