package c07

import (
	"context"
	"fmt"
	"runtime"
	"sync"
	"sync/atomic"

	eventbus "github.com/jilio/ebu"
	"verif/busmodel"
	"verif/vkit"
)

// BurstCase: one goroutine publishes bursts of N events back to back to
// Async+Sequential handlers, so that a long line of dispatch goroutines forms
// behind each handler, then waits.  Every hand-over from one queued event to
// the next is a chance to lose a wake-up.
type BurstCase struct {
	ViaAny   bool  `json:"via_any,omitempty"` // events are published through the static type any
	N        int   `json:"n"`                 // events per burst
	Rounds   int   `json:"rounds"`            // bursts (same bus)
	Handlers []H   `json:"handlers"`
	Spin     []int `json:"spin"` // busy iterations per event inside the handler (cyclic)
	Procs    int   `json:"procs"`
	Ambient  int   `json:"ambient,omitempty"`
}

var burstSink atomic.Int64

func RunBurst(c *BurstCase) *vkit.Outcome {
	if c.Procs > 0 {
		defer runtime.GOMAXPROCS(runtime.GOMAXPROCS(c.Procs))
	}
	var active, handled, published atomic.Int64
	nh := int64(len(c.Handlers))
	return vkit.StallOracle(func() *vkit.Outcome { return runBurst(c, &active, &handled, &published) },
		func() (int64, bool) {
			h, p, a := handled.Load(), published.Load(), active.Load()
			return h + p, a == 0 && h < p*nh
		}, 40,
		func() string {
			return fmt.Sprintf("%d events were published to %d Async+Sequential handlers, %d invocations completed, no handler is running and the rest is never delivered (Wait does not return)", published.Load(), nh, handled.Load())
		})
}

func runBurst(c *BurstCase, active, handled, published *atomic.Int64) *vkit.Outcome {
	o := &vkit.Outcome{}
	bus := eventbus.New(busmodel.Ambient(c.Ambient)...)
	type st struct {
		mu   sync.Mutex
		in   atomic.Int32
		seen []int
	}
	sts := make([]*st, len(c.Handlers))
	var overlap atomic.Int32
	for i, h := range c.Handlers {
		s := &st{}
		sts[i] = s
		body := func(id int) {
			active.Add(1)
			if !s.in.CompareAndSwap(0, 1) {
				overlap.Add(1)
			}
			if len(c.Spin) > 0 {
				for k, n := 0, c.Spin[id%len(c.Spin)]; k < n; k++ {
					burstSink.Add(1)
				}
			}
			s.mu.Lock()
			s.seen = append(s.seen, id)
			s.mu.Unlock()
			s.in.Store(0)
			handled.Add(1)
			active.Add(-1)
		}
		so := h.seqOpts()
		if h.Ctx {
			eventbus.SubscribeContext(bus, func(_ context.Context, e Ev) { body(e.ID) }, so...)
		} else {
			eventbus.Subscribe(bus, func(e Ev) { body(e.ID) }, so...)
		}
	}
	id := 0
	for r := 0; r < c.Rounds; r++ {
		for k := 0; k < c.N; k++ {
			pub(bus, nil, Ev{id}, c.ViaAny)
			published.Add(1)
			id++
		}
		bus.Wait()
		if n := overlap.Load(); n != 0 {
			o.Failf("", "burst %d: an Async+Sequential handler was entered while another invocation of it was running (%d times)", r, n)
			return o
		}
		for i, s := range sts {
			s.mu.Lock()
			seen := append([]int(nil), s.seen...)
			s.mu.Unlock()
			var want []int
			for e := 0; e < id; e++ {
				if c.Handlers[i].takes(e) {
					want = append(want, e)
				}
			}
			if len(seen) != len(want) {
				o.Failf("", "burst %d: Wait returned with %d of %d accepted events delivered to Async+Sequential handler %d %+v", r, len(seen), len(want), i, c.Handlers[i])
				return o
			}
			for j, v := range seen {
				if v != want[j] {
					o.Failf("async-sequential-out-of-order", "burst %d: Async+Sequential handler %d processed event %d at position %d; events were published by one goroutine in order", r, i, v, j)
					return o
				}
			}
		}
	}
	o.Nontrivial = c.N >= 50
	if o.Nontrivial {
		o.Class("bursts_of_50_or_more_events")
	}
	if c.N >= 200 {
		o.Class("bursts_of_200_or_more_events")
	}
	return o
}
