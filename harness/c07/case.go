// Package c07 decides property C07: Sequential handlers never overlap, see
// every event once, and Async+Sequential handlers keep publish order.
package c07

import (
	"context"
	"fmt"
	"reflect"
	"runtime"
	"sort"
	"sync"
	"sync/atomic"

	eventbus "github.com/jilio/ebu"
	"verif/busmodel"
	"verif/vkit"
)

type Ev struct{ ID int }

type H struct {
	Ctx   bool `json:"ctx,omitempty"`
	Async bool `json:"async,omitempty"`
	Yield int  `json:"yield"` // Gosched calls inside the critical section
	// SeqFirst: the options are passed as Sequential(), Async() instead of
	// Async(), Sequential().  The order of options is not part of the contract.
	SeqFirst bool `json:"seq_first,omitempty"`
	// PanicEvery > 0 (concurrent-publisher cases): the handler panics at the
	// end of handling every event whose id is a multiple of it.  The bus
	// contains the panic; the handler goes on receiving the other events, one
	// at a time.
	PanicEvery int `json:"panic_every,omitempty"`
	// FilterMod > 0 (Async+Sequential handlers of the order and burst cases):
	// subscribed with a WithFilter predicate that rejects every event whose
	// id is a multiple of FilterMod.  The handler processes the accepted
	// events, in publish order; a rejected one leaves no trace in its line.
	FilterMod int `json:"filter_mod,omitempty"`
}

// takes reports whether h's filter accepts event id.
func (h H) takes(id int) bool { return h.FilterMod <= 0 || id%h.FilterMod != 0 }

// seqOpts: the option list of an Async+Sequential handler, with its filter.
func (h H) seqOpts() []eventbus.SubscribeOption {
	so := h.asyncSeq()
	if h.FilterMod > 0 {
		so = append(so, eventbus.WithFilter(func(e Ev) bool { return h.takes(e.ID) }))
	}
	return so
}

// pub publishes e, through the static type any when viaAny is set (the
// handlers are found by the dynamic type either way); ctx == nil uses Publish.
func pub(bus *eventbus.EventBus, ctx context.Context, e Ev, viaAny bool) {
	switch {
	case viaAny && ctx != nil:
		eventbus.PublishContext[any](bus, ctx, e)
	case viaAny:
		eventbus.Publish[any](bus, e)
	case ctx != nil:
		eventbus.PublishContext(bus, ctx, e)
	default:
		eventbus.Publish(bus, e)
	}
}

// asyncSeq returns the option list of an Async+Sequential handler.
func (h H) asyncSeq() []eventbus.SubscribeOption {
	if h.SeqFirst {
		return []eventbus.SubscribeOption{eventbus.Sequential(), eventbus.Async()}
	}
	return []eventbus.SubscribeOption{eventbus.Async(), eventbus.Sequential()}
}

// OverlapCase: concurrent publishers against Sequential handlers.
type OverlapCase struct {
	ViaAny     bool  `json:"via_any,omitempty"` // events are published through the static type any
	Handlers   []H   `json:"handlers"`
	Publishers []int `json:"publishers"` // events per publisher
	Procs      int   `json:"procs"`
	Rounds     int   `json:"rounds"`
	Ambient    int   `json:"ambient,omitempty"`
	// CancelEvery > 0: every CancelEvery-th publish of each publisher uses a
	// context of its own that is cancelled as soon as PublishContext has
	// returned, i.e. while the event may still be queued behind others.
	CancelEvery int `json:"cancel_every,omitempty"`
	// Relay (needs handler 0 synchronous and context-aware, no CancelEvery):
	// while handler 0 handles an original event it publishes a command with
	// the context it was given; an asynchronous command handler publishes,
	// with the context IT was given, a derived event of the original type -
	// which is routed back to handler 0 from another goroutine while the
	// first invocation may still be running.
	Relay bool `json:"relay,omitempty"`
	// Onces: that many plain Once handlers of the same event type are
	// subscribed in front of the Sequential handlers (and one more between the
	// first two when OnceBetween is set).  They are retired by the first
	// publishes while other publishers are in the middle of their dispatch;
	// what they receive is C04's business, here they are neighbours.
	Onces       int  `json:"onces,omitempty"`
	OnceBetween bool `json:"once_between,omitempty"`
}

// Cmd is the relayed command.
type Cmd struct{ ID int }

func (c *OverlapCase) relays() bool {
	return c.Relay && c.CancelEvery == 0 && len(c.Handlers) > 0 && !c.Handlers[0].Async && c.Handlers[0].Ctx
}

// progress counters shared with the stall oracle
type counters struct {
	active, handled, published atomic.Int64
}

func (k *counters) guard(what string, fn func() *vkit.Outcome) *vkit.Outcome {
	return vkit.StallOracle(fn,
		func() (int64, bool) { return k.handled.Load() + k.published.Load(), k.active.Load() == 0 },
		40,
		func() string {
			return fmt.Sprintf("%s: %d publishes returned, %d handler invocations completed, no Sequential handler is running and the case does not finish (events never delivered / Wait or Publish blocked)", what, k.published.Load(), k.handled.Load())
		})
}

type hstate struct {
	relay   func(ctx context.Context, id int) // handler 0 of a relaying case
	idx     int
	orderMu *sync.Mutex
	order   map[int][]int // event id -> indices of the synchronous handlers in the order they handled it
	k       *counters
	sync    bool
	seenSet sync.Map // event id -> struct{} once the handler body has finished with it
	inside  atomic.Int32
	overlap atomic.Int32
	pending atomic.Int32
	maxPend atomic.Int32
	mu      sync.Mutex
	seen    []int
}

func subscribeSeq(bus *eventbus.EventBus, h H, st *hstate) {
	body := func(ctx context.Context, id int) {
		st.k.active.Add(1)
		defer func() { st.k.handled.Add(1); st.k.active.Add(-1) }()
		if !st.inside.CompareAndSwap(0, 1) {
			st.overlap.Add(1)
		}
		if st.relay != nil && ctx != nil {
			st.relay(ctx, id)
		}
		for i := 0; i < h.Yield; i++ {
			runtime.Gosched()
		}
		st.mu.Lock()
		st.seen = append(st.seen, id)
		st.mu.Unlock()
		if st.sync && st.order != nil {
			st.orderMu.Lock()
			st.order[id] = append(st.order[id], st.idx)
			st.orderMu.Unlock()
		}
		st.seenSet.Store(id, struct{}{})
		if !st.inside.CompareAndSwap(1, 0) {
			st.overlap.Add(1)
		}
		if h.PanicEvery > 0 && id%h.PanicEvery == 0 {
			panic(fmt.Sprintf("sequential handler %d fails on event %d", st.idx, id))
		}
	}
	so := []eventbus.SubscribeOption{eventbus.Sequential()}
	if h.Async {
		so = h.asyncSeq()
	}
	if h.Ctx {
		eventbus.SubscribeContext(bus, func(ctx context.Context, e Ev) { body(ctx, e.ID) }, so...)
	} else {
		eventbus.Subscribe(bus, func(e Ev) { body(nil, e.ID) }, so...)
	}
}

func RunOverlap(c *OverlapCase) *vkit.Outcome {
	if c.Procs > 0 {
		defer runtime.GOMAXPROCS(runtime.GOMAXPROCS(c.Procs))
	}
	k := &counters{}
	return k.guard("concurrent publishers against Sequential handlers", func() *vkit.Outcome { return runOverlap(c, k) })
}

func runOverlap(c *OverlapCase, k *counters) *vkit.Outcome {
	o := &vkit.Outcome{}
	total := 0
	for _, n := range c.Publishers {
		total += n
	}
	for round := 0; round < c.Rounds; round++ {
		sts := make([]*hstate, len(c.Handlers))
		var orderMu sync.Mutex
		order := map[int][]int{}
		var early atomic.Value // first report of a publish/after-hook that ran ahead of a synchronous handler
		missing := func(id int) int {
			for i, st := range sts {
				if st.sync {
					if _, ok := st.seenSet.Load(id); !ok {
						return i
					}
				}
			}
			return -1
		}
		// the after-publish hook of a publish runs after all its synchronous handlers returned
		bus := eventbus.New(append(busmodel.Ambient(c.Ambient&^busmodel.AmbLegacyHooks), eventbus.WithAfterPublish(func(_ reflect.Type, ev any) {
			if e, ok := ev.(Ev); ok {
				if hi := missing(e.ID); hi >= 0 {
					early.CompareAndSwap(nil, fmt.Sprintf("the after-publish hook of event %d ran before synchronous Sequential handler %d had handled that event", e.ID, hi))
				}
			}
		}))...)
		neighbour := func() {
			eventbus.Subscribe(bus, func(Ev) {
				runtime.Gosched()
				runtime.Gosched()
			}, eventbus.Once())
		}
		for j := 0; j < c.Onces; j++ {
			neighbour()
		}
		for i, h := range c.Handlers {
			if i == 1 && c.OnceBetween {
				neighbour()
			}
			sts[i] = &hstate{sync: !h.Async, k: k, idx: i, orderMu: &orderMu, order: order}
			subscribeSeq(bus, h, sts[i])
		}
		if c.relays() {
			orig := total
			sts[0].relay = func(ctx context.Context, id int) {
				if id < orig {
					eventbus.PublishContext(bus, ctx, Cmd{id})
				}
			}
			eventbus.SubscribeContext(bus, func(cctx context.Context, cm Cmd) {
				eventbus.PublishContext(bus, cctx, Ev{orig + cm.ID})
			}, eventbus.Async())
		}
		var start, done sync.WaitGroup
		var ready atomic.Int32
		var cancelled sync.Map // ids published with a context cancelled right afterwards
		kk := k
		start.Add(1)
		base := 0
		for _, n := range c.Publishers {
			done.Add(1)
			go func(base, n int) {
				defer done.Done()
				ready.Add(1)
				start.Wait()
				for k := 0; k < n; k++ {
					if c.CancelEvery > 0 && k%c.CancelEvery == c.CancelEvery-1 {
						ctx, cancel := context.WithCancel(context.Background())
						cancelled.Store(base+k, true)
						pub(bus, ctx, Ev{base + k}, c.ViaAny)
						cancel()
					} else {
						pub(bus, nil, Ev{base + k}, c.ViaAny)
					}
					kk.published.Add(1)
					// a synchronous handler has run by the time Publish returns
					if hi := missing(base + k); hi >= 0 {
						early.CompareAndSwap(nil, fmt.Sprintf("Publish of event %d returned before synchronous Sequential handler %d had handled it", base+k, hi))
					}
				}
			}(base, n)
			base += n
		}
		for int(ready.Load()) < len(c.Publishers) {
			runtime.Gosched()
		}
		start.Done()
		done.Wait()
		bus.Wait()
		if msg, _ := early.Load().(string); msg != "" {
			o.Failf("", "round %d: %s (handlers %+v)", round, msg, c.Handlers)
			return o
		}
		// one publish runs its synchronous handlers in subscription order,
		// whatever the other publishers are doing
		for id, seq := range order {
			for j := 1; j < len(seq); j++ {
				if seq[j] <= seq[j-1] {
					o.Failf("", "round %d: event %d reached the synchronous handlers in the order %v; they were subscribed in the order 0..%d (handlers %+v)", round, id, seq, len(c.Handlers)-1, c.Handlers)
					return o
				}
			}
		}
		for i, st := range sts {
			if n := st.overlap.Load(); n > 0 {
				o.Failf("", "round %d: Sequential handler %d %+v overlapped itself (%d overlapping entries/exits)", round, i, c.Handlers[i], n)
				return o
			}
			st.mu.Lock()
			seen := append([]int{}, st.seen...)
			st.mu.Unlock()
			sort.Ints(seen)
			// every event exactly once; one whose context was cancelled
			// while it was queued (asynchronous handlers only) at most once
			cnt := map[int]int{}
			for _, id := range seen {
				cnt[id]++
			}
			ok := true
			total := total
			if c.relays() {
				total *= 2 // every original event produces one derived event
			}
			for id := 0; ok && id < total; id++ {
				_, canc := cancelled.Load(id)
				ok = cnt[id] == 1 || (cnt[id] == 0 && canc && !st.sync)
			}
			ok = ok && (len(seen) == 0 || (seen[0] >= 0 && seen[len(seen)-1] < total))
			if !ok {
				o.Failf("", "round %d: Sequential handler %d %+v saw events %v, expected each of 0..%d exactly once (at most once if its context was cancelled while queued)", round, i, c.Handlers[i], seen, total-1)
				return o
			}
		}
	}
	o.Nontrivial = len(c.Publishers) >= 2 && total >= 2
	if o.Nontrivial {
		o.Class("two_or_more_concurrent_publishers")
	}
	if c.CancelEvery > 0 {
		o.Class("publishes_with_own_context_cancelled_while_queued")
	}
	if c.Onces > 0 || c.OnceBetween {
		o.Class("once_handlers_retired_beside_the_sequential_handlers")
	}
	if c.relays() {
		o.Class("handler_context_relayed_through_another_goroutine_back_to_the_handler")
	}
	for _, h := range c.Handlers {
		if h.PanicEvery > 0 && total > h.PanicEvery {
			o.Class("sequential_handler_panics_on_some_events_and_receives_more")
			break
		}
	}
	return o
}

// OrderCase: one goroutine publishes 0..N-1 to Async+Sequential handlers.
type OrderCase struct {
	ViaAny   bool  `json:"via_any,omitempty"` // events are published through the static type any
	N        int   `json:"n"`
	Handlers []H   `json:"handlers"` // Async is forced
	Work     []int `json:"work"`     // Gosched calls per event inside the handler (cyclic)
	Between  []int `json:"between"`  // Gosched calls by the publisher between publishes (cyclic)
	Procs    int   `json:"procs"`
	UseCtx   bool  `json:"usectx,omitempty"`
	Ambient  int   `json:"ambient,omitempty"`
	// Pre > 0 (two handlers): the second handler is subscribed after Pre
	// events were already published, so the two handlers' places in line
	// carry different numbers for the same event.
	Pre int `json:"pre,omitempty"`
	// CancelMod > 0: a synchronous context-aware handler, subscribed before
	// the Async+Sequential ones, cancels the context of every publish whose
	// event id is a multiple of CancelMod.  Whether the later handlers still
	// receive such an event is not C07's business; every other event reaches
	// them, in publish order, and the bus drains.
	CancelMod int `json:"cancel_mod,omitempty"`
}

func RunOrder(c *OrderCase) *vkit.Outcome {
	if c.Procs > 0 {
		defer runtime.GOMAXPROCS(runtime.GOMAXPROCS(c.Procs))
	}
	k := &counters{}
	return k.guard("one publisher against Async+Sequential handlers", func() *vkit.Outcome { return runOrder(c, k) })
}

func runOrder(c *OrderCase, k *counters) *vkit.Outcome {
	o := &vkit.Outcome{}
	bus := eventbus.New(busmodel.Ambient(c.Ambient)...)
	type st struct {
		mu   sync.Mutex
		seen []int
	}
	sts := make([]*st, len(c.Handlers))
	pre := 0
	if c.Pre > 0 && len(c.Handlers) == 2 {
		pre = c.Pre
	}
	var curCancel context.CancelFunc
	var cancels []context.CancelFunc
	if c.CancelMod > 0 {
		eventbus.SubscribeContext(bus, func(_ context.Context, e Ev) {
			if curCancel != nil && e.ID%c.CancelMod == 0 {
				curCancel()
			}
		})
	}
	for i, h := range c.Handlers {
		if i == 1 && pre > 0 {
			// events that only the first handler is subscribed for
			for id := 0; id < pre; id++ {
				eventbus.Publish(bus, Ev{100000 + id})
				k.published.Add(1)
			}
		}
		s := &st{}
		sts[i] = s
		body := func(id int) {
			k.active.Add(1)
			defer func() { k.handled.Add(1); k.active.Add(-1) }()
			if len(c.Work) > 0 {
				for k := 0; k < c.Work[id%len(c.Work)]; k++ {
					runtime.Gosched()
				}
			}
			s.mu.Lock()
			s.seen = append(s.seen, id)
			s.mu.Unlock()
		}
		so := h.seqOpts()
		if h.Ctx {
			eventbus.SubscribeContext(bus, func(_ context.Context, e Ev) { body(e.ID) }, so...)
		} else {
			eventbus.Subscribe(bus, func(e Ev) { body(e.ID) }, so...)
		}
	}
	for id := 0; id < c.N; id++ {
		if c.CancelMod > 0 {
			ctx, cancel := context.WithCancel(context.Background())
			curCancel = cancel
			cancels = append(cancels, cancel)
			pub(bus, ctx, Ev{id}, c.ViaAny)
			curCancel = nil
		} else if c.UseCtx {
			pub(bus, context.Background(), Ev{id}, c.ViaAny)
		} else {
			pub(bus, nil, Ev{id}, c.ViaAny)
		}
		k.published.Add(1)
		if len(c.Between) > 0 {
			for k := 0; k < c.Between[id%len(c.Between)]; k++ {
				runtime.Gosched()
			}
		}
	}
	bus.Wait()
	for _, cancel := range cancels {
		cancel()
	}
	want := make([]int, c.N)
	for i := range want {
		want[i] = i
	}
	for i, s := range sts {
		all := want
		if i == 0 && pre > 0 {
			w0 := make([]int, 0, pre+c.N)
			for id := 0; id < pre; id++ {
				w0 = append(w0, 100000+id)
			}
			all = append(w0, all...)
		}
		want := make([]int, 0, len(all))
		for _, id := range all {
			if c.Handlers[i].takes(id) {
				want = append(want, id)
			}
		}
		if len(want) != len(all) {
			o.Class("filtered_async_sequential_handler")
		}
		if c.CancelMod > 0 {
			// events cancelled by the earlier synchronous handler may or may
			// not have reached this one: compare what is left
			strip := func(ids []int) []int {
				var out []int
				for _, id := range ids {
					if id >= 100000 || id%c.CancelMod != 0 {
						out = append(out, id)
					}
				}
				return out
			}
			full := fmt.Sprint(s.seen) == fmt.Sprint(want)
			if !full && fmt.Sprint(strip(s.seen)) == fmt.Sprint(strip(want)) && increasing(s.seen) {
				o.Class("events_cancelled_by_an_earlier_synchronous_handler")
				continue
			}
		}
		if fmt.Sprint(s.seen) != fmt.Sprint(want) {
			o.Failf("async-sequential-out-of-order", "Async+Sequential handler %d %+v processed events in order %v; they were published by one goroutine in order 0..%d (its filter accepts %v)", i, c.Handlers[i], s.seen, c.N-1, want)
			return o
		}
	}
	o.Nontrivial = c.N >= 3
	if o.Nontrivial {
		o.Class("three_or_more_events")
	}
	if pre > 0 {
		o.Class("second_handler_subscribed_after_earlier_publishes")
	}
	return o
}

// increasing: ids of the main run ascend (the pre-run ids 100000.. come first).
func increasing(ids []int) bool {
	prev := -1
	for _, id := range ids {
		if id >= 100000 {
			continue
		}
		if id <= prev {
			return false
		}
		prev = id
	}
	return true
}
