package c07

import (
	"testing"

	"verif/vkit"
)

var collOverlap = vkit.NewCollector("C07", "TestOverlap", "2-8 free-running publishers (barrier start) x 1-20 events each against 1-3 Sequential handlers (sync and async, plain and context-aware) whose body marks entry/exit with a compare-and-swap and yields in between; in a third of the cases every k-th publish carries a context of its own that is cancelled as soon as PublishContext has returned (the event may be skipped by asynchronous handlers, nothing else may change); in another third the first handler (synchronous, context-aware) publishes a command with the context it was given and an asynchronous command handler publishes, with its context, a derived event that is routed back to the first handler from another goroutine; 5 fresh buses per case, race detector on, drawn GOMAXPROCS, stall oracle. Oracle = the CAS never observes an overlap, every event reaches the synchronous handlers in subscription order, each handler sees every published event exactly once, and a synchronous Sequential handler has handled an event before that event's Publish returns and before its after-publish hook runs (waiting for the handler's lock must not turn the delivery asynchronous). Non-trivial = >=2 concurrent publishers.")
var collOrder = vkit.NewCollector("C07", "TestOrder", "one goroutine publishes ids 0..n-1 (n<=50) to 1-2 Async+Sequential handlers with drawn work per event and drawn publisher pauses, drawn GOMAXPROCS; oracle = each handler processes exactly 0..n-1 in that order. Non-trivial = n>=3.")

var collBurst = vkit.NewCollector("C07", "TestBurst", "one goroutine publishes 2-6 bursts of 20-400 events back to back to 1-2 Async+Sequential handlers (a long line of dispatch goroutines forms behind each handler; drawn per-event work, drawn GOMAXPROCS) and calls Wait after each burst. Oracle = no overlap (CAS), every handler has processed exactly 0..k in order when Wait returns, and Wait returns: events outstanding while no handler is running and no counter moving for 40 s is reported as lost delivery. Non-trivial = bursts of >=50 events.")

var collLines = vkit.NewCollector("C07", "TestIndependentLines", "2-4 Async+Sequential handlers of one event type, subscribed with fresh option values or with one reused option list, plain or context-aware, events published directly or through the static type any, drawn GOMAXPROCS; the first handler blocks inside its first invocation while 1-8 events are published. Oracle: the other handlers receive every event, in order, while the first one is still blocked (15 s, confirmed on a second run), and after it is released every handler has processed 0..n-1 in order. Non-trivial = at least two events.")

func TestMain(m *testing.M) { vkit.Main(m) }

func TestIndependentLines(t *testing.T) { vkit.Check(t, collLines, GenLines, RunLines) }

func TestOverlap(t *testing.T) { vkit.Check(t, collOverlap, GenOverlap, RunOverlap) }
func TestBurst(t *testing.T)   { vkit.Check(t, collBurst, GenBurst, RunBurst) }
func TestOrder(t *testing.T)   { vkit.Check(t, collOrder, GenOrder, RunOrder) }

func TestReplay(t *testing.T) {
	r := vkit.NeedReplay(t)
	_ = vkit.ReplayCase(t, r, collOverlap, RunOverlap) || vkit.ReplayCase(t, r, collOrder, RunOrder) || vkit.ReplayCase(t, r, collBurst, RunBurst) || vkit.ReplayCase(t, r, collLines, RunLines)
}
