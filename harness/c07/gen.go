package c07

import (
	"pgregory.net/rapid"
	"verif/busmodel"
)

func genAmbient(t *rapid.T) int {
	if rapid.Bool().Draw(t, "hasAmbient") {
		a := rapid.IntRange(0, busmodel.AmbAll).Draw(t, "ambient")
		if rapid.IntRange(0, 3).Draw(t, "nilOpts") == 0 {
			a |= busmodel.AmbNils
		}
		return a
	}
	return 0
}

func genH(t *rapid.T) H {
	return H{Ctx: rapid.Bool().Draw(t, "ctx"), Async: rapid.Bool().Draw(t, "async"), Yield: rapid.IntRange(0, 3).Draw(t, "yield"), SeqFirst: rapid.Bool().Draw(t, "seqFirst")}
}

func GenOverlap(t *rapid.T) *OverlapCase {
	c := &OverlapCase{ViaAny: rapid.IntRange(0, 2).Draw(t, "viaAny") == 0, Ambient: genAmbient(t), Rounds: 5, Procs: rapid.SampledFrom([]int{1, 2, 4, 16}).Draw(t, "procs")}
	nh := rapid.IntRange(1, 3).Draw(t, "nh")
	for i := 0; i < nh; i++ {
		h := genH(t)
		h.PanicEvery = rapid.SampledFrom([]int{0, 0, 0, 2, 3, 5}).Draw(t, "panicEvery")
		c.Handlers = append(c.Handlers, h)
	}
	if rapid.IntRange(0, 2).Draw(t, "cancels") == 0 {
		c.CancelEvery = rapid.IntRange(1, 4).Draw(t, "cancelEvery")
	}
	c.Relay = rapid.IntRange(0, 2).Draw(t, "relay") == 0
	if c.Relay {
		// the relay needs a synchronous context-aware first handler and no
		// publisher-side cancellations
		c.Handlers[0].Async, c.Handlers[0].Ctx = false, true
		c.CancelEvery = 0
	}
	if rapid.IntRange(0, 2).Draw(t, "hasOnces") == 0 {
		c.Onces = rapid.IntRange(1, 3).Draw(t, "onces")
		c.OnceBetween = rapid.Bool().Draw(t, "onceBetween")
	}
	np := rapid.IntRange(2, 8).Draw(t, "np")
	for i := 0; i < np; i++ {
		c.Publishers = append(c.Publishers, rapid.IntRange(1, 20).Draw(t, "n"))
	}
	return c
}

func GenOrder(t *rapid.T) *OrderCase {
	c := &OrderCase{ViaAny: rapid.IntRange(0, 2).Draw(t, "viaAny") == 0, Ambient: genAmbient(t), N: rapid.IntRange(1, 50).Draw(t, "n"), Procs: rapid.SampledFrom([]int{1, 2, 4, 16}).Draw(t, "procs"), UseCtx: rapid.Bool().Draw(t, "usectx")}
	nh := rapid.IntRange(1, 2).Draw(t, "nh")
	for i := 0; i < nh; i++ {
		c.Handlers = append(c.Handlers, H{Ctx: rapid.Bool().Draw(t, "ctx"), Async: true, SeqFirst: rapid.Bool().Draw(t, "seqFirst"), FilterMod: rapid.SampledFrom([]int{0, 0, 2, 3, 7}).Draw(t, "filterMod")})
	}
	if nh == 2 && rapid.Bool().Draw(t, "staggered") {
		c.Pre = rapid.IntRange(1, 5).Draw(t, "pre")
	}
	if rapid.IntRange(0, 2).Draw(t, "canceller") == 0 {
		c.CancelMod = rapid.IntRange(1, 5).Draw(t, "cancelMod")
	}
	c.Work = rapid.SliceOfN(rapid.IntRange(0, 4), 0, 5).Draw(t, "work")
	c.Between = rapid.SliceOfN(rapid.IntRange(0, 2), 0, 3).Draw(t, "between")
	return c
}

func GenBurst(t *rapid.T) *BurstCase {
	c := &BurstCase{ViaAny: rapid.IntRange(0, 2).Draw(t, "viaAny") == 0, Ambient: genAmbient(t), N: rapid.SampledFrom([]int{20, 50, 200, 300, 400}).Draw(t, "n"), Rounds: rapid.IntRange(2, 6).Draw(t, "rounds"), Procs: rapid.SampledFrom([]int{2, 4, 16, 16}).Draw(t, "procs")}
	nh := rapid.IntRange(1, 2).Draw(t, "nh")
	for i := 0; i < nh; i++ {
		c.Handlers = append(c.Handlers, H{Ctx: rapid.Bool().Draw(t, "ctx"), Async: true, SeqFirst: rapid.Bool().Draw(t, "seqFirst"), FilterMod: rapid.SampledFrom([]int{0, 0, 2, 3, 7}).Draw(t, "filterMod")})
	}
	c.Spin = rapid.SliceOfN(rapid.SampledFrom([]int{0, 0, 1, 10, 100}), 0, 4).Draw(t, "spin")
	return c
}
