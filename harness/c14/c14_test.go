//go:build verif

package c14

import (
	"os"
	"testing"

	"verif/vkit"
)

var coll = vkit.NewCollector("C14", "TestKillReopen", "1-4 cycles on one SQLite file: a child process (this binary re-executed) runs 1-12 operations (appends with payloads of 0-70000 bytes, SaveOffset for three ids (of the latest acknowledged offset or, a consumer rewinding, of one up to three appends back), and Append/SaveOffset calls with an already-cancelled context that must fail and leave nothing behind, often retried), printing one acknowledgement per completed operation; the parent sends SIGKILL on seeing acknowledgement k (plus a drawn delay of 0-800 us so that the kill lands inside the next operation) or lets it close cleanly after k operations; after each cycle the parent reopens the file and audits it, appends one probe event, and finally reopens 1-4 more times. Oracle: every acknowledged event is present at its acknowledged offset, the log is the acknowledged sequence plus at most the one operation in flight, positions increase without reuse, saved offsets are the last acknowledged (or in-flight) ones, appends after reopening get larger offsets, schema_version keeps one row. Non-trivial = a kill with >=1 acknowledged operation before it and a further cycle after it.")

func TestMain(m *testing.M) {
	if p := os.Getenv("VERIF_C14_CHILD"); p != "" {
		ChildMain(p)
		return
	}
	vkit.Main(m)
}

var collIn = vkit.NewCollector("C14", "TestAckedInProcess", "1-3 cycles of 1-10 Append/SaveOffset calls (saves also rewind to earlier offsets or name positions beyond the head of this database, as a subscription store for a log kept elsewhere sees them) on one SQLite file opened through the fault driver, each call optionally with a fault placed inside it at the driver level (statement fails before running; statement runs and its reply is lost; the caller's context is cancelled right after the statement has run; a transaction commit fails; context already cancelled), a clean Close and reopen after every cycle. Oracle: the reopened log is the attempted appends in order with every acknowledged one present at its acknowledged offset (an append that reported an error may or may not be there), offsets increase and are never reused, LoadOffset returns the last acknowledged (or possibly written) value. Non-trivial = a fault inside an operation after an earlier append, with at least two cycles.")

func TestAckedInProcess(t *testing.T) { vkit.Check(t, collIn, GenInProc, RunInProc) }

var collFirst = vkit.NewCollector("C14", "TestFirstOpenInterrupted", "the very first open of a database file is interrupted once or twice: the k-th statement executed while opening (k = 1-10: pragmas, schema bookkeeping, migration) fails before running, or runs and loses its reply, or the k-th commit is rolled back; the handle is dropped. Then the file is opened normally twice: it must open, show exactly the acknowledged events, accept 1-4 appends and a saved offset per session and keep them. Non-trivial = the first open did fail.")

func TestFirstOpenInterrupted(t *testing.T) { vkit.Check(t, collFirst, GenFirstOpen, RunFirstOpen) }

var collKC = vkit.NewCollector("C14", "TestKillConcurrent", "a child process appends 2-10 events of 0-70000 bytes from each of 2-8 goroutines at once to one SQLite file (a write refused with SQLITE_BUSY is retried), printing one acknowledgement per append after Append returned; the parent sends SIGKILL after the k-th acknowledgement (plus 0-800 us), reopens the file twice and audits it. Oracle: every acknowledged event is present at its acknowledged offset, nothing is stored twice, at most one unacknowledged event per writer, offsets increase, an append after reopening gets an offset above everything acknowledged or stored. Non-trivial = >=2 writers and acknowledged appends before the kill.")

func TestKillConcurrent(t *testing.T) { vkit.Check(t, collKC, GenKillConc, RunKillConc) }

func TestChildWorker(t *testing.T) { t.Skip("only runs as a child process") }

func TestKillReopen(t *testing.T) { vkit.Check(t, coll, Gen, Run) }

func TestReplay(t *testing.T) {
	r := vkit.NeedReplay(t)
	_ = vkit.ReplayCase(t, r, coll, Run) || vkit.ReplayCase(t, r, collIn, RunInProc) || vkit.ReplayCase(t, r, collKC, RunKillConc) || vkit.ReplayCase(t, r, collFirst, RunFirstOpen)
}
