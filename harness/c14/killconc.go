//go:build verif

package c14

import (
	"bufio"
	"context"
	"encoding/json"
	"fmt"
	"os"
	"os/exec"
	"path/filepath"
	"strconv"
	"strings"
	"sync"
	"syscall"
	"time"

	eventbus "github.com/jilio/ebu"
	"github.com/jilio/ebu/stores/sqlite"
	"verif/vkit"
)

// KCase: a child process appends from several goroutines at once and is
// killed after its k-th acknowledgement.
type KCase struct {
	Writers int `json:"writers"`
	Each    int `json:"each"`
	Size    int `json:"size"`     // padding bytes per event
	KillAt  int `json:"kill_at"`  // SIGKILL after this many acknowledgements (0 = right after start)
	DelayUs int `json:"delay_us"` // extra delay before the kill
	// Saver: one more goroutine saves the positions 1, 2, 3, ... of a
	// subscription while the writers append, reporting every acknowledged
	// SaveOffset ("SACK <n>").
	Saver bool `json:"saver,omitempty"`
}

type kScript struct {
	Mode string `json:"mode"`
	Path string `json:"path"`
	KCase
}

// concChildMain: W goroutines append; every acknowledged append is reported
// with one write ("ACK <id> [<offset>]") after Append has returned.
func concChildMain(sc kScript) {
	st, err := sqlite.New(sc.Path)
	if err != nil {
		fmt.Println("CHILDERR open:", err)
		os.Exit(3)
	}
	ctx := context.Background()
	fmt.Println("READY")
	var wg sync.WaitGroup
	for w := 0; w < sc.Writers; w++ {
		wg.Add(1)
		go func(w int) {
			defer wg.Done()
			for i := 0; i < sc.Each; i++ {
				id := w*1000 + i + 1
				data, _ := json.Marshal(map[string]any{"id": id, "pad": strings.Repeat("x", sc.Size)})
				off, err := st.Append(ctx, &eventbus.Event{Type: "c14k", Data: data, Timestamp: time.Unix(int64(id), 0)})
				for tries := 0; err != nil && tries < 5000 && strings.Contains(err.Error(), "locked"); tries++ {
					// SQLITE_BUSY: refused, nothing written; try again
					time.Sleep(50 * time.Microsecond)
					off, err = st.Append(ctx, &eventbus.Event{Type: "c14k", Data: data, Timestamp: time.Unix(int64(id), 0)})
				}
				if err != nil {
					continue // not acknowledged
				}
				os.Stdout.WriteString(fmt.Sprintf("ACK %d [%s]\n", id, off))
			}
		}(w)
	}
	if sc.Saver {
		wg.Add(1)
		go func() {
			defer wg.Done()
			for n := 1; n <= sc.Writers*sc.Each; n++ {
				err := st.SaveOffset(ctx, "sub", eventbus.Offset(strconv.Itoa(n)))
				for tries := 0; err != nil && tries < 5000 && strings.Contains(err.Error(), "locked"); tries++ {
					time.Sleep(50 * time.Microsecond)
					err = st.SaveOffset(ctx, "sub", eventbus.Offset(strconv.Itoa(n)))
				}
				if err != nil {
					return // not acknowledged; stop saving
				}
				os.Stdout.WriteString(fmt.Sprintf("SACK %d\n", n))
			}
		}()
	}
	wg.Wait()
	fmt.Println("DONE")
	time.Sleep(time.Hour)
}

func RunKillConc(c *KCase) *vkit.Outcome {
	o := &vkit.Outcome{}
	dir, err := os.MkdirTemp("", "c14k-")
	if err != nil {
		o.Failf("", "tempdir: %v", err)
		return o
	}
	defer os.RemoveAll(dir)
	dbPath := filepath.Join(dir, "log.db")
	sb, _ := json.Marshal(kScript{Mode: "conc", Path: dbPath, KCase: *c})
	scriptPath := filepath.Join(dir, "script.json")
	os.WriteFile(scriptPath, sb, 0o644)
	cmd := exec.Command(os.Args[0], "-test.run", "^TestChildWorker$")
	cmd.Env = append(os.Environ(), "VERIF_C14_CHILD="+scriptPath, "VERIF_OUT=")
	stdout, _ := cmd.StdoutPipe()
	if err := cmd.Start(); err != nil {
		o.Failf("", "starting the child: %v", err)
		return o
	}
	acked := map[int]string{} // id -> offset
	lastSack, nSacks := 0, 0
	killed := false
	kill := func() {
		if c.DelayUs > 0 {
			time.Sleep(time.Duration(c.DelayUs) * time.Microsecond)
		}
		cmd.Process.Signal(syscall.SIGKILL)
		killed = true
	}
	rd := bufio.NewReader(stdout)
	childErr := ""
	for {
		line, rerr := rd.ReadString('\n')
		line = strings.TrimSpace(line)
		f := strings.Fields(line)
		if len(f) > 0 {
			switch f[0] {
			case "READY":
				if c.KillAt == 0 && !killed {
					kill()
				}
			case "ACK":
				if len(f) == 3 {
					id, _ := strconv.Atoi(f[1])
					acked[id] = strings.Trim(f[2], "[]")
					if !killed && len(acked)+nSacks >= c.KillAt {
						kill()
					}
				}
			case "SACK":
				if len(f) == 2 {
					lastSack, _ = strconv.Atoi(f[1])
					nSacks++
					if !killed && len(acked)+nSacks >= c.KillAt {
						kill()
					}
				}
			case "DONE":
				if !killed {
					kill()
				}
			case "CHILDERR":
				childErr = line
			}
		}
		if rerr != nil {
			break
		}
	}
	cmd.Wait()
	if childErr != "" {
		o.Failf("", "child: %s", childErr)
		return o
	}
	desc := fmt.Sprintf("%d writers x %d appends of %d bytes, killed after %d acknowledgements (%d seen)", c.Writers, c.Each, c.Size, c.KillAt, len(acked))
	var maxAcked int64
	for reopen := 0; reopen < 2; reopen++ {
		st, err := sqlite.New(dbPath)
		if err != nil {
			o.Failf("", "%s: reopening the database failed: %v", desc, err)
			return o
		}
		events, _, err := st.Read(context.Background(), eventbus.OffsetOldest, 0)
		if err != nil {
			st.Close()
			o.Failf("", "%s: reading after reopen: %v", desc, err)
			return o
		}
		present := map[int]string{}
		var prev int64
		extra := 0
		for _, se := range events {
			var d struct {
				ID int `json:"id"`
			}
			json.Unmarshal(se.Data, &d)
			pos, perr := strconv.ParseInt(string(se.Offset), 10, 64)
			if perr != nil || pos <= prev {
				st.Close()
				o.Failf("", "%s: offsets do not increase along the reopened log (%q after %d)", desc, se.Offset, prev)
				return o
			}
			prev = pos
			if _, dup := present[d.ID]; dup {
				st.Close()
				o.Failf("", "%s: event %d is in the reopened log twice", desc, d.ID)
				return o
			}
			present[d.ID] = string(se.Offset)
			if _, ok := acked[d.ID]; !ok {
				extra++
			}
		}
		for id, off := range acked {
			got, ok := present[id]
			if !ok {
				st.Close()
				o.Failf("", "%s: event %d was acknowledged by Append at offset %q and is missing after reopening (log holds %d events, %d acknowledged)", desc, id, off, len(events), len(acked))
				return o
			}
			if got != off {
				st.Close()
				o.Failf("", "%s: event %d was acknowledged at offset %q and is stored at %q", desc, id, off, got)
				return o
			}
			if n, _ := strconv.ParseInt(off, 10, 64); n > maxAcked {
				maxAcked = n
			}
		}
		if extra > c.Writers {
			st.Close()
			o.Failf("", "%s: the reopened log holds %d events that were never acknowledged; at most one append per writer (%d) can have been in flight", desc, extra, c.Writers)
			return o
		}
		if c.Saver && reopen == 0 {
			got, lerr := st.LoadOffset(context.Background(), "sub")
			if lerr != nil {
				st.Close()
				o.Failf("", "%s: LoadOffset after reopening failed: %v", desc, lerr)
				return o
			}
			g := 0
			if got != "" && got != eventbus.OffsetOldest {
				g, _ = strconv.Atoi(string(got))
			}
			// the saver works through 1, 2, 3, ...: the stored position is the
			// last acknowledged one, or the next (saved, acknowledgement not yet seen)
			if g != lastSack && g != lastSack+1 {
				st.Close()
				o.Failf("", "%s: SaveOffset acknowledged position %d for subscription \"sub\" (saved in order while %d goroutines appended); after the kill and a reopen LoadOffset returns %q", desc, lastSack, c.Writers, got)
				return o
			}
			if lastSack > 0 {
				o.Class("acknowledged_offset_saves_concurrent_with_appends")
			}
		}
		// a new append gets an offset above everything acknowledged or stored
		off, err := st.Append(context.Background(), &eventbus.Event{Type: "c14k", Data: []byte(fmt.Sprintf(`{"id":%d}`, 900000+reopen)), Timestamp: time.Unix(1, 0)})
		if err != nil {
			st.Close()
			o.Failf("", "%s: appending after reopen failed: %v", desc, err)
			return o
		}
		n, _ := strconv.ParseInt(string(off), 10, 64)
		if n <= maxAcked || n <= prev {
			st.Close()
			o.Failf("", "%s: an append after reopening got offset %q, not above the acknowledged/stored offsets (max acknowledged %d, last stored %d)", desc, off, maxAcked, prev)
			return o
		}
		acked[900000+reopen] = string(off)
		st.Close()
	}
	if c.Writers >= 2 && len(acked) > 2 {
		o.Nontrivial = true
		o.Class("kill_with_concurrent_appenders_and_acknowledged_appends")
	}
	return o
}
