//go:build verif

package c14

import (
	"context"
	"fmt"
	"os"
	"path/filepath"
	"time"

	eventbus "github.com/jilio/ebu"
	"github.com/jilio/ebu/stores/sqlite"
	"pgregory.net/rapid"
	"verif/storekit"
	"verif/vkit"
)

// FirstOpenCase: the very first open of a database is interrupted - the k-th
// statement the store executes while opening (pragmas, schema_version,
// migration) fails, completes with its reply lost, or the k-th commit is
// rolled back - and the handle is dropped as a dying process would drop it.
// Whatever reached the file by then, the database opens afterwards, takes
// appends and saved offsets, and keeps them over further reopenings: a
// half-created database is an existing database too.
type FirstOpenCase struct {
	Kind    string `json:"kind"`            // execfail execlost commitfail
	K       int    `json:"k"`               // 1-based statement (or commit) that is hit
	Twice   bool   `json:"twice,omitempty"` // a second interrupted open (other k) before the good one
	K2      int    `json:"k2,omitempty"`
	Appends int    `json:"appends"`
}

func GenFirstOpen(t *rapid.T) *FirstOpenCase {
	c := &FirstOpenCase{Kind: rapid.SampledFrom([]string{"execfail", "execfail", "execlost", "commitfail"}).Draw(t, "kind"), K: rapid.IntRange(1, 10).Draw(t, "k"), Appends: rapid.IntRange(1, 4).Draw(t, "appends")}
	if c.Kind == "commitfail" {
		c.K = rapid.IntRange(1, 2).Draw(t, "kc")
	}
	if rapid.IntRange(0, 2).Draw(t, "twice") == 0 {
		c.Twice, c.K2 = true, rapid.IntRange(1, 10).Draw(t, "k2")
	}
	return c
}

func RunFirstOpen(c *FirstOpenCase) *vkit.Outcome {
	o := &vkit.Outcome{}
	dir, err := os.MkdirTemp("", "c14first-")
	if err != nil {
		o.Failf("", "tempdir: %v", err)
		return o
	}
	defer os.RemoveAll(dir)
	path := filepath.Join(dir, "first.db")
	interrupted := 0
	attempt := func(k int) {
		st, _, err := storekit.OpenSQLiteFaultyArmed(path, func(p *storekit.FaultPlan) {
			switch c.Kind {
			case "execfail":
				p.ExecFail = k
			case "execlost":
				p.ExecFailAfter = k
			default:
				p.CommitFail = k
			}
		})
		if err != nil {
			interrupted++
			return
		}
		// the fault lay beyond what opening executes: an ordinary first open
		st.Close()
	}
	attempt(c.K)
	if c.Twice {
		attempt(c.K2)
	}
	ctx := context.Background()
	var want []string
	for round := 0; round < 2; round++ {
		st, err := sqlite.New(path)
		if err != nil {
			o.Failf("", "%+v: opening the database after %d interrupted first opens failed: %v", *c, interrupted, err)
			return o
		}
		events, _, err := st.Read(ctx, eventbus.OffsetOldest, 0)
		if err != nil || len(events) != len(want) {
			st.Close()
			o.Failf("", "%+v: reopening %d after %d interrupted first opens: Read returned %d events (err %v), %d were acknowledged", *c, round, interrupted, len(events), err, len(want))
			return o
		}
		for i, se := range events {
			if string(se.Offset) != want[i] {
				st.Close()
				o.Failf("", "%+v: event %d at offset %q, acknowledged %q", *c, i, se.Offset, want[i])
				return o
			}
		}
		for i := 0; i < c.Appends; i++ {
			off, err := st.Append(ctx, &eventbus.Event{Type: "c14", Data: []byte(fmt.Sprintf(`{"id":%d}`, round*10+i)), Timestamp: time.Unix(int64(i), 0)})
			if err != nil {
				st.Close()
				o.Failf("", "%+v: Append on the database opened after %d interrupted first opens failed: %v", *c, interrupted, err)
				return o
			}
			want = append(want, string(off))
		}
		if err := st.SaveOffset(ctx, "sub", eventbus.Offset(want[len(want)-1])); err != nil {
			st.Close()
			o.Failf("", "%+v: SaveOffset failed: %v", *c, err)
			return o
		}
		if got, err := st.LoadOffset(ctx, "sub"); err != nil || string(got) != want[len(want)-1] {
			st.Close()
			o.Failf("", "%+v: LoadOffset = %q (err %v), saved %q", *c, got, err, want[len(want)-1])
			return o
		}
		if err := st.Close(); err != nil {
			o.Failf("", "%+v: close: %v", *c, err)
			return o
		}
	}
	if interrupted > 0 {
		o.Nontrivial = true
		o.Class("first_open_interrupted_" + c.Kind)
		if interrupted == 2 {
			o.Class("two_interrupted_first_opens")
		}
	} else {
		o.Class("fault_beyond_the_statements_of_an_open")
	}
	return o
}
