//go:build verif

package c14

import "pgregory.net/rapid"

func Gen(t *rapid.T) *Case {
	c := &Case{ExtraOpens: rapid.IntRange(0, 3).Draw(t, "extra")}
	nc := rapid.IntRange(1, 4).Draw(t, "ncycles")
	for i := 0; i < nc; i++ {
		cy := Cycle{End: rapid.SampledFrom([]string{"kill", "kill", "kill", "close"}).Draw(t, "end")}
		n := rapid.IntRange(1, 12).Draw(t, "nops")
		for j := 0; j < n; j++ {
			if rapid.IntRange(0, 3).Draw(t, "kind") == 0 {
				cy.Ops = append(cy.Ops, Op{K: "save", Sub: rapid.SampledFrom([]string{"A", "B", "sub-3"}).Draw(t, "sub")})
			} else {
				cy.Ops = append(cy.Ops, Op{K: "append", Size: rapid.SampledFrom([]int{0, 10, 100, 5000, 70000}).Draw(t, "size")})
			}
		}
		cy.At = rapid.IntRange(0, n).Draw(t, "at")
		if cy.End == "kill" {
			cy.DelayUs = rapid.SampledFrom([]int{0, 0, 50, 200, 800}).Draw(t, "delay")
		}
		c.Cycles = append(c.Cycles, cy)
	}
	return c
}
