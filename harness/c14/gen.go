//go:build verif

package c14

import "pgregory.net/rapid"

func Gen(t *rapid.T) *Case {
	c := &Case{ExtraOpens: rapid.IntRange(0, 3).Draw(t, "extra")}
	nc := rapid.IntRange(1, 4).Draw(t, "ncycles")
	for i := 0; i < nc; i++ {
		cy := Cycle{End: rapid.SampledFrom([]string{"kill", "kill", "kill", "close"}).Draw(t, "end")}
		n := rapid.IntRange(1, 12).Draw(t, "nops")
		for j := 0; j < n; j++ {
			kind := rapid.IntRange(0, 7).Draw(t, "kind")
			if kind <= 1 {
				op := Op{K: "save", Sub: rapid.SampledFrom([]string{"A", "A", "B", "sub-3"}).Draw(t, "sub")}
				if rapid.IntRange(0, 2).Draw(t, "rewind") == 0 {
					op.Back = rapid.IntRange(1, 3).Draw(t, "back")
				}
				cy.Ops = append(cy.Ops, op)
			} else if kind == 2 {
				// a failing save (cancelled context) followed by a retry with the same offset
				sub := rapid.SampledFrom([]string{"A", "B", "sub-3"}).Draw(t, "sub")
				cy.Ops = append(cy.Ops, Op{K: "savec", Sub: sub})
				if rapid.Bool().Draw(t, "retry") {
					cy.Ops = append(cy.Ops, Op{K: "save", Sub: sub})
					j++
				}
			} else if kind == 3 {
				cy.Ops = append(cy.Ops, Op{K: "appendc"})
			} else {
				cy.Ops = append(cy.Ops, Op{K: "append", Size: rapid.SampledFrom([]int{0, 10, 100, 5000, 70000}).Draw(t, "size")})
			}
		}
		cy.At = rapid.IntRange(0, len(cy.Ops)).Draw(t, "at")
		if cy.End == "kill" {
			cy.DelayUs = rapid.SampledFrom([]int{0, 0, 50, 200, 800}).Draw(t, "delay")
		}
		c.Cycles = append(c.Cycles, cy)
	}
	return c
}

var fFaults = []string{"", "", "", "exec-fail", "reply-lost", "cancel-after-exec", "cancel-after-exec", "commit-fail", "cancelled"}

func GenInProc(t *rapid.T) *FCase {
	c := &FCase{Batch: rapid.SampledFrom([]int{0, 1, 2, 5}).Draw(t, "batch")}
	if rapid.IntRange(0, 3).Draw(t, "busy") == 0 {
		c.BusyMs = rapid.SampledFrom([]int{1, 5, 10}).Draw(t, "busyMs")
	}
	nc := rapid.IntRange(1, 3).Draw(t, "cycles")
	for i := 0; i < nc; i++ {
		n := rapid.IntRange(1, 10).Draw(t, "nops")
		var ops []FOp
		for j := 0; j < n; j++ {
			op := FOp{K: rapid.SampledFrom([]string{"append", "append", "append", "save", "peek"}).Draw(t, "k")}
			if op.K == "peek" {
				op.Back = rapid.IntRange(0, 3).Draw(t, "peekN")
				ops = append(ops, op)
				continue
			}
			if op.K == "save" {
				op.Sub = rapid.SampledFrom([]string{"A", "A", "B"}).Draw(t, "sub")
				switch rapid.IntRange(0, 5).Draw(t, "rewind") {
				case 0, 1:
					op.Back = rapid.IntRange(1, 3).Draw(t, "back")
				case 2:
					op.Ahead = rapid.SampledFrom([]int{1, 5, 1000}).Draw(t, "ahead")
				}
			}
			op.Fault = rapid.SampledFrom(fFaults).Draw(t, "fault")
			if op.K == "append" && c.BusyMs > 0 && rapid.IntRange(0, 3).Draw(t, "big") == 0 {
				op.BigKB = rapid.SampledFrom([]int{64, 1024, 4096, 16384}).Draw(t, "bigKB")
			}
			ops = append(ops, op)
		}
		c.Cycles = append(c.Cycles, ops)
	}
	return c
}

func GenKillConc(t *rapid.T) *KCase {
	c := &KCase{Writers: rapid.IntRange(2, 8).Draw(t, "writers"), Each: rapid.IntRange(2, 10).Draw(t, "each"),
		Size: rapid.SampledFrom([]int{0, 100, 5000, 70000}).Draw(t, "size"), DelayUs: rapid.SampledFrom([]int{0, 0, 50, 200, 800}).Draw(t, "delay")}
	c.Saver = rapid.Bool().Draw(t, "saver")
	c.KillAt = rapid.IntRange(0, c.Writers*c.Each).Draw(t, "killAt")
	if c.Saver {
		c.KillAt = rapid.IntRange(0, 2*c.Writers*c.Each).Draw(t, "killAtS")
	}
	return c
}
