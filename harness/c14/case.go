//go:build verif

// Package c14 decides property C14: what the SQLite store acknowledged
// survives reopening and a killed process.  A child process (this test
// binary re-executed) runs the workload and is SIGKILLed at a drawn
// acknowledgement.
package c14

import (
	"bufio"
	"context"
	"database/sql"
	"encoding/json"
	"fmt"
	"os"
	"os/exec"
	"path/filepath"
	"strconv"
	"strings"
	"syscall"
	"time"

	eventbus "github.com/jilio/ebu"
	"github.com/jilio/ebu/stores/sqlite"
	_ "modernc.org/sqlite"
	"verif/vkit"
)

type Op struct {
	K    string `json:"k"`              // append save savec appendc  (the c variants use an already-cancelled context: they must fail and write nothing)
	Size int    `json:"size,omitempty"` // append: padding bytes
	Sub  string `json:"sub,omitempty"`  // save: subscription id
	// Back: save the offset of the Back-th most recent append acknowledged in
	// this cycle instead of the latest (a consumer rewinding); 0 = latest.
	Back int `json:"back,omitempty"`
}

type Cycle struct {
	Ops     []Op   `json:"ops"`
	End     string `json:"end"`                // kill close
	At      int    `json:"at"`                 // after acknowledgement number At (0 = before any op completes)
	DelayUs int    `json:"delay_us,omitempty"` // kill: extra delay before SIGKILL
	Batch   int    `json:"batch,omitempty"`    // child opens the store with this stream batch size (irrelevant to writes)
}

type Case struct {
	Cycles     []Cycle `json:"cycles"`
	ExtraOpens int     `json:"extra_opens"`
}

// childScript is handed to the child process.
type childScript struct {
	Path    string `json:"path"`
	Ops     []Op   `json:"ops"`
	FirstID int    `json:"first_id"`
	CloseAt int    `json:"close_at"` // clean close after this many ops (-1 = run to the end then wait to be killed)
}

// ChildMain is the body of the child process.
func ChildMain(scriptPath string) {
	b, err := os.ReadFile(scriptPath)
	if err != nil {
		fmt.Println("CHILDERR", err)
		os.Exit(3)
	}
	var ks kScript
	if json.Unmarshal(b, &ks) == nil && ks.Mode == "conc" {
		concChildMain(ks)
		return
	}
	var sc childScript
	json.Unmarshal(b, &sc)
	st, err := sqlite.New(sc.Path)
	if err != nil {
		fmt.Println("CHILDERR open:", err)
		os.Exit(3)
	}
	ctx := context.Background()
	fmt.Println("READY")
	var last eventbus.Offset
	var mine []eventbus.Offset // offsets appended by this process, in order
	pick := func(back int) eventbus.Offset {
		if back > 0 && len(mine) > back {
			return mine[len(mine)-1-back]
		}
		return last
	}
	for i, op := range sc.Ops {
		if sc.CloseAt >= 0 && i == sc.CloseAt {
			break
		}
		switch op.K {
		case "append":
			data, _ := json.Marshal(map[string]any{"id": sc.FirstID + i, "pad": strings.Repeat("x", op.Size)})
			off, err := st.Append(ctx, &eventbus.Event{Type: "c14", Data: data, Timestamp: time.Unix(int64(sc.FirstID+i), 0)})
			if err != nil {
				fmt.Println("CHILDERR append:", err)
				os.Exit(3)
			}
			last = off
			mine = append(mine, off)
			os.Stdout.WriteString(fmt.Sprintf("ACK %d append [%s]\n", i, off))
		case "save":
			so := pick(op.Back)
			if err := st.SaveOffset(ctx, op.Sub, so); err != nil {
				fmt.Println("CHILDERR save:", err)
				os.Exit(3)
			}
			os.Stdout.WriteString(fmt.Sprintf("ACK %d save [%s]\n", i, so))
		case "savec":
			cctx, cancel := context.WithCancel(ctx)
			cancel()
			if err := st.SaveOffset(cctx, op.Sub, last); err == nil {
				fmt.Println("CHILDERR SaveOffset with a cancelled context returned nil")
				os.Exit(3)
			}
			os.Stdout.WriteString(fmt.Sprintf("ACK %d savec [%s]\n", i, last))
		case "appendc":
			cctx, cancel := context.WithCancel(ctx)
			cancel()
			data, _ := json.Marshal(map[string]any{"id": -(sc.FirstID + i)})
			if _, err := st.Append(cctx, &eventbus.Event{Type: "c14", Data: data, Timestamp: time.Unix(1, 0)}); err == nil {
				fmt.Println("CHILDERR Append with a cancelled context returned nil")
				os.Exit(3)
			}
			os.Stdout.WriteString(fmt.Sprintf("ACK %d appendc []\n", i))
		}
	}
	if sc.CloseAt >= 0 {
		if err := st.Close(); err != nil {
			fmt.Println("CHILDERR close:", err)
			os.Exit(3)
		}
		fmt.Println("CLOSED")
		os.Exit(0)
	}
	fmt.Println("DONE")
	time.Sleep(time.Hour) // wait to be killed
}

type ack struct {
	idx  int
	kind string
	off  string
}

type modelEvent struct {
	id  int
	off string
}

func Run(c *Case) *vkit.Outcome {
	o := &vkit.Outcome{}
	dir, err := os.MkdirTemp("", "c14-")
	if err != nil {
		o.Failf("", "tempdir: %v", err)
		return o
	}
	defer os.RemoveAll(dir)
	dbPath := filepath.Join(dir, "log.db")
	var log []modelEvent         // acknowledged (or proven) events in order
	saved := map[string]string{} // id -> acknowledged saved offset
	nextID := 1
	killsWithAcks := 0
	for ci, cy := range c.Cycles {
		sc := childScript{Path: dbPath, Ops: cy.Ops, FirstID: nextID, CloseAt: -1}
		if cy.End == "close" {
			sc.CloseAt = cy.At
			if sc.CloseAt > len(cy.Ops) {
				sc.CloseAt = len(cy.Ops)
			}
		}
		sb, _ := json.Marshal(sc)
		scriptPath := filepath.Join(dir, fmt.Sprintf("script%d.json", ci))
		os.WriteFile(scriptPath, sb, 0o644)
		cmd := exec.Command(os.Args[0], "-test.run", "^TestChildWorker$")
		cmd.Env = append(os.Environ(), "VERIF_C14_CHILD="+scriptPath, "VERIF_OUT=")
		stdout, _ := cmd.StdoutPipe()
		cmd.Stderr = nil
		if err := cmd.Start(); err != nil {
			o.Failf("", "starting the child: %v", err)
			return o
		}
		var acks []ack
		killed := false
		closed := false
		rd := bufio.NewReader(stdout)
		kill := func() {
			if cy.DelayUs > 0 {
				time.Sleep(time.Duration(cy.DelayUs) * time.Microsecond)
			}
			cmd.Process.Signal(syscall.SIGKILL)
			killed = true
		}
		childErr := ""
		for {
			line, err := rd.ReadString('\n')
			line = strings.TrimSpace(line)
			if line != "" {
				f := strings.Fields(line)
				switch f[0] {
				case "READY":
					if cy.End == "kill" && cy.At == 0 && !killed {
						kill()
					}
				case "ACK":
					if len(f) == 4 {
						i, _ := strconv.Atoi(f[1])
						acks = append(acks, ack{i, f[2], strings.Trim(f[3], "[]")})
						if cy.End == "kill" && !killed && len(acks) >= cy.At {
							kill()
						}
					}
				case "DONE":
					if !killed {
						kill()
					}
				case "CLOSED":
					closed = true
				case "CHILDERR":
					childErr = line
				}
			}
			if err != nil {
				break
			}
		}
		cmd.Wait()
		if childErr != "" {
			o.Failf("", "cycle %d: the child reported %s", ci, childErr)
			return o
		}
		if cy.End == "close" && !closed {
			o.Failf("", "cycle %d: the child did not close cleanly", ci)
			return o
		}
		// fold acknowledgements into the model
		for _, a := range acks {
			op := cy.Ops[a.idx]
			switch op.K {
			case "append":
				log = append(log, modelEvent{id: nextID + a.idx, off: a.off})
			case "save":
				saved[op.Sub] = a.off
			}
		}
		// the operation in flight when the child died (may or may not have landed)
		var inflight *Op
		inflightID := 0
		if killed && len(acks) < len(cy.Ops) && cy.Ops[len(acks)].K != "savec" && cy.Ops[len(acks)].K != "appendc" {
			inflight = &cy.Ops[len(acks)]
			inflightID = nextID + len(acks)
		}
		if killed {
			o.Class("kill")
		} else {
			o.Class("clean_close")
		}
		if killed && len(acks) >= 1 && ci < len(c.Cycles)-1 {
			killsWithAcks++
		}
		// reopen in the parent and audit
		st, err := sqlite.New(dbPath)
		if err != nil {
			o.Failf("", "cycle %d (%s at %d): reopening the database failed: %v", ci, cy.End, cy.At, err)
			return o
		}
		events, _, err := st.Read(context.Background(), eventbus.OffsetOldest, 0)
		if err != nil {
			st.Close()
			o.Failf("", "cycle %d: reading after reopen failed: %v", ci, err)
			return o
		}
		desc := fmt.Sprintf("cycle %d (%s after ack %d of %d ops, %d acknowledged)", ci, cy.End, cy.At, len(cy.Ops), len(acks))
		if len(events) < len(log) || len(events) > len(log)+1 {
			st.Close()
			o.Failf("", "%s: the reopened log has %d events, %d were acknowledged (at most one more may be in flight)", desc, len(events), len(log))
			return o
		}
		if len(events) == len(log)+1 {
			if inflight == nil || inflight.K != "append" {
				st.Close()
				o.Failf("", "%s: the reopened log has an extra event although no append was in flight", desc)
				return o
			}
			// the in-flight append landed: it is part of the log from now on
			o.Class("inflight_append_landed")
			log = append(log, modelEvent{id: inflightID, off: string(events[len(events)-1].Offset)})
		}
		prev := int64(0)
		for i, se := range events {
			var x struct {
				ID int `json:"id"`
			}
			json.Unmarshal(se.Data, &x)
			if x.ID != log[i].id || string(se.Offset) != log[i].off {
				st.Close()
				o.Failf("", "%s: event %d after reopen is id %d at offset %q, acknowledged id %d at offset %q", desc, i, x.ID, se.Offset, log[i].id, log[i].off)
				return o
			}
			n, perr := strconv.ParseInt(string(se.Offset), 10, 64)
			if perr != nil || n <= prev {
				st.Close()
				o.Failf("", "%s: positions do not increase: %q after %d", desc, se.Offset, prev)
				return o
			}
			prev = n
		}
		for sub, want := range saved {
			got, err := st.LoadOffset(context.Background(), sub)
			allowed := map[string]bool{want: true}
			if want == "" {
				allowed["0"] = true
			}
			if inflight != nil && inflight.K == "save" && inflight.Sub == sub {
				// the in-flight save stores the offset of the last append acknowledged in this cycle ("" = position 0 if none)
				alt := saveOffsetBefore(len(acks), acks, inflight.Back)
				allowed[alt] = true
				if alt == "" {
					allowed["0"] = true
				}
			}
			if err != nil || !allowed[string(got)] {
				st.Close()
				o.Failf("", "%s: LoadOffset(%q) = %q (err %v) after reopen, acknowledged %q (allowed %v)", desc, sub, got, err, want, allowed)
				return o
			}
			if string(got) != want {
				saved[sub] = string(got)
			}
		}
		// new appends receive larger offsets - also an event that equals the
		// last one in the log in type, payload and timestamp (a caller that
		// sends the same event again): nothing makes events unique, it is a
		// new event
		if len(events) > 0 && ci%2 == 0 {
			last := events[len(events)-1]
			off, err := st.Append(context.Background(), &eventbus.Event{Type: last.Type, Data: append([]byte(nil), last.Data...), Timestamp: last.Timestamp})
			if err != nil {
				st.Close()
				o.Failf("", "%s: appending after reopen failed: %v", desc, err)
				return o
			}
			n, _ := strconv.ParseInt(string(off), 10, 64)
			if n <= prev {
				st.Close()
				o.Failf("", "%s: the first append after reopening - an event equal to the last one in the log - was acknowledged with offset %q, not larger than the last one %d: it is a new event", desc, off, prev)
				return o
			}
			prev = n
			log = append(log, modelEvent{id: log[len(log)-1].id, off: string(off)})
			o.Class("first_append_after_reopen_repeats_the_last_event")
		}
		probeID := 900000 + ci
		pd, _ := json.Marshal(map[string]any{"id": probeID})
		off, err := st.Append(context.Background(), &eventbus.Event{Type: "c14", Data: pd, Timestamp: time.Unix(1, 0)})
		if err != nil {
			st.Close()
			o.Failf("", "%s: appending after reopen failed: %v", desc, err)
			return o
		}
		n, _ := strconv.ParseInt(string(off), 10, 64)
		if n <= prev {
			st.Close()
			o.Failf("", "%s: an append after reopening received offset %q, not larger than the last one %d", desc, off, prev)
			return o
		}
		log = append(log, modelEvent{id: probeID, off: string(off)})
		if err := st.Close(); err != nil {
			o.Failf("", "%s: close: %v", desc, err)
			return o
		}
		nextID += len(cy.Ops)
	}
	// repeated opening is idempotent
	for k := 0; k <= c.ExtraOpens; k++ {
		st, err := sqlite.New(dbPath)
		if err != nil {
			o.Failf("", "extra open %d failed: %v", k, err)
			return o
		}
		events, _, err := st.Read(context.Background(), eventbus.OffsetOldest, 0)
		st.Close()
		if err != nil || len(events) != len(log) {
			o.Failf("", "extra open %d: %d events (err %v), expected %d", k, len(events), err, len(log))
			return o
		}
		for i, se := range events {
			if string(se.Offset) != log[i].off {
				o.Failf("", "extra open %d: event %d at offset %q, expected %q", k, i, se.Offset, log[i].off)
				return o
			}
		}
	}
	// ... also for what comes next: the offset the next append receives does
	// not depend on how often the database has been opened and closed before.
	// A copy of the (closed) database is opened once, the original three
	// times; both then append the same event.
	copyPath := dbPath + ".copy"
	for _, suffix := range []string{"", "-wal", "-shm"} {
		if data, rerr := os.ReadFile(dbPath + suffix); rerr == nil {
			os.WriteFile(copyPath+suffix, data, 0o600)
		}
	}
	nextOffset := func(path string, opens int) (string, error) {
		for k := 1; k < opens; k++ {
			st, err := sqlite.New(path)
			if err != nil {
				return "", err
			}
			st.Close()
		}
		st, err := sqlite.New(path)
		if err != nil {
			return "", err
		}
		defer st.Close()
		off, err := st.Append(context.Background(), &eventbus.Event{Type: "c14", Data: []byte(`{"id":990000}`), Timestamp: time.Unix(1, 0)})
		return string(off), err
	}
	offCopy, errCopy := nextOffset(copyPath, 1)
	offOrig, errOrig := nextOffset(dbPath, 3)
	for _, suffix := range []string{"", "-wal", "-shm"} {
		os.Remove(copyPath + suffix)
	}
	if errCopy != nil || errOrig != nil {
		o.Failf("", "appending after the final reopenings failed: %v / %v", errCopy, errOrig)
		return o
	}
	if offCopy != offOrig {
		o.Failf("", "opening an existing database is not idempotent: the same database, opened once, gives the next append offset %q; opened and closed twice more before, offset %q", offCopy, offOrig)
		return o
	}
	db, err := sql.Open("sqlite", "file:"+dbPath)
	if err == nil {
		var rows int
		db.QueryRow("SELECT COUNT(*) FROM schema_version").Scan(&rows)
		db.Close()
		if rows != 1 {
			o.Failf("", "schema_version has %d rows after %d opens, expected 1", rows, len(c.Cycles)+c.ExtraOpens+1)
		}
	}
	if killsWithAcks > 0 {
		o.Nontrivial = true
		o.Class("kill_with_acknowledged_ops_and_a_further_cycle")
	}
	return o
}

// lastAppendOffsetBefore: offset acknowledged by the last append among the
// first n acknowledged ops of this cycle ("" if none).
// saveOffsetBefore: the offset a save issued as operation n stores - that of
// the back-th most recent append acknowledged in the cycle ("" if none).
func saveOffsetBefore(n int, acks []ack, back int) string {
	var mine []string
	for _, a := range acks {
		if a.idx < n && a.kind == "append" {
			mine = append(mine, a.off)
		}
	}
	if len(mine) == 0 {
		return ""
	}
	if back > 0 && len(mine) > back {
		return mine[len(mine)-1-back]
	}
	return mine[len(mine)-1]
}

var _ = vkit.Tier
