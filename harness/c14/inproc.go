//go:build verif

package c14

import (
	"context"
	"encoding/json"
	"fmt"
	"github.com/jilio/ebu/stores/sqlite"
	"path/filepath"
	"strconv"
	"strings"
	"time"

	eventbus "github.com/jilio/ebu"
	"verif/storekit"
	"verif/vkit"
)

// FOp is one store call of the in-process workload, optionally with a fault
// placed inside it at the driver level.
type FOp struct {
	K   string `json:"k"`             // append save peek (read the stream from the start and stop after Back+1 events: a reader that only wanted a look)
	Sub string `json:"sub,omitempty"` // save: subscription id
	// Fault: "" none; "exec-fail" the statement fails before running;
	// "reply-lost" the statement runs and its reply is replaced by an error;
	// "cancel-after-exec" the caller's context is cancelled right after the
	// statement has run inside the driver; "commit-fail" a transaction commit
	// (if the operation uses one) is rolled back and fails; "cancelled" the
	// context is already cancelled.
	Fault string `json:"fault,omitempty"`
	// Back: save the offset of the Back-th most recent acknowledged append
	// instead of the latest (a rewind); 0 = latest.
	Back int `json:"back,omitempty"`
	// Ahead > 0: save a position Ahead beyond the largest offset of this
	// database (the store serves as subscription store for a log kept
	// elsewhere, or a consumer numbers its own positions).
	Ahead int `json:"ahead,omitempty"`
	// BigKB > 0 (append): the event carries BigKB KiB of padding, so that
	// writing it takes longer than a small busy timeout.
	BigKB int `json:"big_kb,omitempty"`
}

type FCase struct {
	Cycles [][]FOp `json:"cycles"` // clean close + reopen between cycles
	// Batch > 0: the store is opened with WithStreamBatchSize(Batch).  Only
	// the "peek" operation reads streams; how they are fetched is nobody
	// else's business.
	Batch int `json:"batch,omitempty"`
	// BusyMs > 0: the store is opened with WithBusyTimeout(BusyMs ms).  The
	// busy timeout bounds the wait for a lock held by someone else; nobody
	// else has the database open here, so it changes nothing: one Append call
	// is one row, however long the write takes.
	BusyMs int `json:"busy_ms,omitempty"`
}

type fEntry struct {
	id    int
	acked bool
	off   eventbus.Offset
}

// RunInProc executes the workload against a store opened through the fault
// driver and audits the log after every clean reopen.
func RunInProc(c *FCase) *vkit.Outcome {
	o := &vkit.Outcome{}
	storekit.SetVariant(vkit.HashOf(c))
	dir, cleanup := storekit.TempDir("c14f-")
	defer cleanup()
	path := filepath.Join(dir, "f.db")
	bg := context.Background()

	var log []fEntry                        // every append attempted, in order
	saved := map[string][]eventbus.Offset{} // per id: allowed values (last acked, then later failed attempts)
	nextID := 0
	faults, ackedBeforeFault := 0, false
	var maxPos int64
	spurious := ""

	audit := func(when string) bool {
		st, _, err := storekit.OpenSQLiteFaulty(path)
		if err != nil {
			o.Failf("", "%s: reopening failed: %v", when, err)
			return false
		}
		defer st.Close()
		var all []*eventbus.StoredEvent
		cur := eventbus.OffsetOldest
		for rounds := 0; ; rounds++ {
			if rounds > 10000 {
				o.Failf("", "%s: a chain of limited reads over the reopened log does not end (%d events so far)", when, len(all))
				return false
			}
			page, next, err := st.Read(bg, cur, 7)
			if err != nil {
				o.Failf("", "%s: reading the reopened log failed: %v", when, err)
				return false
			}
			if len(page) == 0 {
				break
			}
			all = append(all, page...)
			cur = next
		}
		// the stored sequence must be the attempted appends in order, every
		// acknowledged one present at its acknowledged offset; an append that
		// reported an error may or may not have been written.
		li := 0
		var prev int64
		for _, se := range all {
			var d struct {
				ID int `json:"id"`
			}
			if jerr := json.Unmarshal(se.Data, &d); jerr != nil {
				o.Failf("", "%s: stored data %q is not what was appended", when, se.Data)
				return false
			}
			pos, perr := strconv.ParseInt(string(se.Offset), 10, 64)
			if perr != nil || pos <= prev {
				o.Failf("", "%s: offsets do not increase along the reopened log: %q after position %d", when, se.Offset, prev)
				return false
			}
			prev = pos
			for li < len(log) && log[li].id != d.ID {
				if log[li].acked {
					o.Failf("", "%s: event %d was acknowledged by Append (offset %q) and is missing from the reopened log (found event %d in its place)", when, log[li].id, log[li].off, d.ID)
					return false
				}
				li++
			}
			if li == len(log) {
				o.Failf("", "%s: the reopened log holds event %d out of order or twice", when, d.ID)
				return false
			}
			if log[li].acked && log[li].off != se.Offset {
				o.Failf("", "%s: event %d was acknowledged at offset %q and is stored at %q", when, d.ID, log[li].off, se.Offset)
				return false
			}
			li++
		}
		for ; li < len(log); li++ {
			if log[li].acked {
				o.Failf("", "%s: event %d was acknowledged by Append (offset %q) and is missing from the reopened log", when, log[li].id, log[li].off)
				return false
			}
		}
		if prev > maxPos {
			maxPos = prev
		}
		for id, allowed := range saved {
			got, err := st.LoadOffset(bg, id)
			if err != nil {
				o.Failf("", "%s: LoadOffset(%q) failed: %v", when, id, err)
				return false
			}
			ok := false
			for _, a := range allowed {
				if a == got {
					ok = true
				}
			}
			if !ok {
				o.Failf("", "%s: LoadOffset(%q) = %q, acknowledged (or possibly written) values are %q", when, id, got, allowed)
				return false
			}
		}
		return true
	}

	for ci, ops := range c.Cycles {
		var sopts []sqlite.Option
		if c.Batch > 0 {
			sopts = append(sopts, sqlite.WithStreamBatchSize(c.Batch))
		}
		if c.BusyMs > 0 {
			sopts = append(sopts, sqlite.WithBusyTimeout(time.Duration(c.BusyMs)*time.Millisecond))
		}
		st, plan, err := storekit.OpenSQLiteFaulty(path, sopts...)
		if err != nil {
			o.Failf("", "cycle %d: open: %v", ci, err)
			return o
		}
		for _, op := range ops {
			ctx, cancel := context.WithCancel(bg)
			plan.Reset()
			switch op.Fault {
			case "exec-fail":
				plan.ExecFail = 1
			case "reply-lost":
				plan.ExecFailAfter = 1
			case "cancel-after-exec":
				plan.CallExec, plan.OnExec = 1, cancel
			case "commit-fail":
				plan.CommitFail = 1
			case "cancelled":
				cancel()
			}
			if op.Fault != "" {
				faults++
				if len(log) > 0 {
					ackedBeforeFault = true
				}
				plan.Arm(true)
			}
			switch op.K {
			case "peek":
				n := 0
				for _, serr := range st.ReadStream(ctx, eventbus.OffsetOldest) {
					if serr != nil {
						break
					}
					if n++; n > op.Back {
						break
					}
				}
				plan.Arm(false)
				o.Class("stream_read_abandoned_part_way")
			case "append":
				nextID++
				data := []byte(fmt.Sprintf(`{"id":%d}`, nextID))
				if op.BigKB > 0 {
					data = []byte(fmt.Sprintf(`{"id":%d,"pad":"%s"}`, nextID, strings.Repeat("p", op.BigKB<<10)))
					o.Class("append_of_a_large_event")
				}
				off, err := st.Append(ctx, &eventbus.Event{Type: "ev", Data: data})
				plan.Arm(false)
				e := fEntry{id: nextID, acked: err == nil, off: off}
				if err == nil {
					pos, perr := strconv.ParseInt(string(off), 10, 64)
					if perr != nil || pos <= maxPos {
						o.Failf("", "cycle %d: Append acknowledged event %d at offset %q, not above the largest offset seen so far (%d)", ci, nextID, off, maxPos)
						cancel()
						st.Close()
						return o
					}
					maxPos = pos
				} else if op.Fault == "" && spurious == "" {
					// reported after the audit: what the failed call left in
					// the log is the more telling symptom
					spurious = fmt.Sprintf("cycle %d: Append of event %d (%d KiB of padding, busy timeout %d ms) failed without an injected fault and with nobody else using the database: %v", ci, nextID, op.BigKB, c.BusyMs, err)
				}
				log = append(log, e)
			case "save":
				var off eventbus.Offset = "0"
				skip := op.Back
				for i := len(log) - 1; i >= 0; i-- {
					if log[i].acked {
						off = log[i].off
						if skip == 0 {
							break
						}
						skip--
					}
				}
				if op.Ahead > 0 {
					off = eventbus.Offset(strconv.FormatInt(maxPos+int64(op.Ahead), 10))
				}
				err := st.SaveOffset(ctx, op.Sub, off)
				plan.Arm(false)
				if err == nil {
					saved[op.Sub] = []eventbus.Offset{off}
				} else {
					if op.Fault == "" {
						o.Failf("", "cycle %d: SaveOffset failed without an injected fault: %v", ci, err)
					}
					if _, ok := saved[op.Sub]; !ok {
						saved[op.Sub] = []eventbus.Offset{eventbus.OffsetOldest, "0"}
					}
					saved[op.Sub] = append(saved[op.Sub], off)
				}
			}
			cancel()
		}
		plan.Reset()
		if err := st.Close(); err != nil {
			o.Failf("", "cycle %d: Close: %v", ci, err)
			return o
		}
		if !audit(fmt.Sprintf("after cycle %d", ci)) {
			return o
		}
		if spurious != "" {
			o.Failf("", "%s", spurious)
			return o
		}
	}
	if faults > 0 && ackedBeforeFault && len(c.Cycles) >= 2 {
		o.Nontrivial = true
		o.Class("fault_inside_an_operation_with_reopen_cycles")
	}
	for _, ops := range c.Cycles {
		for _, op := range ops {
			if op.Fault != "" {
				o.Class("fault_" + op.Fault + "_in_" + op.K)
			}
		}
	}
	return o
}
