//go:build verif

package c18

import (
	"testing"

	"verif/vkit"
)

var coll = vkit.NewCollector("C18", "TestFold", "sequences of 1-40 insert/update/update-with-old/delete/delete-with-old/reset/snapshot-start/snapshot-end messages over entity types {user, order, 'a/b' registered; ghost unregistered} and keys {1, 2, a/b, b/c, unicode, user/1}, strict and non-strict, built with the helper constructors and either published (value and pointer forms) through a bus + store (memory, SQLite with its unpadded offsets crossing 9->10, durable-streams) and replayed, or applied directly as hand-built events whose offsets are zero-padded, unpadded or opaque unordered tokens; the log is also applied in two sessions split at a drawn point, the second resumed from LastOffset. Oracle = last-writer-wins fold: Get/All of every collection, reset and snapshot callback counts, LastOffset, strict-mode stop with unchanged state; two sessions == one. Non-trivial = a delete or reset after a write of the same key with the split strictly inside.")

func TestMain(m *testing.M) { vkit.Main(m) }

func TestFold(t *testing.T) { vkit.Check(t, coll, Gen, Run) }

func TestReplay(t *testing.T) {
	r := vkit.NeedReplay(t)
	vkit.ReplayCase(t, r, coll, Run)
}
