//go:build verif

package c18

import "pgregory.net/rapid"

func Gen(t *rapid.T) *Case {
	c := &Case{Strict: rapid.IntRange(0, 3).Draw(t, "strict") == 0, Direct: rapid.Bool().Draw(t, "direct")}
	if rapid.Bool().Draw(t, "dropCallbacks") {
		c.NoCB = rapid.IntRange(1, 7).Draw(t, "noCB")
	}
	n := rapid.IntRange(1, 40).Draw(t, "n")
	kinds := []string{"insert", "insert", "update", "update", "updateold", "delete", "delete", "deleteold", "reset", "snapstart", "snapend"}
	types := []int{0, 0, 1, 2, 2, 3}
	if c.Strict {
		types = []int{0, 0, 0, 1, 1, 2, 2, 2, 2, 3}
	}
	churn := rapid.IntRange(0, 7).Draw(t, "churn") == 0
	if churn {
		// a long history of inserts and deletes over a few keys, without
		// resets: whatever a store does once it has seen 32, 64, 128 ...
		// removals (compaction, rebuilding) happens here
		n = rapid.IntRange(120, 400).Draw(t, "churnN")
		kinds = []string{"insert", "insert", "delete", "delete", "deleteold", "update", "snapend"}
		types = []int{0, 0, 0, 2}
		c.Direct = true
	}
	for i := 0; i < n; i++ {
		m := Msg{K: rapid.SampledFrom(kinds).Draw(t, "k")}
		switch m.K {
		case "reset", "snapstart", "snapend":
		default:
			m.T = rapid.SampledFrom(types).Draw(t, "t")
			m.Key = rapid.IntRange(0, len(Keys)-1).Draw(t, "key")
			if churn {
				m.Key = rapid.IntRange(0, 2).Draw(t, "churnKey")
			}
			m.Name = rapid.SampledFrom([]string{"", "a", "Zoë", "名前", "x/y"}).Draw(t, "name")
			m.N = rapid.IntRange(-5, 50).Draw(t, "n")
			if rapid.IntRange(0, 3).Draw(t, "tx") == 0 {
				m.TxID = rapid.SampledFrom([]string{"tx1", "tx-2"}).Draw(t, "txid")
			}
		}
		c.Msgs = append(c.Msgs, m)
	}
	c.Split = rapid.IntRange(0, n).Draw(t, "split")
	if c.Direct {
		c.OffStyle = rapid.IntRange(0, 2).Draw(t, "offstyle")
	} else {
		c.Store = rapid.SampledFrom([]string{"", "", "sqlite", "sqlite", "durable"}).Draw(t, "store")
	}
	return c
}
