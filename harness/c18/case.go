//go:build verif

// Package c18 decides property C18: materialized state is the fold of the
// message log.
package c18

import (
	"context"
	"encoding/json"
	"errors"
	"fmt"
	"sort"

	eventbus "github.com/jilio/ebu"
	"github.com/jilio/ebu/state"
	"verif/storekit"
	"verif/vkit"
)

type Ent struct {
	Name string   `json:"name"`
	N    int      `json:"n"`
	Tags []string `json:"tags,omitempty"`
}

type Other struct {
	V float64 `json:"v"`
}

// entity types: 0 "user" (Ent), 1 "order" (Other), 2 "a/b" (Ent), 3 "ghost" (unregistered)
var TypeNames = []string{"user", "order", "a/b", "ghost"}
var Keys = []string{"1", "2", "a/b", "b/c", "ключ", "user/1", "a/", "/a", "a//b", "./1", "..", "a/./b", "2/"}

type Msg struct {
	K    string `json:"k"` // insert update updateold delete deleteold reset snapstart snapend
	T    int    `json:"t,omitempty"`
	Key  int    `json:"key,omitempty"`
	Name string `json:"name,omitempty"`
	N    int    `json:"n,omitempty"`
	TxID string `json:"txid,omitempty"`
}

type Case struct {
	Msgs   []Msg `json:"msgs"`
	Strict bool  `json:"strict,omitempty"`
	Split  int   `json:"split"`            // first session applies Msgs[:Split]
	Direct bool  `json:"direct,omitempty"` // Apply directly instead of publish+store+replay
	// Store selects the store of the published form: "" memory, "sqlite"
	// (unpadded decimal offsets), "durable" (in-process durable-streams server).
	Store string `json:"store,omitempty"`
	// OffStyle selects the offsets of hand-built events in Direct mode:
	// 0 zero-padded, 1 unpadded decimal, 2 opaque unordered tokens.
	OffStyle int `json:"off_style,omitempty"`
	// NoCB is a mask of materializer callbacks that are NOT installed
	// (1 OnReset, 2 OnSnapshot, 4 OnError): the fold must not depend on them.
	NoCB int `json:"no_cb,omitempty"`
}

func (c *Case) offset(i int) eventbus.Offset {
	switch c.OffStyle {
	case 1:
		return eventbus.Offset(fmt.Sprint(i + 1))
	case 2:
		// unique, not ordered in any way: offsets are opaque to the materializer
		return eventbus.Offset(fmt.Sprintf("%x-%d", (uint32(i+1)*2654435761)>>8, i+1))
	}
	return eventbus.Offset(fmt.Sprintf("%08d", i+1))
}

type mat struct {
	m        *state.Materializer
	users    *state.TypedCollection[Ent]
	orders   *state.TypedCollection[Other]
	ab       *state.TypedCollection[Ent]
	resets   int
	snaps    []bool
	onErrors int
	noCB     int
}

func newMat(strict bool, noCB ...int) *mat {
	x := &mat{}
	if len(noCB) > 0 {
		x.noCB = noCB[0]
	}
	var opts []state.MaterializerOption
	if x.noCB&1 == 0 {
		opts = append(opts, state.WithOnReset(func() { x.resets++ }))
	}
	if x.noCB&2 == 0 {
		opts = append(opts, state.WithOnSnapshot(func(start bool) { x.snaps = append(x.snaps, start) }))
	}
	if x.noCB&4 == 0 {
		opts = append(opts, state.WithOnError(func(error) { x.onErrors++ }))
	}
	if strict {
		opts = append(opts, state.WithStrictSchema())
	}
	x.m = state.NewMaterializer(opts...)
	x.users = state.NewTypedCollectionWithType[Ent](state.NewMemoryStore[Ent](), "user")
	x.orders = state.NewTypedCollectionWithType[Other](state.NewMemoryStore[Other](), "order")
	x.ab = state.NewTypedCollectionWithType[Ent](state.NewMemoryStore[Ent](), "a/b")
	state.RegisterCollection(x.m, x.users)
	state.RegisterCollection(x.m, x.orders)
	state.RegisterCollection(x.m, x.ab)
	return x
}

// snapshot renders the whole observable state canonically.
func (x *mat) snapshot() string {
	out := map[string]any{}
	add := func(prefix string, all any) {
		b, _ := json.Marshal(all)
		var m map[string]json.RawMessage
		json.Unmarshal(b, &m)
		keys := make([]string, 0, len(m))
		for k := range m {
			keys = append(keys, k)
		}
		sort.Strings(keys)
		for _, k := range keys {
			out[prefix+"|"+k] = m[k]
		}
	}
	add("user", x.users.All())
	add("order", x.orders.All())
	add("a/b", x.ab.All())
	b, _ := json.Marshal(out)
	return string(b)
}

type model struct {
	data   map[string]map[string]string // type -> key -> JSON value
	resets int
	snaps  []bool
	last   eventbus.Offset
}

func newModel() *model {
	return &model{data: map[string]map[string]string{"user": {}, "order": {}, "a/b": {}}}
}

func (md *model) snapshot() string {
	out := map[string]any{}
	for t, kv := range md.data {
		for k, v := range kv {
			out[t+"|"+t+"/"+k] = json.RawMessage(v)
		}
	}
	b, _ := json.Marshal(out)
	return string(b)
}

func valueJSON(m Msg) string {
	if m.T == 1 {
		b, _ := json.Marshal(Other{V: float64(m.N) / 4})
		return string(b)
	}
	e := Ent{Name: m.Name, N: m.N}
	if m.N%3 == 0 {
		e.Tags = []string{"t", m.Name}
	}
	b, _ := json.Marshal(e)
	return string(b)
}

func build(m Msg) (any, error) {
	tn := TypeNames[m.T]
	key := Keys[m.Key%len(Keys)]
	opts := []state.ChangeOption{state.WithEntityType(tn)}
	if m.TxID != "" {
		opts = append(opts, state.WithTxID(m.TxID))
	}
	mk := func() any {
		if m.T == 1 {
			return Other{V: float64(m.N) / 4}
		}
		e := Ent{Name: m.Name, N: m.N}
		if m.N%3 == 0 {
			e.Tags = []string{"t", m.Name}
		}
		return e
	}
	switch m.K {
	case "insert":
		if m.T == 1 {
			return state.Insert(key, mk().(Other), opts...)
		}
		return state.Insert(key, mk().(Ent), opts...)
	case "update":
		if m.T == 1 {
			return state.Update(key, mk().(Other), opts...)
		}
		return state.Update(key, mk().(Ent), opts...)
	case "updateold":
		if m.T == 1 {
			return state.UpdateWithOldValue(key, mk().(Other), Other{V: -1}, opts...)
		}
		return state.UpdateWithOldValue(key, mk().(Ent), Ent{Name: "old"}, opts...)
	case "delete":
		if m.T == 1 {
			return state.Delete[Other](key, opts...)
		}
		return state.Delete[Ent](key, opts...)
	case "deleteold":
		if m.T == 1 {
			return state.DeleteWithOldValue(key, Other{V: -2}, opts...)
		}
		return state.DeleteWithOldValue(key, Ent{Name: "gone"}, opts...)
	case "reset":
		return state.Reset("r"), nil
	case "snapstart":
		return state.SnapshotStart("s"), nil
	case "snapend":
		return state.SnapshotEnd("e"), nil
	}
	return nil, fmt.Errorf("unknown message kind %q", m.K)
}

// applyModel returns false if the message stops a strict replay.
func (md *model) apply(m Msg, strict bool) bool {
	tn := TypeNames[m.T]
	key := Keys[m.Key%len(Keys)]
	switch m.K {
	case "insert", "update", "updateold":
		if m.T == 3 {
			return !strict
		}
		md.data[tn][key] = valueJSON(m)
	case "delete", "deleteold":
		if m.T == 3 {
			return !strict
		}
		delete(md.data[tn], key)
	case "reset":
		for t := range md.data {
			md.data[t] = map[string]string{}
		}
		md.resets++
	case "snapstart":
		md.snaps = append(md.snaps, true)
	case "snapend":
		md.snaps = append(md.snaps, false)
	}
	return true
}

var errStopSession = errors.New("end of first session")

func Run(c *Case) *vkit.Outcome {
	o := &vkit.Outcome{}
	ctx := context.Background()
	var store eventbus.EventStore = eventbus.NewMemoryStore()
	if !c.Direct {
		switch c.Store {
		case "sqlite":
			storekit.SetVariant(vkit.HashOf(c))
			dir, cleanup := storekit.TempDir("c18-")
			defer cleanup()
			st, err := storekit.OpenSQLite(dir, "s.db")
			if err != nil {
				o.Failf("", "open: %v", err)
				return o
			}
			defer st.Close()
			store = st
		case "durable":
			st, err := storekit.NewDSServer(0).Open("state")
			if err != nil {
				o.Failf("", "open: %v", err)
				return o
			}
			store = st
		}
	}
	bus := eventbus.New(eventbus.WithStore(store))
	// build and persist
	var events []*eventbus.StoredEvent
	for i, m := range c.Msgs {
		msg, err := build(m)
		if err != nil {
			o.Failf("", "building message %d %+v: %v", i, m, err)
			return o
		}
		if c.Direct {
			data, _ := json.Marshal(msg)
			events = append(events, &eventbus.StoredEvent{Offset: c.offset(i), Type: eventbus.EventType(msg), Data: data})
			continue
		}
		switch v := msg.(type) {
		case *state.ChangeMessage:
			if i%2 == 0 {
				eventbus.Publish(bus, v)
			} else {
				eventbus.Publish(bus, *v)
			}
		case *state.ControlMessage:
			if i%2 == 0 {
				eventbus.Publish(bus, v)
			} else {
				eventbus.Publish(bus, *v)
			}
		}
	}
	if !c.Direct {
		all, _, err := store.Read(ctx, eventbus.OffsetOldest, 0)
		if err != nil || len(all) != len(c.Msgs) {
			o.Failf("", "persisting %d messages produced %d records (err %v)", len(c.Msgs), len(all), err)
			return o
		}
		events = all
	}

	// model over the whole log
	md := newModel()
	stopAt := -1
	for i, m := range c.Msgs {
		if !md.apply(m, c.Strict) {
			stopAt = i
			break
		}
		md.last = events[i].Offset
	}

	applyRange := func(x *mat, from, to int) (int, error) {
		for i := from; i < to; i++ {
			before, lastBefore := x.snapshot(), x.m.LastOffset()
			if err := x.m.Apply(events[i]); err != nil {
				if x.snapshot() != before || x.m.LastOffset() != lastBefore {
					o.Failf("", "Apply of message %d %+v returned %v but changed the state or LastOffset", i, c.Msgs[i], err)
				}
				return i, err
			}
		}
		return to, nil
	}
	check := func(what string, x *mat) {
		if got, want := x.snapshot(), md.snapshot(); !vkit.JSONEqual([]byte(got), []byte(want)) {
			o.Failf("", "%s: collections hold %s, the last-writer-wins fold of the log gives %s (msgs %+v)", what, got, want, c.Msgs)
			return
		}
		if x.m.LastOffset() != md.last {
			o.Failf("", "%s: LastOffset = %q, offset of the last applied event is %q", what, x.m.LastOffset(), md.last)
		}
		if x.noCB&1 == 0 && x.resets != md.resets {
			o.Failf("", "%s: reset callback fired %d times for %d reset messages", what, x.resets, md.resets)
		}
		if x.noCB&2 == 0 && fmt.Sprint(x.snaps) != fmt.Sprint(md.snaps) {
			o.Failf("", "%s: snapshot callbacks %v, expected %v", what, x.snaps, md.snaps)
		}
		// Get agrees with All for every key
		for ti, tn := range TypeNames[:3] {
			for _, k := range Keys {
				want, has := md.data[tn][k]
				var got any
				var ok bool
				switch ti {
				case 0:
					got, ok = x.users.Get(k)
				case 1:
					got, ok = x.orders.Get(k)
				case 2:
					got, ok = x.ab.Get(k)
				}
				if ok != has {
					o.Failf("", "%s: Get(%q) on collection %q: present=%v, model present=%v", what, k, tn, ok, has)
					return
				}
				if ok {
					b, _ := json.Marshal(got)
					if !vkit.JSONEqual(b, []byte(want)) {
						o.Failf("", "%s: Get(%q) on %q = %s, model %s", what, k, tn, b, want)
						return
					}
				}
			}
		}
	}

	// one session
	one := newMat(c.Strict, c.NoCB)
	var err1 error
	if c.Direct {
		_, err1 = applyRange(one, 0, len(events))
	} else {
		err1 = one.m.Replay(ctx, bus, eventbus.OffsetOldest)
	}
	if (stopAt >= 0) != (err1 != nil) {
		o.Failf("", "one session: replay error = %v, model stops at message %d (strict=%v)", err1, stopAt, c.Strict)
		return o
	}
	check("one session", one)
	if len(o.Viol) > 0 {
		return o
	}

	// two sessions: [0,split) then resume from LastOffset
	split := c.Split
	if split > len(events) {
		split = len(events)
	}
	if !c.Direct && c.Store == "durable" {
		// the durable-streams store cannot be resumed from an event's offset
		// (C10 known finding durablestream:synthetic-event-offset); only the
		// single-session fold is judged on it.
		o.Exclude("two_session_resume_on_durable_store", 1)
		goto classify
	}
	{
		two := newMat(c.Strict, c.NoCB)
		if c.Direct {
			n, err := applyRange(two, 0, split)
			if err == nil {
				_, err = applyRange(two, n, len(events))
			}
			_ = err
		} else {
			n := 0
			err := bus.Replay(ctx, eventbus.OffsetOldest, func(se *eventbus.StoredEvent) error {
				if n >= split {
					return errStopSession
				}
				n++
				return two.m.Apply(se)
			})
			if err == nil || errors.Is(err, errStopSession) {
				two.m.Replay(ctx, bus, two.m.LastOffset())
			}
		}
		check(fmt.Sprintf("two sessions split at %d", split), two)
	}
classify:

	// classification
	seenWrite := map[string]bool{}
	for i, m := range c.Msgs {
		k := fmt.Sprint(m.T, "/", m.Key%len(Keys))
		switch m.K {
		case "insert", "update", "updateold":
			seenWrite[k] = true
		case "delete", "deleteold":
			if seenWrite[k] && split > 0 && split < len(c.Msgs) {
				o.Nontrivial = true
			}
		case "reset":
			if len(seenWrite) > 0 && split > 0 && split < len(c.Msgs) {
				o.Nontrivial = true
			}
		}
		_ = i
	}
	if o.Nontrivial {
		o.Class("delete_or_reset_after_write_with_split_inside")
	}
	if c.Direct {
		o.Class(fmt.Sprintf("direct_offstyle_%d", c.OffStyle))
	} else {
		o.Class("store_" + map[string]string{"": "memory"}[c.Store] + c.Store)
	}
	if len(c.Msgs) >= 10 {
		o.Class("ten_or_more_messages")
	}
	if stopAt >= 0 {
		o.Class("strict_stop_on_unregistered_type")
	}
	return o
}
