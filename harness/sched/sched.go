// Package sched is a harness-owned cooperative scheduler.  Tasks are
// goroutines inside a testing/synctest bubble; every point where user code
// runs calls Yield, which parks the task; the scheduler then resumes exactly
// one parked task, chosen by the next entry of a schedule (a plain list of
// integers, so that a schedule shrinks and replays like any other input).
package sched

import (
	"fmt"
	"sync"
	"testing"
	"testing/synctest"

	"verif/vkit"
)

type task struct {
	id     int
	resume chan struct{}
	parked bool
	done   bool
	point  string
}

// S is one scheduled execution.
type S struct {
	mu       sync.Mutex
	tasks    []*task
	byGoid   map[uint64]*task
	schedule []int
	pos      int
	// Branching records, for every scheduling decision taken, how many tasks
	// were runnable (used by exhaustive enumeration).
	Branching []int
	// Choices records the decision taken at every step.
	Choices []int
	// Trace is the sequence of "task@point" resumed.
	Trace []string
	// OnStep, if set, is called before every scheduling decision with the
	// number of decisions taken so far.
	OnStep func(step int)
}

// Yield parks the calling goroutine if it belongs to a task; goroutines that
// are not tasks (e.g. asynchronous handler goroutines) pass through.
func (s *S) Yield(point string) {
	g := vkit.Goid()
	s.mu.Lock()
	t := s.byGoid[g]
	if t == nil {
		s.mu.Unlock()
		return
	}
	t.parked = true
	t.point = point
	s.mu.Unlock()
	<-t.resume
}

// TaskID returns the id of the calling task (-1 if the goroutine is no task).
func (s *S) TaskID() int {
	g := vkit.Goid()
	s.mu.Lock()
	defer s.mu.Unlock()
	if t := s.byGoid[g]; t != nil {
		return t.id
	}
	return -1
}

// Run executes the task bodies under the schedule inside a synctest bubble.
// It returns an error string if the bubble ended abnormally (deadlock).
func Run(t *testing.T, schedule []int, bodies []func(s *S)) (s *S, abnormal string) {
	return RunOpts(t, schedule, bodies, nil)
}

// RunOpts is Run with a callback invoked before every scheduling decision.
func RunOpts(t *testing.T, schedule []int, bodies []func(s *S), onStep func(step int)) (s *S, abnormal string) {
	s = &S{byGoid: map[uint64]*task{}, schedule: schedule, OnStep: onStep}
	done := make(chan any, 1)
	go func() {
		defer func() { done <- recover() }()
		synctest.Test(t, func(st *testing.T) {
			for i, body := range bodies {
				tk := &task{id: i, resume: make(chan struct{})}
				s.tasks = append(s.tasks, tk)
				ready := make(chan struct{})
				go func(tk *task, body func(*S)) {
					s.mu.Lock()
					s.byGoid[vkit.Goid()] = tk
					s.mu.Unlock()
					close(ready)
					s.Yield("start")
					body(s)
					s.mu.Lock()
					tk.done = true
					tk.parked = false
					s.mu.Unlock()
				}(tk, body)
				<-ready
			}
			for {
				synctest.Wait()
				s.mu.Lock()
				var runnable []*task
				for _, tk := range s.tasks {
					if tk.parked && !tk.done {
						runnable = append(runnable, tk)
					}
				}
				if len(runnable) == 0 {
					s.mu.Unlock()
					break
				}
				if s.OnStep != nil {
					step := s.pos
					s.mu.Unlock()
					s.OnStep(step)
					s.mu.Lock()
				}
				choice := 0
				if s.pos < len(s.schedule) {
					choice = s.schedule[s.pos] % len(runnable)
					if choice < 0 {
						choice = -choice
					}
				}
				s.pos++
				s.Branching = append(s.Branching, len(runnable))
				s.Choices = append(s.Choices, choice)
				tk := runnable[choice]
				tk.parked = false
				s.Trace = append(s.Trace, fmt.Sprintf("t%d@%s", tk.id, tk.point))
				s.mu.Unlock()
				tk.resume <- struct{}{}
			}
		})
	}()
	if r := <-done; r != nil {
		return s, fmt.Sprint(r)
	}
	return s, ""
}

// Enumerate runs every schedule of the program (depth-first over the
// scheduling decisions) and calls visit for each; it stops early when visit
// returns false or after max executions.  It returns the number of executions
// and whether the space was exhausted.
func Enumerate(max int, run func(schedule []int) (branching []int), visit func(schedule []int) bool) (int, bool) {
	var schedule []int
	n := 0
	for {
		br := run(schedule)
		n++
		if !visit(schedule) {
			return n, false
		}
		// the executed schedule, padded with the default choice 0
		full := make([]int, len(br))
		copy(full, schedule)
		// next schedule in odometer order
		i := len(full) - 1
		for i >= 0 && full[i]+1 >= br[i] {
			i--
		}
		if i < 0 {
			return n, true
		}
		full[i]++
		schedule = full[:i+1]
		if n >= max {
			return n, false
		}
	}
}
