package c10

import (
	"context"
	"encoding/json"
	"fmt"
	"runtime"
	"strconv"
	"strings"
	"sync"
	"sync/atomic"
	"time"

	eventbus "github.com/jilio/ebu"
	"github.com/jilio/ebu/stores/sqlite"
	"verif/storekit"
	"verif/vkit"
)

// ConcCase: several goroutines append to one store directly while a reader
// tails the log with chained reads.
type ConcCase struct {
	Store   string `json:"store"` // memory sqlite sqlitemem durable
	Writers int    `json:"writers"`
	Each    int    `json:"each"`
	Limit   int    `json:"limit"` // page size of the tailing reader (0 = unlimited)
	Procs   int    `json:"procs"`
	Rounds  int    `json:"rounds"`
}

type concEv struct {
	W int `json:"w"`
	I int `json:"i"`
}

func RunConc(c *ConcCase) *vkit.Outcome {
	o := &vkit.Outcome{}
	storekit.SetVariant(vkit.HashOf(c))
	if c.Procs > 0 {
		defer runtime.GOMAXPROCS(runtime.GOMAXPROCS(c.Procs))
	}
	for round := 0; round < c.Rounds && len(o.Viol) == 0; round++ {
		concRound(c, o, round)
	}
	if len(o.Viol) == 0 && c.Writers >= 2 {
		o.Nontrivial = true
		o.Class("two_or_more_concurrent_appenders_with_a_tailing_reader")
	}
	o.Class("store_" + c.Store)
	return o
}

func concRound(c *ConcCase, o *vkit.Outcome, round int) {
	ctx := context.Background()
	var st anyStore
	var err error
	switch c.Store {
	case "memory":
		st = eventbus.NewMemoryStore()
	case "sqlite":
		dir, cleanup := storekit.TempDir("c10c-")
		defer cleanup()
		st, err = storekit.OpenSQLite(dir, "c.db")
	case "sqlitemem":
		st, err = sqlite.New(":memory:")
	default:
		st, err = storekit.NewDSServer(300).Open("conc")
	}
	if err != nil {
		o.Failf("", "open: %v", err)
		return
	}
	defer closeStore(st)
	total := c.Writers * c.Each
	acked := make([][]eventbus.Offset, c.Writers)
	var start, done sync.WaitGroup
	var failed atomic.Value
	var busy atomic.Int64
	lastSaved := make([]atomic.Value, c.Writers) // per writer: the offset of its latest SaveOffset that returned nil
	start.Add(1)
	for w := 0; w < c.Writers; w++ {
		done.Add(1)
		go func(w int) {
			defer done.Done()
			start.Wait()
			for i := 0; i < c.Each; i++ {
				data, _ := json.Marshal(concEv{w, i})
				off, err := st.Append(ctx, &eventbus.Event{Type: "conc", Data: data})
				// SQLite refuses a write while another connection writes
				// (SQLITE_BUSY / SQLITE_LOCKED: pooled connections carry no
				// busy timeout).  A refused append wrote nothing; the writer
				// tries again, as a caller would.  No listed property promises
				// that concurrent direct appends succeed at once.
				// The retries back off and are bounded by time, not by count:
				// on a loaded machine a writer can lose the race for the
				// write lock thousands of times in a row.
				began := time.Now()
				for tries := 0; err != nil && isBusy(err) && time.Since(began) < 90*time.Second; tries++ {
					busy.Add(1)
					if tries < 20 {
						runtime.Gosched()
					} else {
						time.Sleep(time.Duration(50*min(tries, 60)) * time.Microsecond)
					}
					off, err = st.Append(ctx, &eventbus.Event{Type: "conc", Data: data})
				}
				if err != nil {
					failed.CompareAndSwap(nil, fmt.Sprintf("writer %d append %d failed: %v", w, i, err))
					return
				}
				acked[w] = append(acked[w], off)
				// every writer also keeps a position of its own, under its own id
				if ss, ok := st.(eventbus.SubscriptionStore); ok {
					serr := ss.SaveOffset(ctx, fmt.Sprintf("writer-%d", w), off)
					sbegan := time.Now()
					for tries := 0; serr != nil && isBusy(serr) && time.Since(sbegan) < 90*time.Second; tries++ {
						busy.Add(1)
						if tries < 20 {
							runtime.Gosched()
						} else {
							time.Sleep(time.Duration(50*min(tries, 60)) * time.Microsecond)
						}
						serr = ss.SaveOffset(ctx, fmt.Sprintf("writer-%d", w), off)
					}
					if serr != nil {
						failed.CompareAndSwap(nil, fmt.Sprintf("writer %d: SaveOffset(%q) failed: %v", w, off, serr))
						return
					}
					lastSaved[w].Store(off)
				}
			}
		}(w)
	}
	// the tailing reader: chained reads from its own cursor, while the writers run
	var tail []*eventbus.StoredEvent
	var readerErr atomic.Value
	var writersDone atomic.Bool
	readerDone := make(chan struct{})
	go func() {
		defer close(readerDone)
		cur := eventbus.OffsetOldest
		idle := 0
		for {
			finished := writersDone.Load()
			page, next, err := st.Read(ctx, cur, c.Limit)
			if err != nil && isBusy(err) {
				busy.Add(1)
				runtime.Gosched()
				continue
			}
			if err != nil {
				readerErr.Store(fmt.Sprintf("tailing Read(%q, %d) failed: %v", cur, c.Limit, err))
				return
			}
			tail = append(tail, page...)
			if len(tail) > 3*total+10 {
				readerErr.Store(fmt.Sprintf("the tailing reader (chained Read with limit %d) has received %d events, only %d were appended: the returned next offset does not move past the page", c.Limit, len(tail), total))
				return
			}
			if len(page) > 0 {
				cur = next
				idle = 0
				continue
			}
			if finished {
				// two empty reads after the writers have finished: caught up
				idle++
				if idle >= 2 {
					return
				}
			}
			runtime.Gosched()
		}
	}()
	// the loader: reads the writers' saved positions while they are being
	// replaced.  A position that was saved before the call started is never
	// un-saved: LoadOffset returns it or a later one, never "oldest"
	loaderDone := make(chan struct{})
	var loads atomic.Int64
	go func() {
		defer close(loaderDone)
		ss, ok := st.(eventbus.SubscriptionStore)
		if !ok {
			return
		}
		start.Wait()
		for w := 0; !writersDone.Load(); w = (w + 1) % c.Writers {
			before, _ := lastSaved[w].Load().(eventbus.Offset)
			id := fmt.Sprintf("writer-%d", w)
			got, lerr := ss.LoadOffset(ctx, id)
			if lerr != nil {
				if isBusy(lerr) {
					busy.Add(1)
				} else {
					failed.CompareAndSwap(nil, fmt.Sprintf("LoadOffset(%q) during the writers' saves failed: %v", id, lerr))
					return
				}
				runtime.Gosched()
				continue
			}
			if before != "" {
				loads.Add(1)
				if got == eventbus.OffsetOldest || offsetLess(c.Store, got, before) {
					failed.CompareAndSwap(nil, fmt.Sprintf("SaveOffset(%q, %q) had returned nil; a LoadOffset(%q) called afterwards, while the same goroutine went on saving later offsets, returned %q: a saved position disappears (or moves back) while it is being replaced", id, before, id, got))
					return
				}
			}
			runtime.Gosched()
		}
	}()
	start.Done()
	done.Wait()
	writersDone.Store(true)
	<-readerDone
	<-loaderDone
	if loads.Load() > 0 {
		o.Class("saved_positions_loaded_while_being_replaced")
	}
	o.Exclude("sqlite_busy_or_locked_refusals_retried", int(busy.Load()))
	if m, _ := failed.Load().(string); m != "" {
		o.Failf("", "round %d: %s", round, m)
		return
	}
	if m, _ := readerErr.Load().(string); m != "" {
		o.Failf("", "round %d: %s", round, m)
		return
	}
	desc := fmt.Sprintf("round %d, %s store, %d writers x %d appends", round, c.Store, c.Writers, c.Each)
	// acknowledged offsets are unique
	seenOff := map[eventbus.Offset]string{}
	for w := range acked {
		for i, off := range acked[w] {
			k := fmt.Sprintf("w%d/%d", w, i)
			if prev, dup := seenOff[off]; dup {
				o.Failf("", "%s: Append returned offset %q for both %s and %s", desc, off, prev, k)
				return
			}
			seenOff[off] = k
		}
	}
	// every writer's own saved position is the last one it saved: saves under
	// different ids, made concurrently, do not disturb each other
	if ss, ok := st.(eventbus.SubscriptionStore); ok {
		for w := range acked {
			if len(acked[w]) == 0 {
				continue
			}
			id := fmt.Sprintf("writer-%d", w)
			got, lerr := ss.LoadOffset(ctx, id)
			if want := acked[w][len(acked[w])-1]; lerr != nil || got != want {
				o.Failf("", "%s: each writer saved the offset of every acknowledged append under its own subscription id while the others did the same; after all of them returned LoadOffset(%q) = (%q, %v), but the last SaveOffset(%q, ...) that returned nil saved %q", desc, id, got, lerr, id, want)
				return
			}
		}
		o.Class("concurrent_savers_of_distinct_subscription_ids")
	}
	// the full log after quiescence, read in one chain
	var all []*eventbus.StoredEvent
	cur := eventbus.OffsetOldest
	for {
		page, next, err := st.Read(ctx, cur, 0)
		if err != nil {
			o.Failf("", "%s: reading the log: %v", desc, err)
			return
		}
		if len(page) == 0 {
			break
		}
		all = append(all, page...)
		cur = next
		if len(all) > 3*total+10 {
			o.Failf("", "%s: a chain of unlimited reads resumed from next offsets has returned %d events and does not end; %d were appended", desc, len(all), total)
			return
		}
	}
	check := func(what string, evs []*eventbus.StoredEvent) bool {
		if len(evs) != total {
			o.Failf("", "%s: %s delivered %d events, %d were appended (a chain of reads resumed from next offsets must reproduce the log without gap or repeat)", desc, what, len(evs), total)
			return false
		}
		nextOf := make([]int, c.Writers)
		var prevNum int64 = -1
		var prevOff eventbus.Offset
		for pos, se := range evs {
			var e concEv
			if json.Unmarshal(se.Data, &e) != nil || e.W < 0 || e.W >= c.Writers {
				o.Failf("", "%s: %s: position %d holds foreign data %s", desc, what, pos, se.Data)
				return false
			}
			if e.I != nextOf[e.W] {
				o.Failf("", "%s: %s: position %d holds append %d of writer %d, expected its append %d next (one goroutine's appends keep their order, none is lost or repeated)", desc, what, pos, e.I, e.W, nextOf[e.W])
				return false
			}
			nextOf[e.W]++
			if c.Store != "durable" {
				// the offset Append returned names this event
				if want := acked[e.W][e.I]; se.Offset != want {
					o.Failf("", "%s: %s: append %d of writer %d was acknowledged at offset %q and is read back at %q", desc, what, e.I, e.W, want, se.Offset)
					return false
				}
				// offsets increase along the log (numerically for SQLite: its
				// lexicographic order is a listed finding)
				if c.Store == "memory" {
					if pos > 0 && !(se.Offset > prevOff) {
						o.Failf("", "%s: %s: log position %d has offset %q, which does not follow %q", desc, what, pos, se.Offset, prevOff)
						return false
					}
				} else {
					n, perr := strconv.ParseInt(string(se.Offset), 10, 64)
					if perr != nil || n <= prevNum {
						o.Failf("", "%s: %s: log position %d has offset %q, which does not follow position %d", desc, what, pos, se.Offset, prevNum)
						return false
					}
					prevNum = n
				}
				prevOff = se.Offset
			}
		}
		return true
	}
	if !check("a chain of reads after the writers finished", all) {
		return
	}
	check(fmt.Sprintf("the reader tailing the log with limit %d while the writers ran", c.Limit), tail)
}

func isBusy(err error) bool {
	m := err.Error()
	return strings.Contains(m, "SQLITE_BUSY") || strings.Contains(m, "SQLITE_LOCKED") || strings.Contains(m, "database is locked") || strings.Contains(m, "database table is locked")
}

// offsetLess: a precedes b in the store's order (SQLite offsets are decimal
// numbers, the memory store's are fixed-width strings).
func offsetLess(store string, a, b eventbus.Offset) bool {
	if store == "sqlite" || store == "sqlitemem" {
		x, errx := strconv.ParseInt(string(a), 10, 64)
		y, erry := strconv.ParseInt(string(b), 10, 64)
		if errx == nil && erry == nil {
			return x < y
		}
	}
	return a < b
}
