package c10

import (
	"context"
	"fmt"
	"time"

	eventbus "github.com/jilio/ebu"
	"verif/storekit"
	"verif/vkit"
)

// Probes replay, deterministically, the recorded failing inputs behind the
// known findings of C10.  A probe that no longer fails reports nothing.
func Probes() *vkit.Outcome {
	o := &vkit.Outcome{}
	ctx := context.Background()
	ev := func(i int) *eventbus.Event {
		return &eventbus.Event{Type: "t", Data: []byte(fmt.Sprintf(`{"i":%d}`, i)), Timestamp: time.Unix(1700000000, 0).UTC()}
	}
	idOf := func(e *eventbus.StoredEvent) string { return string(e.Data) }

	// sqlite: the 10th offset does not sort after the 9th
	func() {
		d, cleanup := storekit.TempDir("c10p-")
		defer cleanup()
		st, err := storekit.OpenSQLite(d, "p.db")
		if err != nil {
			o.Failf("", "probe sqlite open: %v", err)
			return
		}
		defer st.Close()
		var prev eventbus.Offset
		for i := 1; i <= 10; i++ {
			off, err := st.Append(ctx, ev(i))
			if err != nil {
				o.Failf("", "probe sqlite append: %v", err)
				return
			}
			if i > 1 && !(off > prev) {
				o.Failf("sqlite:offset-order-across-digit-length", "probe: Append %d returned offset %q, not greater than %q under string comparison", i, off, prev)
			}
			prev = off
		}
	}()

	// durable-streams: 5 events in one chunk
	srv := storekit.NewDSServer(0)
	st, err := srv.Open("probe")
	if err != nil {
		o.Failf("", "probe durable open: %v", err)
		return o
	}
	for i := 1; i <= 5; i++ {
		if _, err := st.Append(ctx, ev(i)); err != nil {
			o.Failf("", "probe durable append: %v", err)
			return o
		}
	}
	// limit 2 then resume from the returned next offset: must continue with event 3
	evs, next, err := st.Read(ctx, eventbus.OffsetOldest, 2)
	if err != nil || len(evs) != 2 {
		o.Failf("", "probe durable Read(oldest,2): %d events, err %v", len(evs), err)
	} else {
		evs2, _, err := st.Read(ctx, next, 0)
		if err != nil || len(evs2) == 0 || idOf(evs2[0]) != `{"i":3}` {
			first := "nothing"
			if len(evs2) > 0 {
				first = idOf(evs2[0])
			}
			o.Failf("durablestream:limit-truncation-next-offset", "probe: 5 events in one chunk, Read(oldest, 2) returned next offset %q; resuming there yields %s instead of event 3 (err %v)", next, first, err)
		}
	}
	// resume from a returned event offset: must continue after that event
	all, _, err := st.Read(ctx, eventbus.OffsetOldest, 0)
	if err != nil || len(all) != 5 {
		o.Failf("", "probe durable Read(oldest,0): %d events, err %v", len(all), err)
	} else {
		evs3, _, err := st.Read(ctx, all[1].Offset, 0)
		if err != nil || len(evs3) == 0 || idOf(evs3[0]) != `{"i":3}` {
			first := "nothing"
			if len(evs3) > 0 {
				first = idOf(evs3[0])
			}
			o.Failf("durablestream:synthetic-event-offset", "probe: resuming from the second event's offset %q yields %s instead of event 3 (err %v)", all[1].Offset, first, err)
		}
	}
	// unlimited read across chunks: must return everything
	srv2 := storekit.NewDSServer(1) // one event per chunk
	st2, err := srv2.Open("probe2")
	if err == nil {
		for i := 1; i <= 3; i++ {
			st2.Append(ctx, ev(i))
		}
		evs4, _, err := st2.Read(ctx, eventbus.OffsetOldest, 0)
		if err != nil || len(evs4) != 3 {
			o.Failf("durablestream:read-stops-at-chunk-end", "probe: 3 events on a server that serves one event per chunk, Read(oldest, 0) returned %d events (err %v); limit 0 means no limit", len(evs4), err)
		}
	}
	return o
}
