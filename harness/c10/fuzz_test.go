package c10

import (
	"context"
	"encoding/json"
	"os"
	"path/filepath"
	"sync"
	"testing"
	"time"
	"unicode/utf8"

	eventbus "github.com/jilio/ebu"
	"github.com/jilio/ebu/stores/sqlite"
	"verif/storekit"
	"verif/vkit"
)

var collFuzz = vkit.NewCollector("C10", "FuzzRoundTrip", "native go fuzzing of the single-event round trip (type string, JSON document, seconds, nanoseconds, zone offset) through the memory, SQLite and durable-streams stores; oracle: the event read back has the same type, JSON-equal data and the same instant, and the offset Append returned resumes after it")

type fuzzStores struct {
	once sync.Once
	mem  *eventbus.MemoryStore
	sql  *sqlite.SQLiteStore
	ds   eventbus.EventStore
	n    int
}

var fz fuzzStores

// FuzzCase is the replayable form of one fuzz input.
type FuzzCase struct {
	Type  string `json:"type"`
	Data  string `json:"data"`
	Sec   int64  `json:"sec"`
	Nsec  int32  `json:"nsec"`
	ZoneS int32  `json:"zone_s"`
}

func runFuzzCase(c *FuzzCase) *vkit.Outcome {
	o := &vkit.Outcome{}
	fz.once.Do(func() {
		fz.mem = eventbus.NewMemoryStore()
		// scratch database under the run's own directory (removed by the driver)
		dir, err := os.MkdirTemp(os.Getenv("VERIF_OUT"), "c10fuzz-")
		if err != nil {
			dir, _ = storekit.TempDir("c10fuzz-")
		}
		fz.sql, _ = storekit.OpenSQLite(dir, "f.db")
		fz.ds, _ = storekit.NewDSServer(0).Open("fuzz")
	})
	// domain of the property: valid UTF-8 type, valid JSON document, instant within years 1-9999
	if !utf8.ValidString(c.Type) || !json.Valid([]byte(c.Data)) {
		return o
	}
	sec := c.Sec
	if sec < minSec || sec > maxSec {
		sec = minSec + (sec%(maxSec-minSec)+(maxSec-minSec))%(maxSec-minSec)
	}
	nsec := int64(c.Nsec)
	if nsec < 0 {
		nsec = -nsec
	}
	nsec %= 1000000000
	zone := int(c.ZoneS) % 50400
	ts := time.Unix(sec, nsec).In(time.FixedZone("", zone))
	ctx := context.Background()
	check := func(name string, st eventbus.EventStore, prev eventbus.Offset) eventbus.Offset {
		if st == nil {
			return ""
		}
		data := c.Data
		if name == "durable" {
			// the reference server decodes numbers as float64: skip documents it rejects
			var v any
			if json.Unmarshal([]byte(data), &v) != nil {
				return prev
			}
		}
		off, err := st.Append(ctx, &eventbus.Event{Type: c.Type, Data: []byte(data), Timestamp: ts})
		if err != nil {
			o.Failf("", "%s: Append(type %q, data %q, ts %v) failed: %v", name, c.Type, c.Data, ts, err)
			return prev
		}
		evs, _, err := st.Read(ctx, prev, 0)
		if err != nil || len(evs) == 0 {
			o.Failf("", "%s: Read after Append returned %d events, err %v", name, len(evs), err)
			return off
		}
		e := evs[len(evs)-1]
		if d := sameEvent(e, entry{typ: c.Type, data: data, ts: ts}); d != "" {
			o.Failf("", "%s: event read back differs: %s", name, d)
		}
		// the offset returned by Append resumes after the event
		rest, _, err := st.Read(ctx, off, 0)
		if err != nil || len(rest) != 0 {
			o.Failf("", "%s: Read from the offset Append returned (%q) yields %d events, err %v", name, off, len(rest), err)
		}
		return off
	}
	fz.n++
	prevM, prevS, prevD := lastOff["memory"], lastOff["sqlite"], lastOff["durable"]
	lastOff["memory"] = check("memory", fz.mem, prevM)
	lastOff["sqlite"] = check("sqlite", fz.sql, prevS)
	lastOff["durable"] = check("durable", fz.ds, prevD)
	o.Nontrivial = true
	return o
}

var lastOff = map[string]eventbus.Offset{}

func FuzzRoundTrip(f *testing.F) {
	f.Add("user.created", []byte(`{"id":1,"name":"x"}`), int64(1700000000), int32(123456789), int32(3600))
	f.Add("", []byte(`null`), int64(0), int32(0), int32(0))
	f.Add("ü/ñ", []byte(` {"a":[1,2.5e10,"é",{"b":null}]}`), int64(-62135510400), int32(999999999), int32(-43200))
	f.Add("t", []byte(`"😀"`), int64(253402128000), int32(1), int32(1799))
	f.Add("x", []byte(`123456789012345678901234567890`), int64(951782400), int32(500000000), int32(19800))
	f.Fuzz(func(t *testing.T, typ string, data []byte, sec int64, nsec int32, zone int32) {
		c := &FuzzCase{Type: typ, Data: string(data), Sec: sec, Nsec: nsec, ZoneS: zone}
		if v := collFuzz.Account(c, runFuzzCase(c)); v != nil {
			vkit.SaveFail("C10", "FuzzRoundTrip", c, v)
			if dir := os.Getenv("VERIF_OUT"); dir != "" {
				os.WriteFile(filepath.Join(dir, "fuzz-crasher.txt"), data, 0o644)
			}
			t.Fatalf("%s", v.Error())
		}
	})
}
