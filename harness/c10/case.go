// Package c10 decides property C10: every bundled store behaves as one
// append-only, resumable log.  A generated operation sequence is run against
// the store and a reference slice.
package c10

import (
	"path/filepath"
	"context"
	"fmt"
	"io"
	"net/http"
	"strings"
	"time"

	eventbus "github.com/jilio/ebu"
	"github.com/jilio/ebu/stores/sqlite"
	"verif/storekit"
	"verif/vkit"
)

type TS struct {
	Sec    int64  `json:"sec"`
	Nsec   int    `json:"nsec"`
	Zone   string `json:"zone"` // utc local named fixed zero
	Name   string `json:"name,omitempty"`
	OffSec int    `json:"off,omitempty"`
}

func (ts TS) Time() time.Time {
	if ts.Zone == "zero" {
		return time.Time{}
	}
	t := time.Unix(ts.Sec, int64(ts.Nsec))
	switch ts.Zone {
	case "utc":
		return t.UTC()
	case "named":
		if loc, err := time.LoadLocation(ts.Name); err == nil {
			return t.In(loc)
		}
		return t.UTC()
	case "fixed":
		return t.In(time.FixedZone(ts.Name, ts.OffSec))
	}
	return t.Local()
}

type Ref struct {
	Kind string `json:"kind"` // oldest next event append
	Idx  int    `json:"idx,omitempty"`
}

type Op struct {
	K     string `json:"k"` // append read stream chain chainev save load reopen append2 read2
	Type  string `json:"type,omitempty"`
	Data  string `json:"data,omitempty"`
	TS    *TS    `json:"ts,omitempty"`
	From  Ref    `json:"from,omitempty"`
	Limit int    `json:"limit,omitempty"`
	Sub   string `json:"sub,omitempty"`
	// Pad > 0 wraps the document as {"d":<doc>,"pad":"<Pad bytes>"}: a large
	// record (page, chunk and buffer boundaries) without a large case file.
	Pad int `json:"pad,omitempty"`
	// Fault (load, file-backed SQLite): the driver fails the row fetch of
	// this LoadOffset.
	Fault bool `json:"fault,omitempty"`
}

func (op Op) doc() string {
	if op.Pad <= 0 {
		return op.Data
	}
	var b strings.Builder
	b.WriteString(`{"d":`)
	b.WriteString(op.Data)
	b.WriteString(`,"pad":"`)
	for i := 0; i < op.Pad; i++ {
		b.WriteByte("abcdefghijklmnopqrstuvwxyz0123456789"[(i*7+op.Pad)%36])
	}
	b.WriteString(`"}`)
	return b.String()
}

type Case struct {
	// ReqCtx: every operation runs under a context of its own that is
	// cancelled right after the call returned (request-scoped contexts).
	ReqCtx bool   `json:"req_ctx,omitempty"`
	Store  string `json:"store"` // memory sqlite sqlitemem durable
	Chunk  int    `json:"chunk,omitempty"`
	Batch  int    `json:"batch,omitempty"` // sqlite stream batch size
	Ops    []Op   `json:"ops"`
}

type entry struct {
	typ  string
	data string
	ts   time.Time
}

type anyStore interface {
	eventbus.EventStore
}

type run struct {
	c                                           *Case
	o                                           *vkit.Outcome
	ctx                                         context.Context
	a, b                                        anyStore
	srv                                         *storekit.DSServer
	dir                                         string
	log                                         []entry
	log2                                        []entry
	bind                                        map[eventbus.Offset]int
	nexts                                       []eventbus.Offset
	evs                                         []eventbus.Offset
	apps                                        []eventbus.Offset
	saved                                       map[string]eventbus.Offset
	lastApp                                     eventbus.Offset
	reopened, chainedLimited, appendAfterReopen bool
	planA                                       *storekit.FaultPlan // fault driver of store a (file-backed SQLite)
}

func (r *run) open(which string) (anyStore, error) {
	switch r.c.Store {
	case "memory":
		return eventbus.NewMemoryStore(), nil
	case "sqlite":
		var opts []sqlite.Option
		if r.c.Batch > 0 {
			opts = append(opts, sqlite.WithStreamBatchSize(r.c.Batch))
		}
		st, plan, err := storekit.OpenSQLiteFaulty(filepath.Join(r.dir, which+".db"), opts...)
		if which == "a" {
			r.planA = plan
		}
		return st, err
	case "sqlitemem":
		var opts []sqlite.Option
		if r.c.Batch > 0 {
			opts = append(opts, sqlite.WithStreamBatchSize(r.c.Batch))
		}
		return sqlite.New(":memory:", opts...)
	case "durable":
		return r.srv.Open("stream-" + which)
	}
	return nil, fmt.Errorf("unknown store %q", r.c.Store)
}

func closeStore(s anyStore) {
	if c, ok := s.(interface{ Close() error }); ok {
		c.Close()
	}
}

func (r *run) resolve(ref Ref) (eventbus.Offset, int, bool) {
	pick := func(l []eventbus.Offset) (eventbus.Offset, int, bool) {
		if len(l) == 0 {
			return eventbus.OffsetOldest, 0, true
		}
		o := l[ref.Idx%len(l)]
		p, ok := r.bind[o]
		return o, p, ok
	}
	switch ref.Kind {
	case "next":
		return pick(r.nexts)
	case "event":
		return pick(r.evs)
	case "append":
		return pick(r.apps)
	}
	return eventbus.OffsetOldest, 0, true
}

func addUnique(l []eventbus.Offset, o eventbus.Offset) []eventbus.Offset {
	for _, x := range l {
		if x == o {
			return l
		}
	}
	return append(l, o)
}

func (r *run) isDurable() bool { return r.c.Store == "durable" }

// bindOffset records that offset o denotes log position pos.
func (r *run) bindOffset(what string, o eventbus.Offset, pos int) bool {
	if p, ok := r.bind[o]; ok {
		if p != pos {
			r.o.Failf("", "%s: offset %q denotes position %d here but denoted position %d earlier (offsets must identify one place in the log)", what, o, pos, p)
			return false
		}
		return true
	}
	r.bind[o] = pos
	return true
}

func sameEvent(e *eventbus.StoredEvent, want entry) string {
	if e.Type != want.typ {
		return fmt.Sprintf("type %q, appended %q", e.Type, want.typ)
	}
	if !vkit.JSONEqual(e.Data, []byte(want.data)) {
		return fmt.Sprintf("data %s, appended %s", trunc(string(e.Data)), trunc(want.data))
	}
	if !e.Timestamp.Equal(want.ts) {
		return fmt.Sprintf("timestamp %s, appended %s (different instants)", e.Timestamp.Format(time.RFC3339Nano), want.ts.Format(time.RFC3339Nano))
	}
	return ""
}

func trunc(s string) string {
	if len(s) > 200 {
		return s[:200] + "..."
	}
	return s
}

// checkRead validates the result of Read/ReadStream(from at position p, limit n).
// Returns the position after the returned events, or -1 on failure.
func (r *run) checkRead(what string, p, limit int, events []*eventbus.StoredEvent, next *eventbus.Offset) int {
	want := r.log[p:]
	if limit > 0 && len(want) > limit {
		want = want[:limit]
	}
	if r.isDurable() && len(events) >= 1 && len(events) < len(want) {
		// The durable-streams store returns one server chunk per Read, also
		// for limit <= 0 (known finding, probed separately).  The prefix it
		// returned and its next offset are still checked in full.
		r.o.Exclude("durablestream:read-stops-at-chunk-end(short page accepted)", 1)
		want = want[:len(events)]
	}
	if len(events) != len(want) {
		r.o.Failf("", "%s: returned %d events, the log has %d after position %d (limit %d, log length %d)", what, len(events), len(want), p, limit, len(r.log))
		return -1
	}
	for k, e := range events {
		if e == nil {
			r.o.Failf("", "%s: nil event at index %d", what, k)
			return -1
		}
		if d := sameEvent(e, want[k]); d != "" {
			r.o.Failf(tsSig(r, want[k]), "%s: event %d (log position %d) differs: %s", what, k, p+k+1, d)
			return -1
		}
		if r.isDurable() && strings.Contains(string(e.Offset), "/") {
			r.o.Exclude("durablestream:synthetic-event-offset(not bound, not reused)", 1)
			continue
		}
		if !r.bindOffset(what+" event offset", e.Offset, p+k+1) {
			return -1
		}
		r.evs = addUnique(r.evs, e.Offset)
	}
	end := p + len(events)
	if next != nil {
		if r.isDurable() {
			// server-side truth: a limited read that cut a chunk short reports
			// the chunk's end (known finding, excluded and probed separately)
			if sp, ok := r.srv.PositionOf(string(*next)); ok && limit > 0 && len(events) == limit && sp > end {
				r.o.Exclude("durablestream:limit-truncation-next-offset(not asserted, not reused)", 1)
				return end
			}
		}
		if !r.bindOffset(what+" next offset", *next, end) {
			return -1
		}
		r.nexts = addUnique(r.nexts, *next)
	}
	return end
}

// tsSig gives timestamp discrepancies a signature by store and zone shape.
func tsSig(r *run, e entry) string { return "" }

func (r *run) step(i int, op Op) {
	what := fmt.Sprintf("op %d %s", i, op.K)
	switch op.K {
	case "append", "append2":
		ev := &eventbus.Event{Type: op.Type, Data: []byte(op.doc())}
		ent := entry{typ: op.Type, data: op.doc()}
		if op.TS != nil {
			ev.Timestamp = op.TS.Time()
			ent.ts = ev.Timestamp
		}
		st := r.a
		if op.K == "append2" {
			st = r.b
		}
		off, err := st.Append(r.ctx, ev)
		if err != nil {
			r.o.Failf("", "%s: Append(type %q, data %s, ts %v) failed: %v", what, op.Type, trunc(op.Data), ev.Timestamp, err)
			return
		}
		if op.K == "append2" {
			r.log2 = append(r.log2, ent)
			return
		}
		r.log = append(r.log, ent)
		if r.reopened {
			r.appendAfterReopen = true
		}
		if len(r.log) > 1 && !(off > r.lastApp) {
			sig := ""
			if strings.HasPrefix(r.c.Store, "sqlite") && len(off) != len(r.lastApp) {
				sig = "sqlite:offset-order-across-digit-length"
			}
			r.o.Failf(sig, "%s: Append returned offset %q for event %d, not greater than %q of the previous event under string comparison", what, off, len(r.log), r.lastApp)
			if sig == "" {
				return
			}
		}
		r.lastApp = off
		if !r.bindOffset(what+" returned offset", off, len(r.log)) {
			return
		}
		r.apps = addUnique(r.apps, off)
	case "appendlost":
		// durable-streams only: the server applies the append and the answer
		// is lost on the way back (connection reset after commit).  Whether
		// Append reports the failure or not, the log holds the event once.
		if r.srv == nil {
			return
		}
		ev := &eventbus.Event{Type: op.Type, Data: []byte(op.doc())}
		ent := entry{typ: op.Type, data: op.doc()}
		if op.TS != nil {
			ev.Timestamp = op.TS.Time()
			ent.ts = ev.Timestamp
		}
		armed := true
		r.srv.SetAfterFault(func(_ int, req *http.Request) error {
			if armed && req.Method == http.MethodPost {
				armed = false
				return io.ErrUnexpectedEOF
			}
			return nil
		})
		off, err := r.a.Append(r.ctx, ev)
		r.srv.SetAfterFault(nil)
		r.log = append(r.log, ent)
		if r.reopened {
			r.appendAfterReopen = true
		}
		r.o.Class("append_whose_answer_was_lost_after_the_server_applied_it")
		if err == nil {
			// reported as a success: then the offset must be the event's
			r.lastApp = off
			if !r.bindOffset(what+" returned offset", off, len(r.log)) {
				return
			}
			r.apps = addUnique(r.apps, off)
		}
	case "read":
		from, p, ok := r.resolve(op.From)
		if !ok {
			return
		}
		events, next, err := r.a.Read(r.ctx, from, op.Limit)
		if err != nil {
			r.o.Failf("", "%s: Read(%q, %d) failed: %v", what, from, op.Limit, err)
			return
		}
		r.checkRead(fmt.Sprintf("%s Read(%q=pos %d, limit %d)", what, from, p, op.Limit), p, op.Limit, events, &next)
	case "read2":
		// chain of unlimited reads (the durable-streams store pages by chunk)
		var events []*eventbus.StoredEvent
		cur := eventbus.OffsetOldest
		for steps := 0; steps <= len(r.log)+len(r.log2)+2; steps++ {
			page, next, err := r.b.Read(r.ctx, cur, 0)
			if err != nil {
				r.o.Failf("", "%s: Read on the second store failed: %v", what, err)
				return
			}
			if len(page) == 0 {
				break
			}
			events = append(events, page...)
			cur = next
		}
		if len(events) != len(r.log2) {
			r.o.Failf(isolationSig(r), "%s: the second, separately created store returns %d events, %d were appended to it (the first store holds %d)", what, len(events), len(r.log2), len(r.log))
			return
		}
		for k, e := range events {
			if d := sameEvent(e, r.log2[k]); d != "" {
				r.o.Failf("", "%s: second store event %d differs: %s", what, k, d)
				return
			}
		}
	case "stream":
		s, ok := r.a.(eventbus.EventStoreStreamer)
		if !ok {
			return
		}
		from, p, ok := r.resolve(op.From)
		if !ok {
			return
		}
		var events []*eventbus.StoredEvent
		for e, err := range s.ReadStream(r.ctx, from) {
			if err != nil {
				r.o.Failf("", "%s: ReadStream(%q) yielded error %v", what, from, err)
				return
			}
			events = append(events, e)
		}
		r.checkRead(fmt.Sprintf("%s ReadStream(%q=pos %d)", what, from, p), p, 0, events, nil)
	case "chain", "chainev":
		from, p, ok := r.resolve(op.From)
		if !ok {
			return
		}
		if op.Limit > 0 && len(r.log)-p > op.Limit {
			r.chainedLimited = true
		}
		cur, pos := from, p
		for steps := 0; steps <= len(r.log)+2; steps++ {
			events, next, err := r.a.Read(r.ctx, cur, op.Limit)
			if err != nil {
				r.o.Failf("", "%s: chained Read(%q, %d) failed: %v", what, cur, op.Limit, err)
				return
			}
			before := len(r.o.Excluded)
			exclBefore := r.o.Excluded["durablestream:limit-truncation-next-offset(not asserted, not reused)"]
			end := r.checkRead(fmt.Sprintf("%s step %d Read(%q=pos %d, limit %d)", what, steps, cur, pos, op.Limit), pos, op.Limit, events, &next)
			_ = before
			if end < 0 {
				return
			}
			if r.o.Excluded["durablestream:limit-truncation-next-offset(not asserted, not reused)"] != exclBefore {
				return // cannot continue this chain on the durable store (known finding)
			}
			if len(events) == 0 {
				if pos != len(r.log) {
					r.o.Failf("", "%s: chain ended at position %d of %d", what, pos, len(r.log))
				}
				return
			}
			pos = end
			cur = next
			if op.K == "chainev" {
				last := events[len(events)-1].Offset
				if r.isDurable() && strings.Contains(string(last), "/") {
					r.o.Exclude("durablestream:synthetic-event-offset(not bound, not reused)", 1)
				} else {
					cur = last
				}
			}
		}
		r.o.Failf("", "%s: chain did not terminate", what)
	case "save":
		ss, ok := r.a.(eventbus.SubscriptionStore)
		if !ok {
			return
		}
		off, _, ok2 := r.resolve(op.From)
		if !ok2 {
			return
		}
		if err := ss.SaveOffset(r.ctx, op.Sub, off); err != nil {
			r.o.Failf("", "%s: SaveOffset(%q, %q) failed: %v", what, op.Sub, off, err)
			return
		}
		r.saved[op.Sub] = off
	case "load":
		ss, ok := r.a.(eventbus.SubscriptionStore)
		if !ok {
			return
		}
		if op.Fault && r.planA != nil {
			// the row fetch of this LoadOffset fails in the driver: the call
			// reports an error or answers correctly - never "nothing saved"
			r.planA.Reset()
			r.planA.NextFail = 1
			r.planA.Arm(true)
			got, err := ss.LoadOffset(r.ctx, op.Sub)
			r.planA.Reset()
			if want, has := r.saved[op.Sub]; err == nil && has && got != want {
				if _, sameplace := r.bind[got]; !sameplace || got == eventbus.OffsetOldest {
					r.o.Failf("", "%s: LoadOffset(%q) = (%q, nil) although fetching the row failed in the driver; last saved %q", what, op.Sub, got, want)
					return
				}
			}
			r.o.Class("load_offset_with_a_failing_row_fetch")
			return
		}
		got, err := ss.LoadOffset(r.ctx, op.Sub)
		if err != nil {
			r.o.Failf("", "%s: LoadOffset(%q) failed: %v", what, op.Sub, err)
			return
		}
		want, has := r.saved[op.Sub]
		if !has {
			want = eventbus.OffsetOldest
		}
		if got != want {
			// Another spelling of the same place is acceptable: it must then
			// behave as the saved offset does when used as a resume point.
			pw, okw := r.bind[want]
			if !okw {
				r.o.Failf("", "%s: LoadOffset(%q) = %q, last saved %q", what, op.Sub, got, want)
				return
			}
			events, _, err := r.a.Read(r.ctx, got, 0)
			if err != nil {
				r.o.Failf("", "%s: LoadOffset(%q) = %q (last saved %q) and Read from it fails: %v", what, op.Sub, got, want, err)
				return
			}
			if r.checkRead(fmt.Sprintf("%s: LoadOffset(%q) = %q instead of the saved %q; Read from it", what, op.Sub, got, want), pw, 0, events, nil) >= 0 {
				r.bindOffset(what, got, pw)
			}
		}
	case "reopen":
		switch r.c.Store {
		case "sqlite", "durable":
			closeStore(r.a)
			a, err := r.open("a")
			if err != nil {
				r.o.Failf("", "%s: reopening the store failed: %v", what, err)
				return
			}
			r.a = a
			r.reopened = true
		}
	}
}

func isolationSig(r *run) string {
	if r.c.Store == "sqlitemem" {
		return "sqlite:memory-stores-share-one-database"
	}
	return ""
}

// Run executes the case.
func Run(c *Case) *vkit.Outcome {
	o := &vkit.Outcome{}
	storekit.SetVariant(vkit.HashOf(c))
	r := &run{c: c, o: o, ctx: context.Background(), bind: map[eventbus.Offset]int{eventbus.OffsetOldest: 0}, saved: map[string]eventbus.Offset{}}
	switch c.Store {
	case "sqlite":
		d, cleanup := storekit.TempDir("c10-")
		defer cleanup()
		r.dir = d
	case "durable":
		r.srv = storekit.NewDSServer(c.Chunk)
	}
	var err error
	if r.a, err = r.open("a"); err != nil {
		o.Failf("", "open: %v", err)
		return o
	}
	defer func() { closeStore(r.a) }()
	if r.b, err = r.open("b"); err != nil {
		o.Failf("", "open second store: %v", err)
		return o
	}
	defer func() { closeStore(r.b) }()
	for i, op := range c.Ops {
		if c.ReqCtx {
			// a request-scoped context: cancelled as soon as the call has returned
			ctx, cancel := context.WithCancel(context.Background())
			r.ctx = ctx
			r.step(i, op)
			cancel()
			r.ctx = context.Background() // closing checks of the run
		} else {
			r.step(i, op)
		}
		hard := false
		for _, v := range o.Viol {
			if _, known := vkit.IsKnown("C10", v.Sig); !known {
				hard = true
			}
		}
		if hard {
			break
		}
	}
	// final: the whole log is still there
	if len(o.Viol) == 0 {
		r.step(len(c.Ops), Op{K: "chain", From: Ref{Kind: "oldest"}, Limit: 0})
	}
	if r.chainedLimited || (r.reopened && r.appendAfterReopen) {
		o.Nontrivial = true
	}
	if r.chainedLimited {
		o.Class("chained_read_with_limit_smaller_than_remainder")
	}
	if r.reopened && r.appendAfterReopen {
		o.Class("reopen_then_append")
	}
	if len(r.log) >= 10 {
		o.Class("log_crosses_9_to_10")
	}
	o.Class("store_" + c.Store)
	return o
}
