package c10

import (
	"testing"

	"verif/vkit"
)

const rule = "rapid draws <=60 operations (Append of any valid-UTF-8 type, grammar-generated JSON incl. escapes, big exponents, duplicate keys and whitespace, any instant of years 1-9999 in UTC/Local/named/FixedZone zones; Read(from, limit) with from in {oldest, any returned next offset, any returned event offset, any Append offset} and limit in {-1,0,1,2,3,5,100}; ReadStream; chains of limited reads resumed from next offsets or from the last event's offset; SaveOffset/LoadOffset; close+reopen; a second separately created store) run against the store and a reference slice. Oracle: every returned offset is bound to one log position; each read returns exactly log[pos:pos+n] (type equal, data JSON-equal, same instant) and a next offset bound to the position after it; Append offsets strictly increase as strings; the second store only sees its own events. Non-trivial = a chained read with a limit smaller than the remainder, or reopen followed by append; distinct = hash of the case."

var collMem = vkit.NewCollector("C10", "TestMemory", rule)
var collSQL = vkit.NewCollector("C10", "TestSQLite", rule)
var collSQLMem = vkit.NewCollector("C10", "TestSQLiteMemory", rule)
var collDS = vkit.NewCollector("C10", "TestDurable", rule)

var collConc = vkit.NewCollector("C10", "TestConcurrentAppend", "2-8 goroutines append 5-60 events each directly to one store (memory, SQLite file, SQLite :memory:, durable-streams; barrier start, drawn GOMAXPROCS, 3 fresh stores per case, race detector on) while a reader tails the log with chained reads of a drawn page size. Oracle: acknowledged offsets are unique and name their event, the log read after quiescence and the sequence seen by the tailing reader both contain every append exactly once with each goroutine's appends in order, offsets increase along the log. Non-trivial = >=2 writers.")

func TestMain(m *testing.M) { vkit.Main(m) }

func TestMemory(t *testing.T)           { vkit.Check(t, collMem, Gen("memory"), Run) }
func TestSQLite(t *testing.T)           { vkit.Check(t, collSQL, Gen("sqlite"), Run) }
func TestSQLiteMemory(t *testing.T)     { vkit.Check(t, collSQLMem, Gen("sqlitemem"), Run) }
func TestConcurrentAppend(t *testing.T) { vkit.Check(t, collConc, GenConc(""), RunConc) }
func TestDurable(t *testing.T)          { vkit.Check(t, collDS, Gen("durable"), Run) }

var collProbe = vkit.NewCollector("C10", "TestKnownProbes", "deterministic replays of the inputs behind the listed known findings")

// TestKnownProbes re-observes the known findings (or reports them as
// violations when they are not listed).
func TestKnownProbes(t *testing.T) {
	if v := collProbe.Judge(Probes().Viol); v != nil {
		vkit.SaveFail("C10", "TestKnownProbes", map[string]string{"probe": v.Sig}, v)
		t.Fatalf("%s", v.Error())
	}
}

func TestReplay(t *testing.T) {
	r := vkit.NeedReplay(t)
	_ = vkit.ReplayCase(t, r, collFuzz, runFuzzCase) || vkit.ReplayCase(t, r, collMem, Run) || vkit.ReplayCase(t, r, collSQL, Run) || vkit.ReplayCase(t, r, collSQLMem, Run) || vkit.ReplayCase(t, r, collDS, Run) || vkit.ReplayCase(t, r, collConc, RunConc)
}
