package c10

import (
	"fmt"
	"strings"

	"pgregory.net/rapid"
)

var keys = []string{"a", "b", "a", "kéy", "", "x y", "\"q\""}

func genString(t *rapid.T) string {
	return rapid.OneOf(
		rapid.SampledFrom([]string{"", "x", "hello", "éè", "日本", "\U0001F600", "tab\tnl\n", "quote\"back\\", "<>&", " "}),
		rapid.StringN(0, 8, 32),
	).Draw(t, "str")
}

func jsonStr(s string) string {
	var b strings.Builder
	b.WriteByte('"')
	for _, r := range s {
		switch {
		case r == '"':
			b.WriteString(`\"`)
		case r == '\\':
			b.WriteString(`\\`)
		case r == '\n':
			b.WriteString(`\n`)
		case r == '\t':
			b.WriteString(`\t`)
		case r < 0x20 || r == 0x7f || r == 0xFFFD:
			fmt.Fprintf(&b, `\u%04x`, r)
		default:
			b.WriteRune(r)
		}
	}
	b.WriteByte('"')
	return b.String()
}

var numbers = []string{"0", "-0", "1", "-1", "42", "3.14", "1e3", "1E-3", "1.5e+10", "9007199254740993", "-9223372036854775808", "18446744073709551615", "1e400", "1e-400", "0.000001", "123456789012345678901234567890", "2.5E+0"}

func ws(t *rapid.T) string {
	return rapid.SampledFrom([]string{"", "", "", " ", "\n", "\t ", "  "}).Draw(t, "ws")
}

func genJSON(t *rapid.T, depth int) string {
	k := rapid.IntRange(0, 9).Draw(t, "jkind")
	if depth <= 0 && k >= 7 {
		k = k % 7
	}
	switch k {
	case 0:
		return rapid.SampledFrom([]string{"null", "true", "false"}).Draw(t, "lit")
	case 1, 2:
		return rapid.SampledFrom(numbers).Draw(t, "num")
	case 3:
		return fmt.Sprint(rapid.Int64().Draw(t, "int"))
	case 4, 5:
		return jsonStr(genString(t))
	case 6:
		// escaped forms
		return rapid.SampledFrom([]string{`"é"`, `"😀"`, `"\/"`, `"\b\f\r"`, `"\u0000"`}).Draw(t, "esc")
	case 7:
		n := rapid.IntRange(0, 3).Draw(t, "alen")
		parts := make([]string, n)
		for i := range parts {
			parts[i] = ws(t) + genJSON(t, depth-1) + ws(t)
		}
		return "[" + strings.Join(parts, ",") + "]"
	default:
		n := rapid.IntRange(0, 3).Draw(t, "olen")
		parts := make([]string, n)
		for i := range parts {
			key := rapid.SampledFrom(keys).Draw(t, "key")
			parts[i] = ws(t) + jsonStr(key) + ws(t) + ":" + ws(t) + genJSON(t, depth-1) + ws(t)
		}
		return "{" + strings.Join(parts, ",") + "}"
	}
}

var zoneNames = []string{"Europe/Berlin", "America/New_York", "Asia/Kolkata", "Australia/Lord_Howe", "Pacific/Chatham", "Europe/Amsterdam", "Africa/Monrovia"}

// instants between 0001-01-02 and 9999-12-30 UTC
const minSec, maxSec = -62135510400, 253402128000

func genTS(t *rapid.T, seconds bool) *TS {
	k := rapid.IntRange(0, 11).Draw(t, "tskind")
	if k == 0 {
		return &TS{Zone: "zero"}
	}
	ts := &TS{}
	switch rapid.IntRange(0, 3).Draw(t, "era") {
	case 0:
		ts.Sec = rapid.Int64Range(minSec, maxSec).Draw(t, "sec")
	case 1:
		ts.Sec = rapid.Int64Range(1600000000, 1900000000).Draw(t, "sec")
	case 2:
		ts.Sec = rapid.SampledFrom([]int64{minSec, maxSec, 0, -1, 1, 951782400, -2208988800}).Draw(t, "sec")
	default:
		ts.Sec = rapid.Int64Range(-3000000000, 4000000000).Draw(t, "sec")
	}
	ts.Nsec = rapid.SampledFrom([]int{0, 0, 1, 999999999, 123456789, 500000000, 1000, 120000000}).Draw(t, "nsec")
	switch {
	case k <= 3:
		ts.Zone = "utc"
	case k <= 5:
		ts.Zone = "local"
	case k <= 7:
		ts.Zone = "named"
		ts.Name = rapid.SampledFrom(zoneNames).Draw(t, "zname")
	default:
		ts.Zone = "fixed"
		ts.Name = rapid.SampledFrom([]string{"", "X", "CEST", "cest", "+0130", "UTC", "Z", "MST", "A B"}).Draw(t, "fname")
		ts.OffSec = rapid.SampledFrom([]int{0, 3600, -3600, 19800, 45900, -34200, 50400, -43200, 60}).Draw(t, "foff")
		if seconds && rapid.IntRange(0, 3).Draw(t, "withsec") == 0 {
			ts.OffSec += rapid.SampledFrom([]int{1, 30, -28, 59}).Draw(t, "fsec")
		}
	}
	return ts
}

func genType(t *rapid.T) string {
	return rapid.OneOf(
		rapid.SampledFrom([]string{"", "a", "user.created.v1", "pkg.Type", "*pkg.Ptr", "with space", "quo\"te", "ümläut", "日本", "a/b", "%s", "'; DROP TABLE events;--"}),
		// strings a column with numeric affinity would rewrite
		rapid.SampledFrom([]string{"007", "1e3", " 12", "12 ", "1.0", "-0", "+5", "0x10", ".5", "5.", "9223372036854775808", "00", "1e-2", "NaN", "Infinity", "true", "null"}),
		rapid.StringN(0, 6, 24),
	).Draw(t, "type")
}

func genRef(t *rapid.T) Ref {
	k := rapid.SampledFrom([]string{"oldest", "next", "next", "event", "event", "append"}).Draw(t, "refkind")
	return Ref{Kind: k, Idx: rapid.IntRange(0, 63).Draw(t, "refidx")}
}

// subscription ids: distinct strings, several of which are equal as numbers
var subIDs = []string{"A", "B", "a", "sub/3", "", "42", "042", "4.2e1", " 42", "42.0", "unknown"}

// genSub concentrates on two ids (so that one id sees several saves, also to
// lower positions, and loads in between) and samples the odd ones otherwise.
func genSub(t *rapid.T, withUnknown bool) string {
	if rapid.IntRange(0, 9).Draw(t, "commonSub") < 6 {
		return rapid.SampledFrom([]string{"A", "A", "B"}).Draw(t, "sub")
	}
	if withUnknown {
		return rapid.SampledFrom(subIDs).Draw(t, "sub")
	}
	return rapid.SampledFrom(subIDs[:len(subIDs)-1]).Draw(t, "sub")
}

var limits = []int{-1, 0, 1, 2, 3, 5, 100}

// Gen draws a case for the given store kind ("" = drawn).
func Gen(store string) func(t *rapid.T) *Case {
	return func(t *rapid.T) *Case {
		c := &Case{Store: store, ReqCtx: rapid.Bool().Draw(t, "reqCtx")}
		if store == "" {
			c.Store = rapid.SampledFrom([]string{"memory", "sqlite", "durable"}).Draw(t, "store")
		}
		switch c.Store {
		case "durable":
			c.Chunk = rapid.SampledFrom([]int{1, 150, 400, 1200, 0}).Draw(t, "chunk")
		case "sqlite", "sqlitemem":
			c.Batch = rapid.SampledFrom([]int{0, 0, 1, 2, 3, 7}).Draw(t, "batch")
		}
		n := rapid.IntRange(1, 60).Draw(t, "nops")
		long := rapid.IntRange(0, 2).Draw(t, "long") == 0 // bias to logs crossing the 9->10 boundary
		kinds := []string{"append", "append", "append", "read", "read", "stream", "chain", "chainev", "save", "save", "load", "load", "reopen", "append2", "read2"}
		if long {
			kinds = append(kinds, "append", "append", "append", "append", "append", "append")
		}
		if c.Store == "durable" {
			kinds = append(kinds, "appendlost")
		}
		for i := 0; i < n; i++ {
			op := Op{K: rapid.SampledFrom(kinds).Draw(t, "k")}
			switch op.K {
			case "append", "append2", "appendlost":
				op.Type = genType(t)
				op.Data = ws(t) + genJSON(t, 3)
				if c.Store == "durable" {
					// the reference server (harness infrastructure) decodes
					// JSON numbers as float64 and rejects overflowing ones
					op.Data = strings.ReplaceAll(op.Data, "1e400", "1e300")
				}
				op.TS = genTS(t, true)
				if rapid.IntRange(0, 15).Draw(t, "big") == 0 {
					op.Pad = rapid.SampledFrom([]int{100, 1000, 4000, 5000, 70000}).Draw(t, "pad")
				}
			case "read":
				op.From = genRef(t)
				op.Limit = rapid.SampledFrom(limits).Draw(t, "limit")
			case "stream":
				op.From = genRef(t)
			case "chain", "chainev":
				op.From = genRef(t)
				if rapid.Bool().Draw(t, "fromOldest") {
					op.From = Ref{Kind: "oldest"}
				}
				op.Limit = rapid.SampledFrom([]int{1, 2, 3, 5, 100, 0}).Draw(t, "limit")
			case "save":
				op.Sub = genSub(t, false)
				op.From = genRef(t)
			case "load":
				op.Sub = genSub(t, true)
				op.Fault = store == "sqlite" && rapid.IntRange(0, 3).Draw(t, "loadFault") == 0
			}
			c.Ops = append(c.Ops, op)
		}
		return c
	}
}

func GenConc(store string) func(t *rapid.T) *ConcCase {
	return func(t *rapid.T) *ConcCase {
		c := &ConcCase{Store: store, Writers: rapid.IntRange(2, 8).Draw(t, "writers"), Each: rapid.IntRange(5, 60).Draw(t, "each"),
			Limit: rapid.SampledFrom([]int{0, 1, 2, 7}).Draw(t, "limit"), Procs: rapid.SampledFrom([]int{2, 4, 16}).Draw(t, "procs"), Rounds: 3}
		if store == "" {
			c.Store = rapid.SampledFrom([]string{"memory", "memory", "sqlite", "sqlitemem", "durable"}).Draw(t, "store")
		}
		if c.Store == "durable" {
			c.Limit = 0 // limited reads cut chunks short on this store (listed finding)
		}
		if c.Store != "memory" && c.Each > 25 {
			c.Each = 25
		}
		return c
	}
}
