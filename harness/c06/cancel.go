package c06

import (
	"context"
	"runtime"
	"sync/atomic"
	"testing"
	"testing/synctest"

	eventbus "github.com/jilio/ebu"
	"verif/vkit"
)

// CancelCase: asynchronous handlers whose publish context is cancelled by a
// synchronous handler of the same publish.  Whether an asynchronous handler
// still runs is not determined; Wait must return regardless and nothing runs
// twice.
type CancelCase struct {
	NAsync    int  `json:"n_async"`
	Pubs      int  `json:"pubs"`
	Procs     int  `json:"procs"`
	CancelPos int  `json:"cancel_pos"` // position of the cancelling synchronous handler among the async ones
	PreCancel bool `json:"pre_cancel,omitempty"`
}

func RunCancel(t *testing.T, c *CancelCase) *vkit.Outcome {
	o := &vkit.Outcome{}
	if c.Procs > 0 {
		defer runtime.GOMAXPROCS(runtime.GOMAXPROCS(c.Procs))
	}
	done := make(chan any, 1)
	go func() {
		defer func() { done <- recover() }()
		synctest.Test(t, func(st *testing.T) {
			bus := eventbus.New()
			type key struct{}
			counts := make([]atomic.Int32, c.NAsync*(c.Pubs+1))
			for i := 0; i <= c.NAsync; i++ {
				if i == c.CancelPos {
					eventbus.SubscribeContext(bus, func(ctx context.Context, e Ev) {
						if f, ok := ctx.Value(key{}).(context.CancelFunc); ok {
							f()
						}
					})
				}
				if i < c.NAsync {
					i := i
					eventbus.SubscribeContext(bus, func(ctx context.Context, e Ev) { counts[e.ID*c.NAsync+i].Add(1) }, eventbus.Async())
				}
			}
			for p := 0; p < c.Pubs; p++ {
				ctx, cancel := context.WithCancel(context.Background())
				ctx = context.WithValue(ctx, key{}, cancel)
				if c.PreCancel {
					cancel()
				}
				eventbus.PublishContext(bus, ctx, Ev{ID: p})
			}
			bus.Wait()
			for i := range counts {
				if n := counts[i].Load(); n > 1 {
					o.Failf("", "asynchronous handler %d ran %d times for event %d", i%c.NAsync, n, i/c.NAsync)
				} else if n == 1 && c.PreCancel {
					o.Failf("", "asynchronous handler %d ran for event %d although the context was already cancelled", i%c.NAsync, i/c.NAsync)
				}
			}
		})
	}()
	if r := <-done; r != nil {
		o.Failf("", "Wait never returned after publishes whose context was cancelled during dispatch: %v", r)
	}
	o.Nontrivial = c.NAsync > 0 && c.CancelPos > 0
	if o.Nontrivial {
		o.Class("async_handlers_dispatched_before_the_cancel")
	}
	return o
}
