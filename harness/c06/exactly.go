package c06

import (
	"context"
	"fmt"
	"runtime"
	"sync"
	"sync/atomic"
	"time"

	eventbus "github.com/jilio/ebu"
	"pgregory.net/rapid"
	"verif/vkit"
)

// ExactCase: "every delivery to an Async handler whose publish context stays
// live runs exactly once" while the registry changes under the publishes:
// Once handlers (retired by the publish that fires them) sit among the
// asynchronous handlers, a synchronous handler republishes every top-level
// event once (a nested publish of the same type), and 1-3 goroutines publish
// at the same time.  All handlers are subscribed before the first publish and
// none is removed by the harness, so every asynchronous handler must have run
// exactly once for every event - top-level and nested - when Wait returns.
type ExactCase struct {
	Order      []string `json:"order"` // handler kinds in subscription order: async asyncseq once onceasync republish
	Publishers []int    `json:"publishers"`
	UseCtx     bool     `json:"usectx,omitempty"`
	Procs      int      `json:"procs"`
	// Dead > 0: one more goroutine publishes Dead events of another type, to
	// an asynchronous handler of its own, each with a context that it cancels
	// as soon as PublishContext has returned.  Those deliveries may or may
	// not run (at most once each); the contexts of the other publishes stay
	// live, and what happens to a stranger's context is none of their
	// business.
	Dead int `json:"dead,omitempty"`
	// SeqYield: Gosched calls inside every asyncseq invocation, so that
	// later deliveries stand in line behind it.
	SeqYield int `json:"seq_yield,omitempty"`
}

type xev struct{ ID int }
type yev struct{ ID int }

func GenExact(t *rapid.T) *ExactCase {
	c := &ExactCase{UseCtx: rapid.Bool().Draw(t, "usectx"), Procs: rapid.SampledFrom([]int{1, 2, 4, 16}).Draw(t, "procs")}
	n := rapid.IntRange(2, 7).Draw(t, "nh")
	for i := 0; i < n; i++ {
		c.Order = append(c.Order, rapid.SampledFrom([]string{"async", "async", "asyncseq", "asyncseq", "asyncseqodd", "once", "onceasync", "republish"}).Draw(t, "kind"))
	}
	np := rapid.IntRange(1, 3).Draw(t, "np")
	for i := 0; i < np; i++ {
		c.Publishers = append(c.Publishers, rapid.IntRange(1, 6).Draw(t, "n"))
	}
	if rapid.IntRange(0, 2).Draw(t, "hasDead") == 0 {
		c.Dead = rapid.IntRange(1, 30).Draw(t, "dead")
	}
	c.SeqYield = rapid.SampledFrom([]int{0, 0, 1, 3}).Draw(t, "seqYield")
	return c
}

func RunExact(c *ExactCase) *vkit.Outcome {
	o := &vkit.Outcome{}
	if c.Procs > 0 {
		defer runtime.GOMAXPROCS(runtime.GOMAXPROCS(c.Procs))
	}
	for round := 0; round < 10; round++ {
		bus := eventbus.New()
		var mu sync.Mutex
		got := map[int]map[int]int{} // handler index -> event id -> deliveries
		hit := func(hi, id int) {
			mu.Lock()
			if got[hi] == nil {
				got[hi] = map[int]int{}
			}
			got[hi][id]++
			mu.Unlock()
		}
		nRepub := 0
		for hi, k := range c.Order {
			hi := hi
			switch k {
			case "async":
				eventbus.Subscribe(bus, func(e xev) { hit(hi, e.ID) }, eventbus.Async())
			case "asyncseq":
				eventbus.SubscribeContext(bus, func(_ context.Context, e xev) {
					for y := 0; y < c.SeqYield; y++ {
						runtime.Gosched()
					}
					hit(hi, e.ID)
				}, eventbus.Async(), eventbus.Sequential())
			case "asyncseqodd":
				// a line of its own pace: only odd ids are accepted
				eventbus.SubscribeContext(bus, func(_ context.Context, e xev) {
					for y := 0; y < c.SeqYield; y++ {
						runtime.Gosched()
					}
					hit(hi, e.ID)
				}, eventbus.Async(), eventbus.Sequential(), eventbus.WithFilter(func(e xev) bool { return e.ID%2 == 1 }))
			case "once":
				eventbus.Subscribe(bus, func(e xev) { hit(hi, e.ID) }, eventbus.Once())
			case "onceasync":
				eventbus.Subscribe(bus, func(e xev) { hit(hi, e.ID) }, eventbus.Once(), eventbus.Async())
			case "republish":
				nRepub++
				eventbus.Subscribe(bus, func(e xev) {
					hit(hi, e.ID)
					if e.ID < 1000 {
						eventbus.Publish(bus, xev{ID: 1000*(hi+1) + e.ID})
					}
				})
			}
		}
		var all []int
		var start, done sync.WaitGroup
		start.Add(1)
		base := 0
		for _, n := range c.Publishers {
			for i := 0; i < n; i++ {
				id := base + i + 1
				all = append(all, id)
				for hi, k := range c.Order {
					if k == "republish" {
						all = append(all, 1000*(hi+1)+id)
					}
				}
			}
			done.Add(1)
			go func(base, n int) {
				defer done.Done()
				start.Wait()
				for i := 0; i < n; i++ {
					if c.UseCtx {
						eventbus.PublishContext(bus, context.Background(), xev{ID: base + i + 1})
					} else {
						eventbus.Publish(bus, xev{ID: base + i + 1})
					}
				}
			}(base, n)
			base += n
		}
		deadRuns := make([]atomic.Int32, c.Dead)
		if c.Dead > 0 {
			eventbus.SubscribeContext(bus, func(_ context.Context, e yev) { deadRuns[e.ID].Add(1) }, eventbus.Async())
			done.Add(1)
			go func() {
				defer done.Done()
				start.Wait()
				for i := 0; i < c.Dead; i++ {
					ctx, cancel := context.WithCancel(context.Background())
					eventbus.PublishContext(bus, ctx, yev{ID: i})
					cancel()
				}
			}()
		}
		start.Done()
		done.Wait()
		if timedOut, dump := vkit.Watchdog(30*time.Second, bus.Wait); timedOut {
			if len(dump) > 6000 {
				dump = dump[:6000]
			}
			mu.Lock()
			state := fmt.Sprint(got)
			mu.Unlock()
			o.Failf("", "round %d: every publisher has returned and every context is live, yet Wait() did not return within 30 s: an asynchronous delivery never runs (order %v, %d publishers, deliveries so far %s)\n%s", round, c.Order, len(c.Publishers), state, dump)
			return o
		}
		for i := range deadRuns {
			if n := deadRuns[i].Load(); n > 1 {
				o.Failf("", "round %d: the asynchronous handler of the cancelled publishes ran %d times for event %d", round, n, i)
				return o
			}
		}
		mu.Lock()
		for hi, k := range c.Order {
			switch k {
			case "asyncseqodd":
				odd := 0
				for _, id := range all {
					want := id % 2
					odd += want
					if n := got[hi][id]; n != want {
						mu.Unlock()
						o.Failf("", "round %d: handler %d (Async+Sequential, filter accepts odd ids) ran %d times for event %d after Wait returned, expected %d (order %v, %d publishers)", round, hi, n, id, want, c.Order, len(c.Publishers))
						return o
					}
				}
				if len(got[hi]) != odd {
					mu.Unlock()
					o.Failf("", "round %d: handler %d (asyncseqodd) saw %d distinct events, %d odd ids were published", round, hi, len(got[hi]), odd)
					return o
				}
			case "async", "asyncseq", "republish":
				for _, id := range all {
					if n := got[hi][id]; n != 1 {
						mu.Unlock()
						o.Failf("", "round %d: handler %d (%s) ran %d times for event %d after Wait returned; every handler that stays subscribed receives every event exactly once (order %v, %d publishers)", round, hi, k, n, id, c.Order, len(c.Publishers))
						return o
					}
				}
				if len(got[hi]) != len(all) {
					mu.Unlock()
					o.Failf("", "round %d: handler %d (%s) saw %d distinct events, %d were published", round, hi, k, len(got[hi]), len(all))
					return o
				}
			default:
				total := 0
				for _, n := range got[hi] {
					total += n
				}
				if total != 1 {
					mu.Unlock()
					o.Failf("", "round %d: Once handler %d (%s) ran %d times over %d events", round, hi, k, total, len(all))
					return o
				}
			}
		}
		mu.Unlock()
		_ = fmt.Sprint
	}
	hasOnce, hasAsync := false, false
	for _, k := range c.Order {
		hasOnce = hasOnce || k == "once" || k == "onceasync"
		hasAsync = hasAsync || k == "async" || k == "asyncseq" || k == "asyncseqodd"
	}
	if c.Dead > 0 {
		o.Class("publishes_of_another_type_with_contexts_cancelled_on_return")
	}
	if hasOnce && hasAsync {
		o.Nontrivial = true
		o.Class("once_handlers_retired_among_async_handlers")
	}
	return o
}
