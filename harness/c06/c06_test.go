package c06

import (
	"testing"

	"pgregory.net/rapid"
	"verif/vkit"
)

var coll = vkit.NewCollector("C06", "TestWaitShutdown", "workloads in a synctest bubble (fake clock): 1-20 publishes to 1-4 Async handlers (plain/context-aware, +-Once) that sleep a drawn fake duration or block on a harness gate and may publish further async work up to depth 3, in three quarters of the cases as events of other types (2-4 of 7 types in a drawn order, so nested work moves between routing shards in both directions); drawn GOMAXPROCS in {1,2,4,16}; then Wait on the publishing goroutine, or Shutdown with a background / already-cancelled / timeout (shorter, longer, equal to the work) context over a store that counts Close (optionally failing, absent, or without Close). After a Shutdown that returned its context's error, half of the cases publish the same events again once the old work has finished and call Shutdown a second time with a background context. Oracle = model of expected invocations and of the fake time at which the work ends: completed == expected when Wait/Shutdown(nil) return; with gates, returning while a gate is closed is a violation with no timing involved; Shutdown nil => Close exactly once after completion, context error => Close never called, also later. Non-trivial = Wait/Shutdown issued while >=1 invocation is unfinished.")

func TestMain(m *testing.M) { vkit.Main(m) }

func TestWaitShutdown(t *testing.T) {
	rapid.Check(t, func(rt *rapid.T) {
		c := Gen(rt)
		if v := coll.Account(c, Run(t, c)); v != nil {
			vkit.SaveFail("C06", "TestWaitShutdown", c, v)
			rt.Fatalf("%s", v.Error())
		}
	})
}

var collCancel = vkit.NewCollector("C06", "TestCancelDuringDispatch", "1-6 Async handlers and one synchronous handler (drawn position) that cancels the publish context, 1-10 publishes, drawn GOMAXPROCS, in a synctest bubble; oracle = Wait returns (a lost Done shows as 'all goroutines blocked'), nothing runs twice, nothing runs for an already-cancelled context. Non-trivial = >=1 async handler dispatched before the cancelling handler.")

func TestCancelDuringDispatch(t *testing.T) {
	rapid.Check(t, func(rt *rapid.T) {
		c := GenCancel(rt)
		if v := collCancel.Account(c, RunCancel(t, c)); v != nil {
			vkit.SaveFail("C06", "TestCancelDuringDispatch", c, v)
			rt.Fatalf("%s", v.Error())
		}
	})
}

var collRunning = vkit.NewCollector("C06", "TestCancelWhileRunning", "synctest bubble, fake clock: 1-8 publishes (gaps 0-5 ms) to 1-4 Async handlers (two thirds Async+Sequential, so deliveries queue behind a backlog; plain/context-aware) that work for 1-40 ms, each publish with a cancellable context (one shared context or one per publish) which a canceller goroutine cancels 0-60 ms after the first publish - before the work, while handlers run, or after it; then, 0-30 ms after the last publish, Wait or Shutdown(background) over a store that counts Close. A cancelled context may stop a delivery from starting; oracle: when Wait/Shutdown returns no invocation is inside its body and none starts afterwards (counters on the fake clock, no timing), Close happens once and not while a handler runs, nothing runs twice, started == finished. Non-trivial = the cancel arrived while >=1 handler was running.")

func TestCancelWhileRunning(t *testing.T) {
	rapid.Check(t, func(rt *rapid.T) {
		c := GenRunning(rt)
		if v := collRunning.Account(c, RunRunning(t, c)); v != nil {
			vkit.SaveFail("C06", "TestCancelWhileRunning", c, v)
			rt.Fatalf("%s", v.Error())
		}
	})
}

var collExact = vkit.NewCollector("C06", "TestExactlyOnce", "2-7 handlers in drawn subscription order from {Async, Async+Sequential, Once, Once+Async, a synchronous handler that republishes every top-level event once}, all subscribed before the first publish; 1-3 goroutines publish 1-6 events each (barrier start, drawn GOMAXPROCS), 10 fresh buses per case. Oracle after Wait: every asynchronous (and republishing) handler ran exactly once for every event, top-level and nested, although Once handlers were retired from the registry by overlapping and nested publishes meanwhile; every Once handler ran exactly once. Non-trivial = a Once handler and an asynchronous handler in the same case.")

func TestExactlyOnce(t *testing.T) { vkit.Check(t, collExact, GenExact, RunExact) }

var collPanicWork = vkit.NewCollector("C06", "TestPanicWorkCovered", "synctest bubble, fake clock: 1-8 publishes to 1-3 Async (half Async+Sequential) handlers that work 0-4 ms and panic on every / every 2nd / every 3rd event or never; the bus's panic handler works 0-30 ms and then publishes a dead-letter event to an Async handler that works 0-10 ms; then Wait or Shutdown(background) over a store that counts Close. Oracle when they return: no panic handler is still running, every dead-letter delivery has finished, Close happened once and not while any of that work ran; the panic handler was called once per panic. Non-trivial = at least one panic.")

func TestPanicWorkCovered(t *testing.T) {
	rapid.Check(t, func(rt *rapid.T) {
		c := GenPanicWork(rt)
		if v := collPanicWork.Account(c, RunPanicWork(t, c)); v != nil {
			vkit.SaveFail("C06", "TestPanicWorkCovered", c, v)
			rt.Fatalf("%s", v.Error())
		}
	})
}

var collRace = vkit.NewCollector("C06", "TestWaitRace", "free-running stress on real goroutines (race detector on): 200-600 rounds per case in which a quick Async handler signals that it is about to return and spins for a varying time, the publisher publishes a second event as soon as it sees the signal and calls Wait (mode publish), or calls Wait after a varying spin of its own with no further publish (mode last), or publishes to a trivial handler and calls Wait after a varying distance with no handshake (mode free); oracle = every invocation finished when Wait returns, and Wait returns: a Wait still blocked 40 s after every invocation has finished, with nothing moving, is a hang. Non-trivial = >=2 rounds.")

var collTrickle = vkit.NewCollector("C06", "TestWaitTrickle", "free-running volume stress on real goroutines (no race detector): 100-300 rounds per case in which 5-40 events are published with small varying gaps to 1-16 Async handlers (three quarters of the cases with Sequential), then Wait; oracle = every delivery has run when Wait returns, and Wait returns (stall oracle as in TestWaitRace). Non-trivial = >=2 rounds.")

func TestWaitTrickle(t *testing.T) { vkit.Check(t, collTrickle, GenTrickle, RunRace) }

func TestWaitRace(t *testing.T) { vkit.Check(t, collRace, GenRace, RunRace) }

func TestReplay(t *testing.T) {
	r := vkit.NeedReplay(t)
	_ = vkit.ReplayCase(t, r, coll, func(c *Case) *vkit.Outcome { return Run(t, c) }) ||
		vkit.ReplayCase(t, r, collRace, RunRace) || vkit.ReplayCase(t, r, collTrickle, RunRace) || vkit.ReplayCase(t, r, collCancel, func(c *CancelCase) *vkit.Outcome { return RunCancel(t, c) }) || vkit.ReplayCase(t, r, collRunning, func(c *RunningCase) *vkit.Outcome { return RunRunning(t, c) }) || vkit.ReplayCase(t, r, collExact, RunExact) || vkit.ReplayCase(t, r, collPanicWork, func(c *PanicWorkCase) *vkit.Outcome { return RunPanicWork(t, c) })
}
