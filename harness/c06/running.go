package c06

import (
	"context"
	"runtime"
	"sync"
	"sync/atomic"
	"testing"
	"testing/synctest"
	"time"

	eventbus "github.com/jilio/ebu"
	"verif/vkit"
)

// RunningCase: publish contexts are cancelled while asynchronous handlers of
// those publishes are already running (or queued behind an Async+Sequential
// handler's backlog).  A cancelled context may keep a delivery that has not
// started from ever starting; it never makes Wait or Shutdown return while a
// handler that did start is still inside its body.  Runs in a synctest bubble
// on the fake clock, so "still running" is decided by counters, not by timing.
type RunningCase struct {
	Handlers []RunH `json:"handlers"`
	Pubs     int    `json:"pubs"`
	GapMs    int    `json:"gap_ms"`             // fake time between publishes
	CancelMs int    `json:"cancel_ms"`          // fake time (from the first publish) at which the contexts are cancelled
	OneCtx   bool   `json:"one_ctx,omitempty"`  // all publishes share one context
	Shutdown bool   `json:"shutdown,omitempty"` // Shutdown(background) instead of Wait
	WaitMs   int    `json:"wait_ms"`            // fake time at which Wait/Shutdown is called (after the last publish)
	Procs    int    `json:"procs"`
	// Tail: that many further events are published with a live context right
	// after the contexts above have been cancelled.  Whatever the cancelled
	// deliveries did to a handler's line, these run exactly once each.
	Tail int `json:"tail,omitempty"`
}

type RunH struct {
	Seq    bool `json:"seq,omitempty"`
	Ctx    bool `json:"ctx,omitempty"`
	WorkMs int  `json:"work_ms"`
}

type closeCounter struct {
	*eventbus.MemoryStore
	closedWhileRunning *atomic.Int32
	running            *atomic.Int32
	closes             atomic.Int32
}

func (c *closeCounter) Close() error {
	c.closes.Add(1)
	if c.running.Load() != 0 {
		c.closedWhileRunning.Add(1)
	}
	return nil
}

func RunRunning(t *testing.T, c *RunningCase) *vkit.Outcome {
	o := &vkit.Outcome{}
	if c.Procs > 0 {
		defer runtime.GOMAXPROCS(runtime.GOMAXPROCS(c.Procs))
	}
	done := make(chan any, 1)
	var runningAtReturn, startedAfterReturn, closedWhileRunning atomic.Int32
	var started, finished atomic.Int32
	var midRun atomic.Bool
	go func() {
		defer func() { done <- recover() }()
		synctest.Test(t, func(st *testing.T) {
			var running atomic.Int32
			var returned atomic.Bool
			store := &closeCounter{MemoryStore: eventbus.NewMemoryStore(), closedWhileRunning: &closedWhileRunning, running: &running}
			var opts []eventbus.Option
			if c.Shutdown {
				opts = append(opts, eventbus.WithStore(store))
			}
			bus := eventbus.New(opts...)
			counts := make([]atomic.Int32, len(c.Handlers)*(c.Pubs+c.Tail))
			for hi, h := range c.Handlers {
				hi, h := hi, h
				body := func(id int) {
					if returned.Load() {
						startedAfterReturn.Add(1)
					}
					counts[id*len(c.Handlers)+hi].Add(1)
					started.Add(1)
					running.Add(1)
					time.Sleep(time.Duration(h.WorkMs) * time.Millisecond)
					running.Add(-1)
					finished.Add(1)
				}
				so := []eventbus.SubscribeOption{eventbus.Async()}
				if h.Seq {
					so = append(so, eventbus.Sequential())
				}
				if h.Ctx {
					eventbus.SubscribeContext(bus, func(_ context.Context, e Ev) { body(e.ID) }, so...)
				} else {
					eventbus.Subscribe(bus, func(e Ev) { body(e.ID) }, so...)
				}
			}
			var cmu sync.Mutex
			var cancels []context.CancelFunc
			gone := false // the canceller has already gone by
			shared, sharedCancel := context.WithCancel(context.Background())
			cancels = append(cancels, sharedCancel)
			go func() {
				time.Sleep(time.Duration(c.CancelMs) * time.Millisecond)
				cmu.Lock()
				defer cmu.Unlock()
				if running.Load() > 0 {
					midRun.Store(true)
				}
				gone = true
				for _, f := range cancels {
					f()
				}
			}()
			for p := 0; p < c.Pubs; p++ {
				ctx := shared
				if !c.OneCtx {
					var cancel context.CancelFunc
					ctx, cancel = context.WithCancel(context.Background())
					cmu.Lock()
					if gone {
						cancel()
					} else {
						cancels = append(cancels, cancel)
					}
					cmu.Unlock()
				}
				eventbus.PublishContext(bus, ctx, Ev{ID: p})
				time.Sleep(time.Duration(c.GapMs) * time.Millisecond)
			}
			if c.Tail > 0 {
				// fake time: until just after the canceller has gone by
				if rest := c.CancelMs - c.Pubs*c.GapMs; rest >= 0 {
					time.Sleep(time.Duration(rest)*time.Millisecond + time.Microsecond)
				}
				for p := c.Pubs; p < c.Pubs+c.Tail; p++ {
					eventbus.PublishContext(bus, context.Background(), Ev{ID: p})
				}
			}
			time.Sleep(time.Duration(c.WaitMs) * time.Millisecond)
			if c.Shutdown {
				if err := bus.Shutdown(context.Background()); err != nil {
					o.Failf("", "Shutdown(background) returned %v", err)
				}
			} else {
				bus.Wait()
			}
			runningAtReturn.Store(running.Load())
			returned.Store(true)
			// let anything that is still going finish inside the bubble
			time.Sleep(time.Hour)
			for i := range counts {
				if n := counts[i].Load(); n > 1 {
					o.Failf("", "handler %d ran %d times for event %d", i%len(c.Handlers), n, i/len(c.Handlers))
				}
				if n := counts[i].Load(); n != 1 && i/len(c.Handlers) >= c.Pubs {
					o.Failf("", "handler %d %+v ran %d times for event %d, which was published with a live context after the earlier publishes' contexts had been cancelled (at %d ms): exactly once", i%len(c.Handlers), c.Handlers[i%len(c.Handlers)], n, i/len(c.Handlers), c.CancelMs)
				}
			}
			if c.Shutdown && store.closes.Load() != 1 {
				o.Failf("", "Shutdown returned nil and closed the store %d times", store.closes.Load())
			}
		})
	}()
	if r := <-done; r != nil {
		o.Failf("", "Wait/Shutdown never returned after contexts were cancelled during the work: %v", r)
		return o
	}
	what := "Wait"
	if c.Shutdown {
		what = "Shutdown"
	}
	if n := runningAtReturn.Load(); n != 0 {
		o.Failf("", "%s returned while %d asynchronous handler invocation(s) were still inside their body (their publish context had been cancelled %d ms after the first publish): case %+v", what, n, c.CancelMs, *c)
	}
	if n := startedAfterReturn.Load(); n != 0 {
		o.Failf("", "%d asynchronous handler invocation(s) dispatched before %s was called started only after it had returned: case %+v", n, what, *c)
	}
	if n := closedWhileRunning.Load(); n != 0 {
		o.Failf("", "the store was closed while %d handler invocation(s) were still running", n)
	}
	if started.Load() != finished.Load() {
		o.Failf("", "%d invocations started, %d finished", started.Load(), finished.Load())
	}
	if c.Tail > 0 {
		o.Class("live_publishes_after_the_cancellation")
	}
	if midRun.Load() {
		o.Nontrivial = true
		o.Class("context_cancelled_while_a_handler_was_running")
		for _, h := range c.Handlers {
			if h.Seq {
				o.Class("with_async_sequential_backlog")
				break
			}
		}
	}
	return o
}
