package c06

import (
	"pgregory.net/rapid"
	"verif/busmodel"
)

func Gen(t *rapid.T) *Case {
	c := &Case{
		Pubs:     rapid.IntRange(1, 20).Draw(t, "pubs"),
		MaxDepth: rapid.IntRange(0, 3).Draw(t, "depth"),
		Procs:    rapid.SampledFrom([]int{1, 1, 2, 4, 16}).Draw(t, "procs"),
		End:      rapid.SampledFrom([]string{"wait", "wait", "wait", "shutdown_bg", "shutdown_cancelled", "shutdown_timeout", "shutdown_timeout"}).Draw(t, "end"),
		SyncToo:  rapid.IntRange(0, 3).Draw(t, "sync") == 0,
		ViaAny:   rapid.IntRange(0, 3).Draw(t, "viaAny") == 0,
		NestCtx:  rapid.IntRange(0, 2).Draw(t, "nestCtx") == 0,
	}
	if rapid.Bool().Draw(t, "hasAmbient") {
		c.Ambient = rapid.IntRange(0, busmodel.AmbAll).Draw(t, "ambient")
	}
	if rapid.IntRange(0, 3).Draw(t, "multiType") != 0 {
		// nested publishes wander over 2-4 distinct event types (routing shards)
		c.Types = rapid.Permutation([]int{0, 1, 2, 3, 4, 5, 6}).Draw(t, "types")[:rapid.IntRange(2, 4).Draw(t, "ntypes")]
	}
	n := rapid.IntRange(1, 4).Draw(t, "nh")
	gateCase := rapid.IntRange(0, 2).Draw(t, "gatecase") == 0
	budget := 60 // bound on nested fan-out
	for i := 0; i < n; i++ {
		h := H{Ctx: rapid.Bool().Draw(t, "ctx"), Once: rapid.IntRange(0, 4).Draw(t, "once") == 0,
			SleepMs: rapid.SampledFrom([]int{0, 0, 1, 5, 50, 1000, 60000}).Draw(t, "sleep")}
		if rapid.IntRange(0, 2).Draw(t, "nests") == 0 && budget > 0 {
			h.Nest = rapid.IntRange(1, 2).Draw(t, "nest")
			budget -= 30
		}
		if gateCase && rapid.Bool().Draw(t, "gate") {
			h.Gate = true
		}
		h.Replay = !h.Ctx && rapid.IntRange(0, 2).Draw(t, "replaySub") == 0
		h.SkipFirst = h.Once && c.End == "wait" && rapid.Bool().Draw(t, "skipFirst")
		c.Handlers = append(c.Handlers, h)
	}
	// keep the total number of invocations bounded
	if m := model(c); m.expected > 3000 {
		c.MaxDepth = 1
		if m2 := model(c); m2.expected > 3000 {
			c.MaxDepth = 0
		}
	}
	c.Retry = c.End != "wait" && rapid.Bool().Draw(t, "retry")
	if c.End == "shutdown_timeout" {
		c.Rel = rapid.SampledFrom([]string{"shorter", "longer", "equal"}).Draw(t, "rel")
	}
	if c.End != "wait" {
		switch rapid.IntRange(0, 5).Draw(t, "storekind") {
		case 0:
			c.NoStore = true
		case 1:
			c.NoCloser = true
		case 2:
			c.CloseErr = true
		}
	}
	return c
}

func GenCancel(t *rapid.T) *CancelCase {
	c := &CancelCase{NAsync: rapid.IntRange(1, 6).Draw(t, "nasync"), Pubs: rapid.IntRange(1, 10).Draw(t, "pubs"),
		Procs: rapid.SampledFrom([]int{1, 2, 4, 16}).Draw(t, "procs"), PreCancel: rapid.IntRange(0, 4).Draw(t, "pre") == 0}
	c.CancelPos = rapid.IntRange(0, c.NAsync).Draw(t, "pos")
	return c
}

func GenRace(t *rapid.T) *RaceCase {
	return &RaceCase{
		Rounds:   rapid.IntRange(200, 600).Draw(t, "rounds"),
		SpinMax:  rapid.SampledFrom([]int{1, 50, 300, 1500, 4000}).Draw(t, "spinmax"),
		Slow:     rapid.IntRange(0, 5).Draw(t, "slow"),
		Procs:    rapid.SampledFrom([]int{2, 4, 16}).Draw(t, "procs"),
		Ctx:      rapid.Bool().Draw(t, "ctx"),
		Mode:     rapid.SampledFrom([]string{"", "last", "free", "free"}).Draw(t, "mode"),
		WaitSpin: rapid.SampledFrom([]int{0, 1, 50, 300, 1500}).Draw(t, "waitspin"),
	}
}

// GenTrickle: many deliveries per case, no race detector (the window is a
// few instructions wide and needs volume).
func GenTrickle(t *rapid.T) *RaceCase {
	return &RaceCase{
		Mode:     "trickle",
		Rounds:   rapid.IntRange(100, 300).Draw(t, "rounds"),
		NH:       rapid.SampledFrom([]int{1, 4, 16}).Draw(t, "nh"),
		Seq:      rapid.IntRange(0, 3).Draw(t, "seq") != 0,
		Burst:    rapid.SampledFrom([]int{5, 20, 40}).Draw(t, "burst"),
		WaitSpin: rapid.IntRange(0, 96).Draw(t, "waitspin"),
		Procs:    rapid.SampledFrom([]int{2, 4, 16, 16}).Draw(t, "procs"),
		Ctx:      rapid.Bool().Draw(t, "ctx"),
	}
}

func GenRunning(t *rapid.T) *RunningCase {
	c := &RunningCase{Pubs: rapid.IntRange(1, 8).Draw(t, "pubs"), GapMs: rapid.SampledFrom([]int{0, 0, 1, 5}).Draw(t, "gap"),
		OneCtx: rapid.Bool().Draw(t, "oneCtx"), Shutdown: rapid.IntRange(0, 2).Draw(t, "shutdown") == 0,
		WaitMs: rapid.SampledFrom([]int{0, 0, 1, 7, 30}).Draw(t, "waitAt"), Procs: rapid.SampledFrom([]int{1, 2, 4, 16}).Draw(t, "procs")}
	n := rapid.IntRange(1, 4).Draw(t, "nh")
	for i := 0; i < n; i++ {
		c.Handlers = append(c.Handlers, RunH{Seq: rapid.IntRange(0, 2).Draw(t, "seq") != 0, Ctx: rapid.Bool().Draw(t, "ctx"), WorkMs: rapid.SampledFrom([]int{1, 3, 10, 40}).Draw(t, "work")})
	}
	c.CancelMs = rapid.IntRange(0, 60).Draw(t, "cancelAt")
	if rapid.Bool().Draw(t, "aligned") {
		// the cancellation falls on the instant a handler invocation ends
		h := c.Handlers[rapid.IntRange(0, n-1).Draw(t, "alignedTo")]
		c.CancelMs = h.WorkMs * rapid.IntRange(1, 3).Draw(t, "alignedK")
	}
	if rapid.IntRange(0, 2).Draw(t, "hasTail") != 0 {
		c.Tail = rapid.IntRange(1, 3).Draw(t, "tail")
	}
	return c
}

func GenPanicWork(t *rapid.T) *PanicWorkCase {
	c := &PanicWorkCase{Pubs: rapid.IntRange(1, 8).Draw(t, "pubs"), PHMs: rapid.SampledFrom([]int{0, 1, 5, 30}).Draw(t, "phMs"),
		DLMs: rapid.SampledFrom([]int{0, 1, 10}).Draw(t, "dlMs"), Shutdown: rapid.IntRange(0, 2).Draw(t, "shutdown") == 0,
		Procs: rapid.SampledFrom([]int{1, 2, 4, 16}).Draw(t, "procs")}
	n := rapid.IntRange(1, 3).Draw(t, "nh")
	for i := 0; i < n; i++ {
		c.Handlers = append(c.Handlers, PWH{Seq: rapid.Bool().Draw(t, "seq"), PanicMod: rapid.SampledFrom([]int{0, 1, 1, 2, 3}).Draw(t, "panicMod"), WorkMs: rapid.SampledFrom([]int{0, 1, 4}).Draw(t, "work")})
	}
	return c
}
