package c06

import (
	"context"
	"reflect"
	"runtime"
	"sync/atomic"
	"testing"
	"testing/synctest"
	"time"

	eventbus "github.com/jilio/ebu"
	"verif/vkit"
)

// PanicWorkCase: asynchronous handlers panic; the bus's panic handler - which
// runs as part of the failed invocation - takes a while and publishes a
// dead-letter event to an asynchronous handler of its own.  Wait / Shutdown
// cover an asynchronous invocation to its end, including what it published:
// when they return the panic handler is not running any more and every
// dead-letter delivery has finished; the store is closed only then.
type PanicWorkCase struct {
	Handlers []PWH `json:"handlers"`
	Pubs     int   `json:"pubs"`
	PHMs     int   `json:"ph_ms"` // the panic handler works this long (fake clock) before it publishes
	DLMs     int   `json:"dl_ms"` // the dead-letter handler works this long
	Shutdown bool  `json:"shutdown,omitempty"`
	Procs    int   `json:"procs"`
}

type PWH struct {
	Seq      bool `json:"seq,omitempty"`
	PanicMod int  `json:"panic_mod"` // panics on events whose id is a multiple of it (0 = never)
	WorkMs   int  `json:"work_ms"`
}

type deadLetter struct{ For int }

func RunPanicWork(t *testing.T, c *PanicWorkCase) *vkit.Outcome {
	o := &vkit.Outcome{}
	if c.Procs > 0 {
		defer runtime.GOMAXPROCS(runtime.GOMAXPROCS(c.Procs))
	}
	done := make(chan any, 1)
	var phRunningAtReturn, dlMissingAtReturn, closedEarly atomic.Int32
	var panics atomic.Int32
	go func() {
		defer func() { done <- recover() }()
		synctest.Test(t, func(st *testing.T) {
			var phRunning, dlDone, phCalls, busy atomic.Int32
			store := &closeCounter{MemoryStore: eventbus.NewMemoryStore(), closedWhileRunning: &closedEarly, running: &busy}
			var bus *eventbus.EventBus
			opts := []eventbus.Option{eventbus.WithPanicHandler(func(ev any, _ reflect.Type, _ any) {
				phCalls.Add(1)
				phRunning.Add(1)
				busy.Add(1)
				time.Sleep(time.Duration(c.PHMs) * time.Millisecond)
				if e, ok := ev.(Ev); ok {
					eventbus.Publish(bus, deadLetter{For: e.ID})
				}
				busy.Add(-1)
				phRunning.Add(-1)
			})}
			if c.Shutdown {
				opts = append(opts, eventbus.WithStore(store))
			}
			bus = eventbus.New(opts...)
			eventbus.Subscribe(bus, func(d deadLetter) {
				busy.Add(1)
				time.Sleep(time.Duration(c.DLMs) * time.Millisecond)
				dlDone.Add(1)
				busy.Add(-1)
			}, eventbus.Async())
			for _, h := range c.Handlers {
				h := h
				so := []eventbus.SubscribeOption{eventbus.Async()}
				if h.Seq {
					so = append(so, eventbus.Sequential())
				}
				eventbus.SubscribeContext(bus, func(_ context.Context, e Ev) {
					busy.Add(1)
					defer busy.Add(-1)
					time.Sleep(time.Duration(h.WorkMs) * time.Millisecond)
					if h.PanicMod > 0 && e.ID%h.PanicMod == 0 {
						panics.Add(1)
						panic("handler failed")
					}
				}, so...)
			}
			for p := 1; p <= c.Pubs; p++ {
				eventbus.Publish(bus, Ev{ID: p})
			}
			if c.Shutdown {
				if err := bus.Shutdown(context.Background()); err != nil {
					o.Failf("", "Shutdown(background) returned %v", err)
				}
			} else {
				bus.Wait()
			}
			phRunningAtReturn.Store(phRunning.Load())
			dlMissingAtReturn.Store(panics.Load() - dlDone.Load())
			time.Sleep(time.Hour)
			if n := phCalls.Load(); n != panics.Load() {
				o.Failf("", "%d handler invocations panicked, the panic handler was called %d times", panics.Load(), n)
			}
		})
	}()
	if r := <-done; r != nil {
		o.Failf("", "Wait/Shutdown never returned after asynchronous handlers panicked: %v", r)
		return o
	}
	what := "Wait"
	if c.Shutdown {
		what = "Shutdown"
	}
	if n := phRunningAtReturn.Load(); n != 0 {
		o.Failf("", "%s returned while the panic handler of %d failed asynchronous invocation(s) was still running: case %+v", what, n, *c)
	}
	if n := dlMissingAtReturn.Load(); n != 0 {
		o.Failf("", "%s returned with %d of %d dead-letter deliveries (published by the panic handler of a failed asynchronous invocation) not finished: case %+v", what, n, panics.Load(), *c)
	}
	if n := closedEarly.Load(); n != 0 {
		o.Failf("", "the store was closed while work caused by the publishes was still running (%d times)", n)
	}
	if panics.Load() > 0 {
		o.Nontrivial = true
		o.Class("panic_handler_publishing_async_work")
	}
	return o
}
