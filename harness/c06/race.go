package c06

import (
	"context"
	"runtime"
	"sync/atomic"

	eventbus "github.com/jilio/ebu"
	"verif/vkit"
)

// RaceCase: free-running stress of the window in which the last in-flight
// asynchronous handler finishes while the publisher starts new asynchronous
// work and then waits.  A quick handler signals that it is about to return
// and spins for a varying number of iterations; the publisher publishes again
// as soon as it sees the signal and calls Wait.
type RaceCase struct {
	Rounds  int  `json:"rounds"`
	SpinMax int  `json:"spin_max"`
	Slow    int  `json:"slow"` // Gosched calls in the second handler invocation
	Procs   int  `json:"procs"`
	Ctx     bool `json:"ctx,omitempty"`
	Shutdown bool `json:"shutdown,omitempty"` // end every 16th round with Shutdown instead of Wait
}

type rev struct {
	Quick bool
	Spin  int
}

var sink atomic.Int64

func RunRace(c *RaceCase) *vkit.Outcome {
	o := &vkit.Outcome{}
	if c.Procs > 0 {
		defer runtime.GOMAXPROCS(runtime.GOMAXPROCS(c.Procs))
	}
	bus := eventbus.New()
	var finished atomic.Int64
	sig := make(chan struct{}, 1)
	body := func(e rev) {
		if e.Quick {
			sig <- struct{}{}
			for i := 0; i < e.Spin; i++ {
				sink.Add(1)
			}
		} else {
			for i := 0; i < c.Slow; i++ {
				runtime.Gosched()
			}
		}
		finished.Add(1)
	}
	if c.Ctx {
		eventbus.SubscribeContext(bus, func(_ context.Context, e rev) { body(e) }, eventbus.Async())
	} else {
		eventbus.Subscribe(bus, body, eventbus.Async())
	}
	expected := int64(0)
	for r := 0; r < c.Rounds; r++ {
		spin := 0
		if c.SpinMax > 0 {
			spin = (r * 37) % c.SpinMax
		}
		eventbus.Publish(bus, rev{Quick: true, Spin: spin})
		expected++
		<-sig
		eventbus.Publish(bus, rev{})
		expected++
		bus.Wait()
		if got := finished.Load(); got != expected {
			o.Failf("", "round %d (spin %d): Wait returned with %d of %d asynchronous invocations finished (a publish that returned before Wait was called is still running)", r, spin, got, expected)
			// let the stragglers finish
			for finished.Load() != expected {
				runtime.Gosched()
			}
			return o
		}
	}
	o.Nontrivial = c.Rounds >= 2
	if o.Nontrivial {
		o.Class("publish_while_last_handler_finishes")
	}
	return o
}
