package c06

import (
	"context"
	"runtime"
	"sync/atomic"
	"time"

	eventbus "github.com/jilio/ebu"
	"verif/vkit"
)

// RaceCase: free-running stress of the window in which the last in-flight
// asynchronous handler finishes while the publisher starts new asynchronous
// work and then waits.  A quick handler signals that it is about to return
// and spins for a varying number of iterations; the publisher publishes again
// as soon as it sees the signal and calls Wait.
type RaceCase struct {
	Rounds   int  `json:"rounds"`
	SpinMax  int  `json:"spin_max"`
	Slow     int  `json:"slow"` // Gosched calls in the second handler invocation
	Procs    int  `json:"procs"`
	Ctx      bool `json:"ctx,omitempty"`
	Shutdown bool `json:"shutdown,omitempty"` // end every 16th round with Shutdown instead of Wait
	// Mode "" publishes a second event while the first handler finishes and
	// waits; "last" calls Wait (after a varying spin of its own) while the
	// only in-flight handler is finishing, with no further publish.
	Mode     string `json:"mode,omitempty"`
	WaitSpin int    `json:"wait_spin,omitempty"`
	// Mode "trickle": NH handlers (Async, with Sequential if Seq) receive
	// Burst events per round, published with small varying gaps so that
	// publishes keep landing just as a handler's queue runs empty; then Wait.
	NH    int  `json:"nh,omitempty"`
	Seq   bool `json:"seq,omitempty"`
	Burst int  `json:"burst,omitempty"`
}

type rev struct {
	Quick bool
	Spin  int
}

var sink atomic.Int64

func RunRace(c *RaceCase) *vkit.Outcome {
	if c.Procs > 0 {
		defer runtime.GOMAXPROCS(runtime.GOMAXPROCS(c.Procs))
	}
	var finished, expectedNow, round atomic.Int64
	done := make(chan *vkit.Outcome, 1)
	go func() { done <- runRace(c, &finished, &expectedNow, &round) }()
	// hang oracle: every invocation has finished, nothing has moved for 40 s
	// and the publisher is still inside Wait
	tick := time.NewTicker(time.Second)
	defer tick.Stop()
	lastF, lastR, stable := int64(-1), int64(-1), 0
	for {
		select {
		case o := <-done:
			return o
		case <-tick.C:
			f, e, r := finished.Load(), expectedNow.Load(), round.Load()
			if f == e && f == lastF && r == lastR {
				stable++
			} else {
				stable = 0
			}
			lastF, lastR = f, r
			if stable >= 40 {
				buf := make([]byte, 1<<16)
				buf = buf[:runtime.Stack(buf, true)]
				o := &vkit.Outcome{}
				o.Failf("", "round %d: every asynchronous invocation has finished (%d of %d) and Wait has not returned for 40 s; goroutines:\n%s", r, f, e, buf)
				return o
			}
		}
	}
}

func runRace(c *RaceCase, finishedP, expectedP, roundP *atomic.Int64) *vkit.Outcome {
	o := &vkit.Outcome{}
	bus := eventbus.New()
	finished := finishedP
	sig := make(chan struct{}, 1)
	body := func(e rev) {
		if e.Quick {
			sig <- struct{}{}
			for i := 0; i < e.Spin; i++ {
				sink.Add(1)
			}
		} else if e.Spin >= 0 {
			for i := 0; i < c.Slow; i++ {
				runtime.Gosched()
			}
		}
		finished.Add(1)
	}
	nh := 1
	if c.Mode == "trickle" && c.NH > 1 {
		nh = c.NH
	}
	for i := 0; i < nh; i++ {
		so := []eventbus.SubscribeOption{eventbus.Async()}
		if c.Seq {
			so = append(so, eventbus.Sequential())
		}
		if c.Ctx {
			eventbus.SubscribeContext(bus, func(_ context.Context, e rev) { body(e) }, so...)
		} else {
			eventbus.Subscribe(bus, func(e rev) { body(e) }, so...)
		}
	}
	expected := int64(0)
	for r := 0; r < c.Rounds; r++ {
		if c.Mode == "trickle" {
			roundP.Store(int64(r))
			acc := 0
			for k := 0; k < c.Burst; k++ {
				eventbus.Publish(bus, rev{Spin: -1})
				expected += int64(nh)
				expectedP.Store(expected)
				for i, n := 0, (r*7+k*13+c.WaitSpin)%97; i < n; i++ {
					acc += i
				}
			}
			if acc < 0 {
				runtime.Gosched()
			}
			bus.Wait()
			if got := finished.Load(); got != expected {
				o.Failf("", "round %d: Wait returned with %d of %d asynchronous deliveries run (%d handlers, sequential=%v, %d publishes per round)", r, got, expected, nh, c.Seq, c.Burst)
				return o
			}
			continue
		}
		spin := 0
		if c.SpinMax > 0 {
			spin = (r * 37) % c.SpinMax
		}
		roundP.Store(int64(r))
		if c.Mode == "free" {
			// no handshake at all: publish to a trivial handler, let a varying
			// amount of time pass, wait
			eventbus.Publish(bus, rev{Spin: -1})
			expected++
			expectedP.Store(expected)
			acc := 0
			for i, n := 0, (r*31+c.WaitSpin)%1031; i < n; i++ {
				acc += i
			}
			if acc < 0 {
				runtime.Gosched()
			}
			bus.Wait()
			if got := finished.Load(); got != expected {
				o.Failf("", "round %d: Wait returned with %d of %d asynchronous invocations finished", r, got, expected)
				for finished.Load() != expected {
					runtime.Gosched()
				}
				return o
			}
			continue
		}
		eventbus.Publish(bus, rev{Quick: true, Spin: spin})
		expected++
		expectedP.Store(expected)
		<-sig
		if c.Mode == "last" {
			if c.WaitSpin > 0 {
				for i, n := 0, (r*53)%c.WaitSpin; i < n; i++ {
					sink.Add(1)
				}
			}
		} else {
			eventbus.Publish(bus, rev{})
			expected++
			expectedP.Store(expected)
		}
		bus.Wait()
		if got := finished.Load(); got != expected {
			o.Failf("", "round %d (spin %d): Wait returned with %d of %d asynchronous invocations finished (a publish that returned before Wait was called is still running)", r, spin, got, expected)
			// let the stragglers finish
			for finished.Load() != expected {
				runtime.Gosched()
			}
			return o
		}
	}
	roundP.Store(int64(c.Rounds))
	o.Nontrivial = c.Rounds >= 2
	if o.Nontrivial {
		if c.Mode == "trickle" {
			o.Class("trickle_of_publishes_then_wait")
			if c.Seq {
				o.Class("trickle_to_async_sequential_handlers")
			}
		} else if c.Mode == "free" {
			o.Class("publish_then_wait_with_varying_distance")
		} else if c.Mode == "last" {
			o.Class("wait_called_while_last_handler_finishes")
		} else {
			o.Class("publish_while_last_handler_finishes")
		}
	}
	return o
}
