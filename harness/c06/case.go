// Package c06 decides property C06: Wait and Shutdown return only after all
// asynchronous work has finished.  Cases run inside testing/synctest bubbles
// (fake clock, deterministic quiescence).
package c06

import (
	"context"
	"errors"
	"fmt"
	"runtime"
	"sync"
	"sync/atomic"
	"testing"
	"testing/synctest"
	"time"

	eventbus "github.com/jilio/ebu"
	"verif/busmodel"
	"verif/vkit"
)

type Ev struct {
	ID    int
	Depth int
}

// Six event types with the same shape: nested publishes move from type to
// type (Case.Types), i.e. from routing shard to routing shard in both
// directions.
type (
	E0 Ev
	E1 Ev
	E2 Ev
	E3 Ev
	E4 Ev
	E5 Ev
)

type evType struct {
	sub    func(bus *eventbus.EventBus, fn func(Ev), so ...eventbus.SubscribeOption)
	subCtx func(bus *eventbus.EventBus, fn func(context.Context, Ev), so ...eventbus.SubscribeOption)
	// subReplay subscribes through SubscribeWithReplay (bus with a store)
	subReplay func(bus *eventbus.EventBus, id string, fn func(Ev), so ...eventbus.SubscribeOption) error
	// notFirst: a filter option that accepts only the event with ID 2 (the second top-level publish)
	notFirst func() eventbus.SubscribeOption
	pubCtx func(bus *eventbus.EventBus, ctx context.Context, e Ev, viaAny bool)
	pub    func(bus *eventbus.EventBus, e Ev)
	pubAny func(bus *eventbus.EventBus, e Ev) // through the static type any
}

func mkType[T ~struct {
	ID    int
	Depth int
}]() evType {
	return evType{
		sub: func(bus *eventbus.EventBus, fn func(Ev), so ...eventbus.SubscribeOption) {
			eventbus.Subscribe(bus, func(e T) { fn(Ev(e)) }, so...)
		},
		subCtx: func(bus *eventbus.EventBus, fn func(context.Context, Ev), so ...eventbus.SubscribeOption) {
			eventbus.SubscribeContext(bus, func(ctx context.Context, e T) { fn(ctx, Ev(e)) }, so...)
		},
		subReplay: func(bus *eventbus.EventBus, id string, fn func(Ev), so ...eventbus.SubscribeOption) error {
			return eventbus.SubscribeWithReplay(context.Background(), bus, id, func(e T) { fn(Ev(e)) }, so...)
		},
		notFirst: func() eventbus.SubscribeOption {
			return eventbus.WithFilter(func(e T) bool { return Ev(e).ID == 2 })
		},
		pubCtx: func(bus *eventbus.EventBus, ctx context.Context, e Ev, viaAny bool) {
			if viaAny {
				eventbus.PublishContext[any](bus, ctx, T(e))
			} else {
				eventbus.PublishContext(bus, ctx, T(e))
			}
		},
		pub:    func(bus *eventbus.EventBus, e Ev) { eventbus.Publish(bus, T(e)) },
		pubAny: func(bus *eventbus.EventBus, e Ev) { eventbus.Publish[any](bus, T(e)) },
	}
}

var evTypes = []evType{mkType[Ev](), mkType[E0](), mkType[E1](), mkType[E2](), mkType[E3](), mkType[E4](), mkType[E5]()}

// publish publishes e as the event type of nesting depth d.
func (c *Case) publish(bus *eventbus.EventBus, d int, e Ev) {
	if c.ViaAny {
		c.typeAt(d).pubAny(bus, e)
	} else {
		c.typeAt(d).pub(bus, e)
	}
}

// typeAt: the event type used for publishes at nesting depth d.
func (c *Case) typeAt(d int) evType {
	if len(c.Types) == 0 {
		return evTypes[0]
	}
	return evTypes[c.Types[d%len(c.Types)]%len(evTypes)]
}

// typesInUse lists the distinct types of the case, the top-level one first.
func (c *Case) typesInUse() []evType {
	if len(c.Types) == 0 {
		return evTypes[:1]
	}
	seen := map[int]bool{}
	var out []evType
	for d := 0; d <= c.MaxDepth; d++ {
		i := c.Types[d%len(c.Types)] % len(evTypes)
		if !seen[i] {
			seen[i] = true
			out = append(out, evTypes[i])
		}
	}
	return out
}

// H is an asynchronous handler.
type H struct {
	Ctx     bool `json:"ctx,omitempty"`
	Once    bool `json:"once,omitempty"`
	SleepMs int  `json:"sleep_ms"`       // fake duration of every invocation
	Nest    int  `json:"nest,omitempty"` // number of further events it publishes (while depth < MaxDepth)
	Gate    bool `json:"gate,omitempty"` // blocks on the harness gate instead of sleeping
	// Replay (bus with a store, handler without context): subscribed through
	// SubscribeWithReplay with the Async option.  The log is empty then, so
	// it is a live asynchronous subscription that also records its position;
	// Wait and Shutdown cover its invocations like any other.
	Replay bool `json:"replay,omitempty"`
	// SkipFirst (Once handlers): subscribed with a filter that accepts only
	// the second top-level event, so the handler is claimed by that one - if
	// there is one.  A rejected event is not an invocation.
	SkipFirst bool `json:"skip_first,omitempty"`
}

type Case struct {
	Handlers []H    `json:"handlers"`
	SyncToo  bool   `json:"sync_too,omitempty"` // an extra synchronous handler is subscribed as well
	Pubs     int    `json:"pubs"`
	MaxDepth int    `json:"max_depth"`
	Procs    int    `json:"procs"`
	End      string `json:"end"` // wait, shutdown_bg, shutdown_cancelled, shutdown_timeout
	// shutdown_timeout: timeout relative to the work: "shorter", "longer", "equal"
	Rel      string `json:"rel,omitempty"`
	CloseErr bool   `json:"close_err,omitempty"`
	NoCloser bool   `json:"no_closer,omitempty"` // store without Close
	NoStore  bool   `json:"no_store,omitempty"`
	Ambient  int    `json:"ambient,omitempty"`
	// Types: event type (index into evTypes) used at nesting depth d is
	// Types[d % len]; empty = one type for everything.
	Types []int `json:"types,omitempty"`
	// Retry: after a Shutdown that returned its context's error and after the
	// outstanding work has finished, the same number of events is published
	// again and Shutdown is called a second time with a background context.
	Retry bool `json:"retry,omitempty"`
	// ViaAny: publishes go through the static type any (Publish[any]).
	ViaAny bool `json:"via_any,omitempty"`
	// NestCtx: context-aware handlers publish their nested work with the
	// context they were handed (PublishContext(bus, ctx, next)); the
	// top-level publishes then carry a live context of their own that is
	// never cancelled.
	NestCtx bool `json:"nest_ctx,omitempty"`
}

type closeStore struct {
	*eventbus.MemoryStore
	closes  atomic.Int32
	err     error
	atClose func()
}

func (s *closeStore) Close() error {
	s.closes.Add(1)
	if s.atClose != nil {
		s.atClose()
	}
	return s.err
}

var errClose = errors.New("injected close failure")

// model: expected invocations and the (fake) time at which all work is done.
type modelRes struct {
	expected int
	workEnd  time.Duration
	gated    bool
}

func model(c *Case) modelRes {
	var m modelRes
	// Once handlers are claimed by the first top-level publish (time 0) and
	// never nest.
	for _, h := range c.Handlers {
		if !h.Once || c.Pubs == 0 || (h.SkipFirst && c.Pubs < 2) {
			continue
		}
		m.expected++
		if h.Gate {
			m.gated = true
		} else if d := time.Duration(h.SleepMs) * time.Millisecond; d > m.workEnd {
			m.workEnd = d
		}
	}
	var deliver func(depth int, at time.Duration)
	deliver = func(depth int, at time.Duration) {
		for _, h := range c.Handlers {
			if h.Once {
				continue
			}
			m.expected++
			end := at + time.Duration(h.SleepMs)*time.Millisecond
			if h.Gate {
				m.gated = true
				end = at
			}
			if end > m.workEnd {
				m.workEnd = end
			}
			if depth < c.MaxDepth {
				for k := 0; k < h.Nest; k++ {
					deliver(depth+1, end)
				}
			}
		}
	}
	for p := 0; p < c.Pubs; p++ {
		deliver(0, 0)
	}
	return m
}

// Run executes the case in a synctest bubble.
func Run(t *testing.T, c *Case) *vkit.Outcome {
	o := &vkit.Outcome{}
	if c.Procs > 0 {
		defer runtime.GOMAXPROCS(runtime.GOMAXPROCS(c.Procs))
	}
	done := make(chan any, 1)
	go func() {
		defer func() { done <- recover() }()
		synctest.Test(t, func(st *testing.T) { bubble(c, o) })
	}()
	if r := <-done; r != nil {
		o.Failf("", "the bubble ended abnormally: %v (all goroutines blocked = Wait/Shutdown never returns)", r)
	}
	return o
}

func bubble(c *Case, o *vkit.Outcome) {
	m := model(c)
	var completed, started atomic.Int32
	gate := make(chan struct{})
	var store *closeStore
	var opts []eventbus.Option
	var closedAtCompleted atomic.Int32
	closedAtCompleted.Store(-1)
	if !c.NoStore {
		store = &closeStore{MemoryStore: eventbus.NewMemoryStore()}
		if c.CloseErr {
			store.err = errClose
		}
		store.atClose = func() { closedAtCompleted.Store(completed.Load()) }
		if c.NoCloser {
			opts = append(opts, eventbus.WithStore(store.MemoryStore))
		} else {
			opts = append(opts, eventbus.WithStore(store))
		}
	}
	opts = append(opts, busmodel.Ambient(c.Ambient&^busmodel.AmbStore)...)
	bus := eventbus.New(opts...)
	var nextID atomic.Int32
	nextID.Store(1000)
	body := func(hi int, hctx context.Context, e Ev) {
		h := c.Handlers[hi]
		started.Add(1)
		if h.Gate {
			<-gate
		} else if h.SleepMs > 0 {
			time.Sleep(time.Duration(h.SleepMs) * time.Millisecond)
		}
		if e.Depth < c.MaxDepth && !h.Once {
			for k := 0; k < h.Nest; k++ {
				next := Ev{ID: int(nextID.Add(1)), Depth: e.Depth + 1}
				if c.NestCtx && hctx != nil {
					c.typeAt(e.Depth+1).pubCtx(bus, hctx, next, c.ViaAny)
				} else {
					c.publish(bus, e.Depth+1, next)
				}
			}
		}
		completed.Add(1)
	}
	for hi, h := range c.Handlers {
		hi := hi
		so := []eventbus.SubscribeOption{eventbus.Async()}
		if h.Once {
			so = append(so, eventbus.Once())
			if h.SkipFirst {
				so = append(so, c.typesInUse()[0].notFirst())
			}
		}
		// every type in use gets the same handler set; a Once handler is
		// subscribed for the top-level type only (it is claimed by the first
		// top-level publish and never nests)
		for ti, et := range c.typesInUse() {
			if h.Once && ti > 0 {
				continue
			}
			if h.Ctx {
				et.subCtx(bus, func(ctx context.Context, e Ev) { body(hi, ctx, e) }, so...)
			} else if h.Replay && !c.NoStore {
				if err := et.subReplay(bus, fmt.Sprintf("sub-%d-%d", hi, ti), func(e Ev) { body(hi, nil, e) }, so...); err != nil {
					o.Failf("", "SubscribeWithReplay on an empty log failed: %v", err)
					return
				}
			} else {
				et.sub(bus, func(e Ev) { body(hi, nil, e) }, so...)
			}
		}
	}
	var syncCalls atomic.Int32
	if c.SyncToo {
		for _, et := range c.typesInUse() {
			et.sub(bus, func(e Ev) { syncCalls.Add(1) })
		}
	}
	for p := 0; p < c.Pubs; p++ {
		c.publish(bus, 0, Ev{ID: p + 1})
	}
	exp := int32(m.expected)
	openGate := func() { close(gate) }

	switch c.End {
	case "wait":
		if m.gated {
			var returned atomic.Bool
			go func() { bus.Wait(); returned.Store(true) }()
			synctest.Wait()
			if returned.Load() {
				o.Failf("", "Wait returned while %d asynchronous invocations were still blocked on the gate (%d of %d completed)", exp-completed.Load(), completed.Load(), exp)
				openGate()
				return
			}
			openGate()
			time.Sleep(100 * time.Hour) // fake time: lets every sleeping invocation finish
			synctest.Wait()
			if !returned.Load() {
				o.Failf("", "Wait did not return after all %d invocations completed", exp)
				return
			}
		} else {
			bus.Wait()
		}
		if got := completed.Load(); got != exp {
			o.Failf("", "Wait returned with %d of %d asynchronous invocations completed (started %d)", got, exp, started.Load())
		}
	default:
		ctx := context.Background()
		var cancel context.CancelFunc = func() {}
		expectNil, expectErr := false, false
		switch c.End {
		case "shutdown_bg":
			expectNil = true
		case "shutdown_cancelled":
			ctx, cancel = context.WithCancel(ctx)
			cancel()
			if m.expected > 0 && (m.workEnd > 0 || m.gated) {
				expectErr = true
			}
		case "shutdown_timeout":
			d := m.workEnd
			switch c.Rel {
			case "shorter":
				d = m.workEnd / 2
				if m.workEnd > 0 && d < m.workEnd {
					expectErr = true
				}
				if d == 0 {
					d = time.Nanosecond
					expectErr = m.workEnd > d
				}
			case "longer":
				d = m.workEnd + time.Second
				expectNil = true
			default:
				if d == 0 {
					d = time.Nanosecond
				}
			}
			ctx, cancel = context.WithTimeout(ctx, d)
		}
		defer cancel()
		var err error
		if m.gated {
			// gates stay closed: only a cancelled / expiring context can end Shutdown
			var returned atomic.Bool
			var mu sync.Mutex
			go func() {
				e := bus.Shutdown(ctx)
				mu.Lock()
				err = e
				mu.Unlock()
				returned.Store(true)
			}()
			if c.End == "shutdown_bg" {
				synctest.Wait()
				if returned.Load() {
					o.Failf("", "Shutdown(background) returned while invocations were blocked on the gate (%d of %d completed)", completed.Load(), exp)
					openGate()
					return
				}
				openGate()
				time.Sleep(100 * time.Hour)
				synctest.Wait()
				if !returned.Load() {
					o.Failf("", "Shutdown did not return after the work completed")
					return
				}
				expectNil = true
			} else {
				// wait (fake time) until the context is over and Shutdown has returned
				time.Sleep(m.workEnd + 2*time.Second)
				synctest.Wait()
				if !returned.Load() {
					o.Failf("", "Shutdown did not return although its context ended")
					openGate()
					return
				}
				expectErr, expectNil = true, false
			}
			mu.Lock()
			defer mu.Unlock()
		} else {
			err = bus.Shutdown(ctx)
		}
		doneAtReturn := completed.Load()
		closes := int32(0)
		if store != nil {
			closes = store.closes.Load()
		}
		hasCloser := store != nil && !c.NoCloser
		if err == nil {
			if expectErr {
				o.Failf("", "Shutdown returned nil although its context ended before the work (%v of work, end=%s rel=%s)", m.workEnd, c.End, c.Rel)
			}
			if doneAtReturn != exp {
				o.Failf("", "Shutdown returned nil with %d of %d asynchronous invocations completed", doneAtReturn, exp)
			}
			if hasCloser && !c.CloseErr && closes != 1 {
				o.Failf("", "Shutdown returned nil but the store was closed %d times", closes)
			}
			if hasCloser && c.CloseErr {
				o.Failf("", "Shutdown returned nil although the store's Close failed")
			}
		} else if errors.Is(err, errClose) {
			if doneAtReturn != exp {
				o.Failf("", "store closed with %d of %d invocations completed", doneAtReturn, exp)
			}
			if closes != 1 {
				o.Failf("", "Close error reported but Close was called %d times", closes)
			}
			if expectErr {
				o.Failf("", "Shutdown closed the store although its context ended before the work")
			}
		} else {
			// context error
			if !errors.Is(err, context.Canceled) && !errors.Is(err, context.DeadlineExceeded) {
				o.Failf("", "Shutdown returned unexpected error %v", err)
			}
			if expectNil {
				o.Failf("", "Shutdown returned %v although the work (%v) finishes before the context ends (end=%s rel=%s)", err, m.workEnd, c.End, c.Rel)
			}
			if closes != 0 {
				o.Failf("", "Shutdown returned the context's error (%v) but had closed the store (%d Close calls)", err, closes)
			}
		}
		if v := closedAtCompleted.Load(); v >= 0 && v != exp {
			o.Failf("", "the store was closed when only %d of %d invocations had completed", v, exp)
		}
		// let the remaining work finish, then re-check Close
		if m.gated && c.End != "shutdown_bg" {
			openGate()
		}
		bus.Wait()
		synctest.Wait()
		if err != nil && !errors.Is(err, errClose) && store != nil && store.closes.Load() != 0 {
			o.Failf("", "the store was closed (%d) after Shutdown had returned the context's error", store.closes.Load())
		}
		if completed.Load() != exp {
			o.Failf("", "after quiescence %d of %d invocations completed", completed.Load(), exp)
		}
		// a second Shutdown, after new work has been published
		ctxErr := err != nil && (errors.Is(err, context.Canceled) || errors.Is(err, context.DeadlineExceeded))
		if c.Retry && ctxErr && len(o.Viol) == 0 && c.Pubs > 0 {
			onces := 0
			for _, h := range c.Handlers {
				if h.Once {
					onces++
				}
			}
			exp2 := exp + exp - int32(onces) // the Once handlers are gone, everything else runs again
			for p := 0; p < c.Pubs; p++ {
				c.publish(bus, 0, Ev{ID: 5000 + p})
			}
			err2 := bus.Shutdown(context.Background())
			got := completed.Load()
			if got != exp2 {
				o.Failf("", "second Shutdown (after a first one that returned %v, new publishes in between) returned %v with %d of %d invocations completed", err, err2, got, exp2)
			}
			if store != nil && !c.NoCloser {
				if n := store.closes.Load(); n != 1 {
					o.Failf("", "second Shutdown returned %v and Close was called %d times in total, expected once", err2, n)
				}
				if v := closedAtCompleted.Load(); v != exp2 {
					o.Failf("", "the second Shutdown closed the store when only %d of %d invocations had completed", v, exp2)
				}
				if c.CloseErr != (err2 != nil) {
					o.Failf("", "second Shutdown returned %v (close failure injected: %v)", err2, c.CloseErr)
				}
			} else if err2 != nil {
				o.Failf("", "second Shutdown with a background context returned %v", err2)
			}
			bus.Wait()
			synctest.Wait()
			o.Class("shutdown_retried_after_a_context_error_with_new_work")
		}
	}
	if c.SyncToo && int(syncCalls.Load()) < c.Pubs {
		o.Failf("", "synchronous handler ran %d times for %d top-level publishes", syncCalls.Load(), c.Pubs)
	}
	nested := false
	for _, h := range c.Handlers {
		if h.Nest > 0 && c.MaxDepth > 0 {
			nested = true
		}
	}
	if nested {
		o.Class("nested_async_work")
		if len(c.typesInUse()) >= 2 {
			o.Class("nested_async_work_across_event_types")
		}
	}
	if m.gated {
		o.Class("gated")
	}
	o.Class("end_" + c.End)
	if m.expected > 0 && (m.workEnd > 0 || m.gated) {
		o.Nontrivial = true
		o.Class("wait_or_shutdown_issued_while_work_unfinished")
	}
	_ = fmt.Sprint
}
