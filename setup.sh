#!/bin/bash
# Offline setup: warm the Go build cache for every harness package (plain and,
# where used, race builds).  Uses only files on disk.
set -e
cd "$(dirname "$0")/harness"
export GOFLAGS=-mod=mod GOPROXY=off GOTOOLCHAIN=local
unset GOSUMDB
go1.26.8 build -tags verif ./...
go1.26.8 test -tags verif -count=1 -run '^$' ./... >/dev/null
if [ -f ../tools/race_pkgs.txt ]; then
  go1.26.8 test -tags verif -race -count=1 -run '^$' $(cat ../tools/race_pkgs.txt) >/dev/null
fi
echo setup ok
