#!/usr/bin/env python3
"""Rewrites the seeded-changes table at the end of DESIGN.md section 12 from seeded/*/meta.json."""
import glob, json, re
rows = []
for f in sorted(glob.glob('/verif/seeded/*/meta.json')):
    m = json.load(open(f))
    det = m.get('checks', {})
    caught = ", ".join("%s (%s)" % (k, v['tier']) for k, v in det.items() if v['detected']) or "-"
    missed = ", ".join(k for k, v in det.items() if not v['detected'])
    ok = "yes" if (m.get('suite_passes_with_change') and m.get('demo_fails_with_change') and m.get('demo_passes_without_change')) else "NO"
    note = m.get('note', '')
    rows.append("| %s | %s | %s | %s | %s | %s |" % (m['name'], m['property'], m.get('needs_to_manifest', '').replace('|', '/'), ok, caught, (("missed by " + missed + ". ") if missed else "") + note))
table = "| seeded change | property | what it needs to manifest | confirmed (suite passes, demo fails with / passes without) | caught by | notes |\n|---|---|---|---|---|---|\n" + "\n".join(rows) + "\n"
s = open('/verif/DESIGN.md').read()
start = s.index('<!-- SEEDED-TABLE-BEGIN -->') if '<!-- SEEDED-TABLE-BEGIN -->' in s else None
block = "<!-- SEEDED-TABLE-BEGIN -->\n" + table + "<!-- SEEDED-TABLE-END -->"
if start is None:
    s = s.replace('SEEDED-TABLE-PLACEHOLDER', block)
else:
    s = s[:start] + block + s[s.index('<!-- SEEDED-TABLE-END -->') + len('<!-- SEEDED-TABLE-END -->'):]
open('/verif/DESIGN.md', 'w').write(s)
print("%d seeded changes in the table" % len(rows))
