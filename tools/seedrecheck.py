#!/usr/bin/env python3
"""usage: tools/seedrecheck.py <name> [PROP ...] [--tier quick|thorough]
Re-runs checks against a kept seeded change (/verif/seeded/<name>/patch.diff
applied to a scratch copy of /repo under /tmp) and updates the "checks" part
of its meta.json; suite/demo confirmations recorded by seedeval.py are kept.
Without PROP arguments the checks already listed in meta.json are re-run."""
import json, os, shutil, subprocess, sys, tempfile

def main():
    a = sys.argv[1:]
    tier = "quick"
    if "--tier" in a:
        i = a.index("--tier"); tier = a[i+1]; del a[i:i+2]
    name, props = a[0], a[1:]
    out = "/verif/seeded/" + name
    meta = json.load(open(out + "/meta.json"))
    props = props or list(meta.get("checks", {}).keys()) or [meta["property"]]
    scratch = tempfile.mkdtemp(prefix="seedre.", dir="/tmp")
    try:
        repo = scratch + "/repo"
        subprocess.run(["rsync", "-a", "--exclude", ".git", "/repo/", repo + "/"], check=True)
        p = subprocess.run("patch -p1 -s < %s/patch.diff" % out, shell=True, cwd=repo, stdout=subprocess.PIPE, stderr=subprocess.STDOUT, text=True)
        if p.returncode != 0:
            print("%s: patch does not apply: %s" % (name, p.stdout[-300:])); return
        for prop in props:
            env = dict(os.environ, VERIF_REPO=repo, VERIF_REPLAY_DIR=scratch + "/replays", VERIF_EVIDENCE_DIR=scratch + "/evidence", GOTOOLCHAIN="local", GOFLAGS="-mod=mod")
            try:
                r = subprocess.run(["/verif/check", prop, tier], cwd="/verif", env=env, stdout=subprocess.PIPE, stderr=subprocess.STDOUT, text=True, timeout=3600)
                rc, o = r.returncode, r.stdout
            except subprocess.TimeoutExpired as ex:
                rc, o = 124, (ex.stdout or "") + "\nTIMEOUT"
            hit = rc == 1 and "VIOLATION property=" in o
            meta.setdefault("checks", {})[prop] = {"tier": tier, "detected": hit, "rc": rc, "tail": o[-1500:] if hit else o[-600:], "rechecked": True}
    finally:
        shutil.rmtree(scratch, ignore_errors=True)
    json.dump(meta, open(out + "/meta.json", "w"), indent=1)
    print("%s: detected=%s" % (name, {k: v["detected"] for k, v in meta["checks"].items()}))

main()
