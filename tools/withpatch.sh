#!/bin/bash
# usage: tools/withpatch.sh <patch file> <check args...>
# Runs ./check against a scratch copy of /repo with the patch applied
# (VERIF_REPO), leaving /repo, /verif/evidence and /verif/replays untouched.
set -u
patch_file=$(readlink -f "$1"); shift
scratch=$(mktemp -d /tmp/withpatch.XXXXXX)
trap 'rm -rf "$scratch"' EXIT
rsync -a --exclude .git /repo/ "$scratch/repo/"
(cd "$scratch/repo" && patch -p1 -s < "$patch_file") || { echo "patch does not apply"; exit 3; }
cd /verif
VERIF_REPO="$scratch/repo" VERIF_REPLAY_DIR="$scratch/replays" VERIF_EVIDENCE_DIR="$scratch/evidence" ./check "$@"
rc=$?
if [ -d "$scratch/replays" ]; then for f in "$scratch"/replays/*.json; do [ -f "$f" ] && { echo "--- $f"; head -c 1500 "$f"; echo; break; }; done; fi
exit $rc
