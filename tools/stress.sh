#!/bin/bash
# usage: tools/stress.sh [rounds] [parallel]
# Runs every quick check at changing VERIF_SEED values, several at a time, so
# that the machine is oversubscribed; prints every result that is not OK.
# Evidence and replays go to a scratch directory.
rounds=${1:-2}; par=${2:-6}
scratch=$(mktemp -d /tmp/stress.XXXXXX)
trap 'rm -rf "$scratch"' EXIT
cd /verif
for r in $(seq 1 "$rounds"); do
  for p in C01 C02 C03 C04 C05 C06 C07 C08 C09 C10 C11 C12 C13 C14 C15 C16 C17 C18 C19 C20; do echo "$p $((100 + r))"; done
done | xargs -P "$par" -L 1 bash -c 'VERIF_SEED=$1 VERIF_EVIDENCE_DIR='"$scratch"'/ev-$0-$1 VERIF_REPLAY_DIR='"$scratch"'/rp-$0-$1 ./check $0 quick 2>&1 | grep -v KNOWN-FINDING | tail -1 | sed "s/^/[$0 seed $1] /"' | tee "$scratch/all.log" | grep -v "\] OK " 
echo "stress: $(grep -c "\] OK " "$scratch/all.log") OK of $(wc -l < "$scratch/all.log")"
for f in "$scratch"/rp-*/*.json; do [ -f "$f" ] && { echo "--- $f"; head -c 1200 "$f"; echo; }; done
