#!/bin/bash
# usage: tools/replayall.sh
# Re-runs every saved failing case under /verif/replays against /repo's
# current tree (through ./check <ID> quick --replay <file>, which bypasses the
# generators).  The files are the shrunk cases of violations met while the
# framework was built - defects since repaired by "fix:" commits and false
# alarms since corrected in the oracles - so each of them must report
# "no violation" now.  Exit 1 if one of them fails again.
cd /verif
bad=0
scratch=$(mktemp -d /tmp/replayall.XXXXXX)
trap 'rm -rf "$scratch"' EXIT
for f in replays/*.json; do
  [ -f "$f" ] || continue
  id=$(basename "$f" | cut -c1-3)
  out=$(VERIF_EVIDENCE_DIR="$scratch" ./check "$id" quick --replay "$f" 2>&1 | tail -1)
  echo "$f => $out"
  case "$out" in *"no violation"*) ;; *) bad=1 ;; esac
done
exit $bad
