#!/usr/bin/env python3
"""Regenerates /verif/MANIFEST.json from tools/props.py (single source of truth)."""
import json, os, sys
sys.path.insert(0, os.path.dirname(os.path.abspath(__file__)))
from props import PROPS, NOT_APPLICABLE, HOOK_COMMITS

ids = [json.loads(l)["id"] for l in open("/verif/properties.jsonl")]
checks = []
for pid in ids:
    if pid not in PROPS:
        continue
    c = PROPS[pid]
    checks.append({
        "property_id": pid,
        "quick_cmd": "./check %s quick" % pid,
        "thorough_cmd": "./check %s thorough" % pid,
        "evidence_file": "/verif/evidence/%s.json" % pid,
        "replay_cmd_template": "./check %s --replay {path}" % pid,
        "engine": "rapid-harness",
        "level_claimed": {"category": c["level"], "text": c["level_text"], "design_ref": "DESIGN.md section 5, " + pid},
        "level_note": c["level_note"],
        "technique": c["technique"],
    })
na = [{"property_id": p, "reason": NOT_APPLICABLE[p]} for p in ids if p not in PROPS]
for p in ids:
    if p not in PROPS and p not in NOT_APPLICABLE:
        raise SystemExit("property %s neither claimed nor listed not_applicable" % p)
m = {
    "version": 1,
    "setup_cmd": "./setup.sh",
    "hooks": {
        "guard": "verif",
        "enable": "go1.26.8 test -tags verif (set by ./check for every build)",
        "baseline_off_cmd": "for m in . ./otel ./stores/durablestream ./stores/sqlite; do (cd /repo/$m && GOFLAGS=-mod=mod go test -json -vet=off -count=1 -timeout 25m ./...); done",
        "source_commits": HOOK_COMMITS,
        "add_only": True,
    },
    "engines": [{
        "name": "rapid-harness",
        "path": "/verif/harness",
        "serves_properties": [c["property_id"] for c in checks],
        "kind_free_text": "Go module 'verif': per-property generator -> JSON case -> interpreter + oracle, driven by pgregory.net/rapid v1.3.0 (stateful generation, shrinking), native go fuzzing and exhaustive enumerators of small sub-spaces; ./check shards it over processes, writes evidence and maps outcomes to exit codes",
    }],
    "checks": checks,
    "not_applicable": na,
    "notes": open("/verif/tools/manifest_notes.txt").read().strip() if os.path.exists("/verif/tools/manifest_notes.txt") else "",
}
json.dump(m, open("/verif/MANIFEST.json", "w"), indent=1)
print("wrote MANIFEST.json: %d checks, %d not_applicable" % (len(checks), len(na)))
