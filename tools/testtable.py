#!/usr/bin/env python3
"""Rewrites the block between <!-- TESTS-BEGIN --> and <!-- TESTS-END --> in
DESIGN.md with the current list of tests per property (from tools/props.py)
and, where an evidence file exists, the counts of its last run."""
import json, os, re, sys
sys.path.insert(0, "/verif/tools")
from props import PROPS

rows = ["| property | test | cases quick / thorough (x processes) | race | kind |", "|---|---|---|---|---|"]
for pid in sorted(PROPS):
    for t in PROPS[pid]["tests"]:
        kind = "native fuzz (s)" if t.get("fuzz") else ("enumeration / probes" if t.get("rapid") is False else "rapid")
        q, th = t.get("quick", 0), t.get("thorough", 0)
        cases = "%s / %s x %s" % (q if q else "-", th, t.get("shards_thorough", 1))
        rows.append("| %s | %s | %s | %s | %s |" % (pid, t["name"], cases, "yes" if t.get("race") else "", kind))
block = "\n".join(rows)
p = "/verif/DESIGN.md"
s = open(p).read()
s2 = re.sub(r"<!-- TESTS-BEGIN -->.*?<!-- TESTS-END -->", "<!-- TESTS-BEGIN -->\n" + block + "\n<!-- TESTS-END -->", s, flags=re.S)
open(p, "w").write(s2)
print("%d tests in the table" % (len(rows) - 2))
