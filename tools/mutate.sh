#!/bin/bash
# usage: tools/mutate.sh <patch> <property> [tier] [--baseline]
# Applies <patch> to a scratch copy of /repo (outside /repo and /verif), runs
# the property's check against the copy and reports whether it was detected.
set -u
patch=$(realpath "$1"); prop=$2; tier=${3:-quick}; baseline=${4:-}
scratch=$(mktemp -d /tmp/mut.XXXXXX)
trap 'rm -rf "$scratch"' EXIT
rsync -a --exclude .git /repo/ "$scratch/repo/"
if ! (cd "$scratch/repo" && patch -p1 -s < "$patch"); then echo "MUTANT $(basename $patch) $prop: PATCH-FAILED"; exit 3; fi
if [ -n "$baseline" ]; then
  fails=0
  for m in . otel stores/durablestream stores/sqlite; do
    (cd "$scratch/repo/$m" && GOFLAGS=-mod=mod go test -vet=off -count=1 -timeout 25m ./... >"$scratch/base.log" 2>&1) || { fails=1; tail -20 "$scratch/base.log"; }
  done
  [ $fails = 0 ] && echo "baseline: pass" || echo "baseline: FAIL (mutant is caught by the suite)"
fi
out=$(cd /verif && VERIF_REPO="$scratch/repo" ./check "$prop" "$tier" 2>&1); rc=$?
if [ $rc = 1 ] && echo "$out" | grep -q '^VIOLATION'; then echo "MUTANT $(basename $patch) $prop: DETECTED"; echo "$out" | grep -m3 -E 'VIOLATION|failed after' ; exit 0; fi
echo "MUTANT $(basename $patch) $prop: MISSED (rc=$rc)"; echo "$out" | tail -5; exit 1
