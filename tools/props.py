"""Per-property configuration of the check driver.

Each test entry: name (Go test function), quick / thorough (rapid case count
per shard), shards_quick / shards_thorough (processes), race (build with the
race detector), rapid (False for non-rapid enumerators), env (extra env).
"""

COMMON_ASSUME = [
    "the Go toolchain, runtime and race detector are correct",
    "pgregory.net/rapid draws and shrinks faithfully",
    "the harness's reference model states the property (DESIGN.md section 5)",
]

PROPS = {
    "C01": dict(
        pkg="c01", level="exploration",
        technique="model-based property testing (rapid): generated re-entrant call histories vs an independent registry model",
        level_text="Random search over generated call histories (20k quick, ~1M thorough) with a reference registry model compared after every step; finds counterexamples and shrinks them, does not prove absence.",
        level_note="Trusts the reference model (c01/case.go) as the statement of the property; Unsubscribe identity = code pointer; asynchronous deliveries compared after bus.Wait().",
        assumptions=COMMON_ASSUME + [
            "handler identity is the code pointer of the function literal (what Unsubscribe compares)",
            "bus.Wait() is called after every top-level operation so asynchronous deliveries can be compared as a multiset",
        ],
        tests=[
            dict(name="TestHistory", quick=20000, thorough=480000, shards_thorough=16),
        ],
    ),
    "C04": dict(
        pkg="c04", level="exploration",
        technique="model-based property testing of sequential histories + free-running concurrent publishers under the race detector (rapid)",
        level_text="Random search: sequential histories against a model of Once consumption (eligible / filtered / cancelled publishes) and generated concurrent publisher programs run 20 times each on fresh buses with barrier start, drawn GOMAXPROCS and Gosched noise. Schedules are sampled, not enumerated.",
        level_note="The concurrent part observes only the interleavings the Go scheduler produces; at-most-once / exactly-once are asserted after Wait.",
        crash_is_violation=True,
        assumptions=COMMON_ASSUME + ["a context cancelled before PublishContext is called is what 'already cancelled' means; cancellation during a publish is not generated here"],
        tests=[
            dict(name="TestSeq", quick=5000, thorough=480000, shards_thorough=8),
            dict(name="TestKnownProbes", quick=1, thorough=1, shards_thorough=1, rapid=False),
            dict(name="TestConc", quick=300, thorough=20000, shards_thorough=8, race=True, shrinktime="2s"),
            dict(name="TestOnceWhileDraining", quick=400, thorough=20000, shards_thorough=16, shrinktime="5s"),
        ],
    ),
    "C05": dict(
        pkg="c05", level="exploration",
        technique="model-based property testing (rapid) of handler arrangements with injected panics, real-time watchdog for hangs",
        level_text="Random search over handler lists (every kind/option combination, position, panic timing and panic value) with an exact model of which invocations and panic-handler calls must happen; hangs (leaked Sequential lock, lost Done) are found by a 20 s watchdog confirmed by a second run.",
        level_note="Panics in filters, hooks and in the panic handler itself are outside the property; a process crash while a case runs is attributed to that case.",
        crash_is_violation=True,
        assumptions=COMMON_ASSUME + ["no generated handler blocks, so a 20 s hang reproduced twice is a lost unlock/Done, not load"],
        tests=[
            dict(name="TestPanicHandlerReenters", quick=1500, thorough=100000, shards_thorough=8, shrinktime="5s"),
            dict(name="TestPanics", quick=6000, thorough=300000, shards_thorough=16),
        ],
    ),
    "C08": dict(
        pkg="c08", level="exploration",
        technique="property-based testing (rapid) with history invariants over a recorded call trace",
        level_text="Random search over handler lists, cancellation points and hook subsets; the oracle is a set of ordering/exactly-once rules evaluated on the recorded trace of hook and handler calls.",
        level_note="Cancellation by an asynchronous handler has no determined timing: only at-most-once is asserted for those cases. Hook contexts are not inspected (the property speaks of handler contexts).",
        assumptions=COMMON_ASSUME + ["trace order is the order in which user code was entered (one mutex-protected append per call)"],
        tests=[
            dict(name="TestCtxHooks", quick=8000, thorough=1200000, shards_thorough=16),
            dict(name="TestHooksUnderRegistryChanges", quick=3000, thorough=300000, shards_thorough=4),
        ],
    ),
    "C06": dict(
        pkg="c06", level="exploration",
        technique="property-based testing (rapid) inside testing/synctest bubbles: fake clock, gate-blocked handlers and a timing model as oracle",
        level_text="Random search over async workloads (nesting, Once, sleeps on a fake clock, gate-blocked handlers), processor counts and Wait/Shutdown variants; 'returned too early' is observed without timing through gates and synctest quiescence, 'never returns' through the bubble's deadlock detection.",
        level_note="Schedules inside the Go scheduler are sampled (GOMAXPROCS varied), not enumerated; Sequential handlers are left to C07.",
        assumptions=COMMON_ASSUME + ["testing/synctest's fake clock and quiescence detection are faithful", "Wait is called on the publishing goroutine after the last publish (concurrent Wait||Publish is C03's business)"],
        tests=[
            dict(name="TestWaitShutdown", quick=4000, thorough=240000, shards_thorough=12),
            dict(name="TestCancelDuringDispatch", quick=1500, thorough=120000, shards_thorough=4),
            dict(name="TestPanicWorkCovered", quick=2000, thorough=100000, shards_thorough=4),
            dict(name="TestExactlyOnce", quick=1500, thorough=60000, shards_thorough=6, shrinktime="5s"),
            dict(name="TestCancelWhileRunning", quick=6000, thorough=200000, shards_thorough=6),
            dict(name="TestWaitTrickle", quick=60, thorough=3000, shards_thorough=8, shrinktime="5s"),
            dict(name="TestWaitRace", quick=60, thorough=3600, shards_thorough=4, race=True, shrinktime="5s"),
        ],
    ),
    "C07": dict(
        pkg="c07", level="exploration",
        technique="property-based stress testing (rapid-generated concurrent programs, race detector) with an overlap detector and an order oracle",
        level_text="Generated publisher programs run free on real goroutines (barrier start, drawn GOMAXPROCS, yields inside the critical section); a compare-and-swap in the handler body detects any overlap, multisets and sequences of delivered ids are compared with what was published. Schedules are sampled, not enumerated.",
        level_note="An overlap is only seen on an interleaving that actually happens; yields inside the critical section make the window wide.",
        crash_is_violation=True,
        assumptions=COMMON_ASSUME + ["'publish order' is the order of Publish calls made by one goroutine (README: 'preserves order')"],
        tests=[
            dict(name="TestOverlap", quick=400, thorough=20000, shards_thorough=8, race=True, shrinktime="5s"),
            dict(name="TestOrder", quick=3000, thorough=150000, shards_thorough=8, shrinktime="5s"),
            dict(name="TestBurst", quick=120, thorough=6000, shards_thorough=4, shrinktime="5s"),
            dict(name="TestIndependentLines", quick=1500, thorough=100000, shards_thorough=8, shrinktime="5s"),
        ],
    ),
    "C10": dict(
        pkg="c10", level="exploration",
        technique="model-based property testing (rapid): generated Append/Read/ReadStream/SaveOffset/LoadOffset/reopen sequences on each bundled store vs a reference slice, offsets bound to log positions",
        level_text="Random search over operation sequences and event values, run against the memory, SQLite (file and :memory:) and durable-streams stores and a reference log; every offset ever returned is bound to one log position, so any chain of reads is checked for gaps and repeats. Known findings are excluded by construction (counted) and re-observed by deterministic probes.",
        level_note="The durable-streams server is the client library's in-memory reference server run in-process (its chunking and float64 number decoding are infrastructure, not ebu). Timestamps outside years 1-9999 and invalid UTF-8 are not generated.",
        assumptions=COMMON_ASSUME + ["the in-process durable-streams reference server (memorystorage + NewHandler) is faithful to the protocol", "JSON documents are compared structurally with exact decimal numbers; timestamps by instant"],
        tests=[
            dict(name="TestMemory", quick=3000, thorough=80000, shards_thorough=6),
            dict(name="TestSQLite", quick=300, thorough=8000, shards_thorough=10, shrinktime="20s"),
            dict(name="TestSQLiteMemory", quick=150, thorough=3000, shards_thorough=2, shrinktime="20s"),
            dict(name="TestDurable", quick=1500, thorough=25000, shards_thorough=6, shrinktime="20s"),
            dict(name="TestConcurrentAppend", quick=120, thorough=3000, shards_thorough=8, race=True, shrinktime="5s"),
            dict(name="TestKnownProbes", quick=1, thorough=1, shards_thorough=1, rapid=False),
            dict(name="FuzzRoundTrip", quick=0, thorough=120, shards_thorough=1, fuzz=True, rapid=False, fuzz_workers=8),
        ],
    ),
    "C11": dict(
        pkg="c11", level="fault_enumeration",
        technique="fault injection at every position of generated logs (rapid) plus complete enumeration of the small sub-space, oracle = prefix/completeness rules R1-R7",
        level_text="The deciding step is the placement of an injected fault (callback error, cancellation, store/driver/HTTP failure, undecodable row) at every position of a log, for every store configuration and start offset: enumerated completely for logs of up to 3 (quick) / 6 (thorough) events and sampled by rapid for logs of up to 25.",
        level_note="SQLite read errors are injected through the guarded database-opener hook and a wrapping database/sql driver; durable-streams faults through an in-process RoundTripper. Durable-streams replay batches smaller than a chunk are a listed known finding and are not generated (probed separately).",
        assumptions=COMMON_ASSUME + ["database/sql surfaces a driver Rows.Next error through Rows.Err", "the in-process durable-streams reference server is faithful"],
        tests=[
            dict(name="TestReplayMemory", quick=6000, thorough=120000, shards_thorough=4),
            dict(name="TestReplaySQLite", quick=500, thorough=15000, shards_thorough=8, shrinktime="15s"),
            dict(name="TestReplayDurable", quick=1500, thorough=60000, shards_thorough=4, shrinktime="15s"),
            dict(name="TestEnumSmall", quick=1, thorough=1, shards_quick=4, shards_thorough=16, rapid=False),
            dict(name="TestReplayWhileAppending", quick=300, thorough=12000, shards_thorough=8, shrinktime="5s"),
            dict(name="TestKnownProbes", quick=1, thorough=1, shards_thorough=1, rapid=False),
        ],
    ),
    "C09": dict(
        pkg="c09", level="exploration",
        technique="property-based testing (rapid) over option permutations, event shapes, stores and concurrent publishers; complete enumeration of hook-option orders; oracle = record-before-dispatch observed from inside handlers + final log audit",
        level_text="Random search over option orders, event values and publisher interleavings on all three stores, plus complete enumeration of the 1631 orders of the hook-affecting options. Handlers read the store while they run, so 'recorded before delivered' is observed directly.",
        level_note="Concurrent interleavings are sampled (race detector on). Offsets of the SQLite store are compared by (length, text) here; the lexicographic caveat is C10's known finding.",
        crash_is_violation=True,
        assumptions=COMMON_ASSUME + ["events carry a unique id field by which their record is found"],
        tests=[
            dict(name="TestPersistSeq", quick=1500, thorough=90000, shards_thorough=6),
            dict(name="TestPersistConc", quick=200, thorough=7500, shards_thorough=6, race=True, shrinktime="10s"),
            dict(name="TestPersistSQLite", quick=100, thorough=6000, shards_thorough=4, shrinktime="15s"),
            dict(name="TestPersistDurable", quick=200, thorough=12000, shards_thorough=2, shrinktime="15s"),
            dict(name="TestEnumOptionOrders", quick=1, thorough=1, shards_thorough=1, rapid=False),
            dict(name="TestAbortedPublish", quick=2500, thorough=200000, shards_thorough=8),
            dict(name="TestShapes", quick=1500, thorough=100000, shards_thorough=4),
        ],
    ),
    "C13": dict(
        pkg="c13", level="fault_enumeration",
        technique="fault-sequence generation (rapid): every publish of a run tagged with a failure kind injected through a wrapper store, oracle = delivery/report/attempt counts and final log audit",
        level_text="Generated patterns of failing and succeeding persistence over runs of up to 30 publishes (unencodable events, rejected appends, timeouts via a store that blocks until the persistence context ends, closed SQLite store), including failures on the first publish of a fresh bus and consecutive failures; counts of deliveries, reports and Append attempts and the final log are compared with the pattern.",
        level_note="Timeouts are real 2 ms contexts that the blocking wrapper waits for, so no timing assumption is involved.",
        assumptions=COMMON_ASSUME + ["the wrapper store sees every Append attempt of the bus"],
        tests=[
            dict(name="TestFailuresMemory", quick=1200, thorough=60000, shards_thorough=12),
            dict(name="TestConcurrentOutcome", quick=300, thorough=20000, shards_thorough=8, shrinktime="5s"),
            dict(name="TestFailuresSQLite", quick=200, thorough=10000, shards_thorough=4, shrinktime="15s"),
        ],
    ),
    "C15": dict(
        pkg="c15", level="exploration",
        technique="complete enumeration of the shape x API product plus property-based sampling (rapid) of values, noise and option order; oracle = agreement of every name-deriving path with EventType",
        level_text="The 10 event shapes x 5 name-deriving APIs (x both option orders) are enumerated completely on every run, and sampled with generated ids, strings, interleaved events of other shapes; each typed API must select exactly the stored events published as T.",
        level_note="TypeNamer implementations whose name depends on the value are not considered (a static type then has no single name).",
        assumptions=COMMON_ASSUME,
        tests=[
            dict(name="TestProduct", quick=1, thorough=1, shards_thorough=1, rapid=False),
            dict(name="TestRandom", quick=3000, thorough=800000, shards_thorough=8),
            dict(name="TestFlakyStore", quick=3000, thorough=300000, shards_thorough=4),
        ],
    ),
    "C16": dict(
        pkg="c16", level="exploration",
        technique="model-based property testing (rapid) of registration sequences vs graph reachability, exhaustive enumeration of short sequences, concurrent pairs under the race detector",
        level_text="Registration/clear sequences are compared step by step with a reference graph (acceptance <=> no path back), every sequence of up to 3/4 registrations over 3 names is enumerated completely, and after each step upcasting of every stored type must terminate (observed through an application budget, not a timeout). Racing pairs are checked against both serial orders.",
        level_note="Concurrent schedules are sampled (50 rounds per pair).",
        crash_is_violation=True,
        assumptions=COMMON_ASSUME + ["an event needing more than |names|+2 upcaster applications is looping (the registered graph has at most |names| nodes)"],
        tests=[
            dict(name="TestSequences", quick=8000, thorough=600000, shards_thorough=8),
            dict(name="TestEnumSmall", quick=1, thorough=1, shards_quick=2, shards_thorough=16, rapid=False),
            dict(name="TestLongChains", quick=1500, thorough=100000, shards_thorough=4),
            dict(name="TestConcurrentPairs", quick=300, thorough=30000, shards_thorough=4, race=True, shrinktime="5s"),
            dict(name="TestReplayWhileWriting", quick=600, thorough=20000, shards_thorough=8, race=True, shrinktime="5s"),
        ],
    ),
    "C17": dict(
        pkg="c17", level="exploration",
        technique="model-based property testing (rapid): generated acyclic upcaster graphs, payloads and failure positions vs a reference walk; typed chains vs json.Marshal(f(decoded))",
        level_text="Random search over upcaster graph shapes (chains, branches, several upcasters per source), stored types/payloads and the position of a failing step; the callback's view of every event is compared with an independent walk along first-registered upcasters.",
        level_note="Graphs are acyclic by construction (C16 covers acceptance); at most one failing upcaster per case.",
        assumptions=COMMON_ASSUME,
        tests=[
            dict(name="TestRawGraph", quick=4000, thorough=250000, shards_thorough=10),
            dict(name="TestTypedChain", quick=3000, thorough=300000, shards_thorough=6),
            dict(name="TestConcurrentReplays", quick=3000, thorough=60000, shards_thorough=8, shrinktime="5s"),
            dict(name="TestLongChain", quick=600, thorough=30000, shards_thorough=4),
            dict(name="TestClearDuringChain", quick=800, thorough=20000, shards_thorough=8, shrinktime="5s"),
            dict(name="FuzzGraph", quick=0, thorough=120, shards_thorough=1, fuzz=True, rapid=False, fuzz_workers=8),
        ],
    ),
    "C18": dict(
        pkg="c18", level="exploration",
        technique="model-based property testing (rapid): generated state-protocol message sequences vs a last-writer-wins fold, metamorphic split into two replay sessions",
        level_text="Random search over message sequences (all operations, several entity types incl. an unregistered one and one containing the key separator, keys containing the separator, strict and non-strict) compared with a reference fold after one session and after two sessions resumed from LastOffset.",
        level_note="Collections use separate stores (the documented usage); callbacks are counted, not timed.",
        assumptions=COMMON_ASSUME,
        tests=[
            dict(name="TestFold", quick=5000, thorough=150000, shards_thorough=16),
        ],
    ),
    "C19": dict(
        pkg="c19", level="exploration",
        technique="round-trip property testing (rapid) over entities, keys, options and stores; structure-aware and random hostile inputs to Apply with a no-damage oracle; native go fuzzing in the thorough tier",
        level_text="Round trips of generated entities through constructors, publish, each store, replay and a strict materializer are compared with the originals; hostile inputs (random bytes, special documents, mutated valid messages, coverage-guided fuzzing in thorough) must never panic and an error must leave every collection and LastOffset untouched.",
        level_note="Invalid UTF-8 keys are not generated (JSON cannot carry them). Native fuzzing cannot be pinned to a seed; its saved crasher is the reproducible unit.",
        assumptions=COMMON_ASSUME + ["the in-process durable-streams reference server is faithful"],
        tests=[
            dict(name="TestRoundTripMemory", quick=2000, thorough=60000, shards_thorough=4),
            dict(name="TestRoundTripSQLite", quick=150, thorough=5000, shards_thorough=3, shrinktime="15s"),
            dict(name="TestRoundTripDurable", quick=300, thorough=10000, shards_thorough=2, shrinktime="15s"),
            dict(name="TestNullEntities", quick=2000, thorough=200000, shards_thorough=4),
            dict(name="TestHostile", quick=20000, thorough=200000, shards_thorough=6),
            dict(name="FuzzApply", quick=0, thorough=180, shards_thorough=1, fuzz=True, rapid=False, fuzz_workers=8),
        ],
    ),
    "C20": dict(
        pkg="c20", level="exploration",
        technique="property-based testing (rapid) of workloads against a recording Observability (token threading) and against the OpenTelemetry implementation (SDK span recorder, End-counting tracer wrapper, manual metric reader); oracle = pairing/nesting invariants and the harness's own ground-truth counts",
        level_text="Random search over workloads mixing handler kinds, panics, filters, Once, cancelled contexts and succeeding/failing/absent persistence; start/complete pairing, context threading, span parentage, span end counts and the five counters are compared with counts the harness takes itself (handler bodies entered, panics raised, Append attempts and failures seen by a wrapper store).",
        level_note="Span leaks are judged after bus.Wait(); durations are not inspected.",
        assumptions=COMMON_ASSUME + ["the OpenTelemetry SDK's span recorder and manual reader report faithfully"],
        tests=[
            dict(name="TestRecording", quick=3000, thorough=600000, shards_thorough=8),
            dict(name="TestOTel", quick=1000, thorough=160000, shards_thorough=8),
            dict(name="TestOTelStress", quick=16, thorough=200, shards_thorough=8, shrinktime="10s"),
        ],
    ),
    "C14": dict(
        pkg="c14", level="fault_enumeration",
        technique="crash-point injection: a child process runs generated workloads (rapid) and is SIGKILLed at a drawn acknowledgement; the parent audits the reopened database against the acknowledgements",
        level_text="The deciding step is where the process is killed: after every acknowledgement position of generated append/save workloads (with a drawn sub-millisecond delay so the kill lands inside the next operation), or a clean close, over 1-4 cycles on one file followed by repeated reopening. Crash points are sampled by rapid (each case = one placement per cycle).",
        level_note="SIGKILL keeps the OS page cache, so power-loss durability (synchronous=NORMAL vs FULL) cannot be distinguished here.",
        assumptions=COMMON_ASSUME + ["an acknowledgement line written to the pipe before the kill is read by the parent after the child's death", "the OS keeps written pages of a killed process (no power loss)"],
        tests=[
            dict(name="TestKillReopen", quick=150, thorough=3000, shards_thorough=16, shrinktime="30s"),
            dict(name="TestKillConcurrent", quick=80, thorough=2000, shards_thorough=16, shrinktime="20s"),
            dict(name="TestAckedInProcess", quick=400, thorough=8000, shards_thorough=8),
            dict(name="TestFirstOpenInterrupted", quick=150, thorough=3000, shards_thorough=8),
        ],
    ),
    "C03": dict(
        pkg="c03", level="exploration",
        technique="fuzzing of generated concurrent API programs (rapid) under the Go race detector with per-case attribution of reports, plus a hang watchdog",
        level_text="Random search over concurrent mixes of the whole public surface (bus, persistence, upcasts, bundled stores, materializer) with re-entrant calls from handlers, filters and hooks, run free on real goroutines under the race detector with barrier start, drawn GOMAXPROCS and yield noise; a race report, an API panic or a reproducible 60 s hang is a violation. The detector only sees interleavings that execute: absence of races is never shown.",
        level_note="Excluded by construction: configuration setters, Wait/Shutdown from inside handlers, publishes from inside Sequential handlers (the documented self-delivery and its transitive forms; their other nested calls - unsubscribe, subscribe, clear, queries - are generated). Races whose report has no jilio/ebu frame are recorded, not reported.",
        crash_is_violation=True,
        assumptions=COMMON_ASSUME + ["a race report appended to the detector's log file while a case runs belongs to that case (cases run one at a time)"],
        tests=[
            dict(name="TestPrograms", quick=300, thorough=16000, shards_thorough=12, race=True, shrinktime="20s",
                 gorace="log_path={sdir}/race suppress_equal_stacks=0 suppress_equal_addresses=0", timeout_quick=1200),
            dict(name="TestMaterializerStorm", quick=150, thorough=4000, shards_thorough=8, race=True, shrinktime="20s",
                 gorace="log_path={sdir}/race suppress_equal_stacks=0 suppress_equal_addresses=0", timeout_quick=1200),
        ],
    ),
    "C02": dict(
        pkg="c02", level="exploration",
        technique="schedule fuzzing with a harness-owned cooperative scheduler (rapid draws the schedule; testing/synctest bubbles), exhaustive schedule enumeration for small programs, free-running stress under the race detector; oracle = real-time-order history invariants",
        level_text="Interleavings are inputs: generated programs run under a cooperative scheduler whose context switches happen at every point where user code runs, with the schedule drawn by rapid (so it shrinks and replays); programs of 2 tasks x <=2 operations on one type are run under every schedule; the same programs also run free on real goroutines under the race detector. The recorded history is checked against definitely-in / definitely-out delivery rules, Unsubscribe results, HandlerCount bounds and a quiescence probe.",
        level_note="Points inside bus code with no user callback in between (e.g. between the once claim and the call) are not scheduling points; those windows are only exercised by the free-running mode. Search, not enumeration, beyond the small sub-space.",
        crash_is_violation=True,
        assumptions=COMMON_ASSUME + ["testing/synctest quiescence (synctest.Wait) is faithful", "no bus lock is held while user code runs - a violation of this shows as a 60 s hang and is reported"],
        tests=[
            dict(name="TestScheduled", quick=6000, thorough=180000, shards_thorough=8),
            dict(name="TestExhaustiveSmall", quick=150, thorough=1500, shards_thorough=6, shrinktime="10s"),
            dict(name="TestFreeRunning", quick=600, thorough=18000, shards_thorough=4, race=True, shrinktime="5s"),
        ],
    ),
    "C12": dict(
        pkg="c12", level="fault_enumeration", crash_is_violation=True,
        technique="model-based histories of runs with a crash or fault injected at a drawn store operation (rapid; wrapper stores that kill the 'process'), oracle = delivery/log/saved-offset invariants across restarts",
        level_text="The deciding step is the placement of a crash (before/after) or a failure at any individual store operation of a run - Append, Read, stream row, SaveOffset, LoadOffset - in generated histories of publishes, SubscribeWithReplay calls and restarts on all three stores, including publishes issued from inside a running SubscribeWithReplay; deliveries over all runs are compared with the persisted log and the observed SaveOffset calls.",
        level_note="After a crash nothing reaches the stores and later deliveries of that run are ignored (the bus object keeps running, the process is considered dead). Durable-streams runs use one event per chunk so that synthetic event offsets are true resume points (the other shapes are C10's known finding). Other subscribers never re-publish the subscribed types. Concurrent publishers run under the cooperative scheduler (switch points: between a publish's append and its dispatch, at handlers, before SaveOffset) with the process dying at a drawn step.",
        assumptions=COMMON_ASSUME + ["the wrapper stores see every store operation of the bus", "a crash is modelled as: no further store operation takes effect"],
        tests=[
            dict(name="TestResumeMemory", quick=4000, thorough=160000, shards_thorough=10, shrinktime="20s"),
            dict(name="TestResumeSQLite", quick=120, thorough=6000, shards_thorough=4, shrinktime="20s"),
            dict(name="TestResumeDurable", quick=300, thorough=16000, shards_thorough=2, shrinktime="20s"),
            dict(name="TestScheduledPublishers", quick=3000, thorough=160000, shards_thorough=4, shrinktime="20s"),
            dict(name="TestFreePublishers", quick=300, thorough=12000, shards_thorough=4, race=True, shrinktime="5s"),
            dict(name="TestKnownProbes", quick=1, thorough=1, shards_thorough=1, rapid=False),
        ],
    ),
}

HOOK_COMMITS = ["99604d0"]

_NOT_YET = "check not built yet in this session (work in progress; see DESIGN.md section 9 build order)"
NOT_APPLICABLE = {("C%02d" % i): _NOT_YET for i in range(1, 21) if ("C%02d" % i) not in PROPS}
