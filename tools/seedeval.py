#!/usr/bin/env python3
"""usage: tools/seedeval.py <ID> [--name N] [--needs "text"] [--also C02,C03] [--tier quick|thorough]
Takes the uncommitted change + untracked demo left by a sub-agent in the
scratch worktree /tmp/seed/<ID>, confirms in fresh scratch copies of /repo
(outside /repo and /verif) that (a) the repository's own suite passes with the
change, (b) the demonstration fails with it and (c) passes without it, then
runs the property's check (and any --also checks) against the changed copy.
Results are written to /verif/seeded/<name>/ (patch.diff, demo, meta.json)."""
import json, os, shutil, subprocess, sys, tempfile

def sh(cmd, cwd=None, env=None, timeout=1800):
    e = dict(os.environ)
    e.pop("GOTOOLCHAIN", None)
    e["GOFLAGS"] = "-mod=mod"
    if env:
        e.update(env)
    try:
        p = subprocess.run(cmd, shell=True, cwd=cwd, env=e, stdout=subprocess.PIPE, stderr=subprocess.STDOUT, text=True, timeout=timeout)
        return p.returncode, p.stdout
    except subprocess.TimeoutExpired as ex:
        return 124, (ex.stdout or "") + "\nTIMEOUT"

def main():
    a = sys.argv[1:]
    pid = a[0]
    name, needs, also, tier = pid, "", [], "quick"
    wtdir = None
    i = 1
    while i < len(a):
        if a[i] == "--name": name = a[i+1]; i += 1
        elif a[i] == "--needs": needs = a[i+1]; i += 1
        elif a[i] == "--also": also = a[i+1].split(","); i += 1
        elif a[i] == "--tier": tier = a[i+1]; i += 1
        elif a[i] == "--dir": wtdir = a[i+1]; i += 1
        i += 1
    wt = wtdir or ("/tmp/seed/" + name if os.path.isdir("/tmp/seed/" + name) else "/tmp/seed/" + pid)
    out = "/verif/seeded/" + name
    os.makedirs(out, exist_ok=True)
    rc, patch = sh("git diff", cwd=wt)
    open(out + "/patch.diff", "w").write(patch)
    rc, untracked = sh("git ls-files --others --exclude-standard", cwd=wt)
    demos = [u for u in untracked.split() if u.endswith(".go") or u.endswith(".md")]
    for d in demos:
        os.makedirs(os.path.dirname(os.path.join(out, "demo", d)) or ".", exist_ok=True)
        shutil.copy(os.path.join(wt, d), os.path.join(out, "demo", d))
    scratch = tempfile.mkdtemp(prefix="seedeval.", dir="/tmp")
    meta = {"property": pid, "name": name, "needs_to_manifest": needs, "demo_files": demos, "ran": []}
    try:
        withc, without = scratch + "/with", scratch + "/without"
        for d in (withc, without):
            subprocess.run(["rsync", "-a", "--exclude", ".git", "/repo/", d + "/"], check=True)
            for f in demos:
                os.makedirs(os.path.dirname(os.path.join(d, f)) or ".", exist_ok=True)
                shutil.copy(os.path.join(wt, f), os.path.join(d, f))
        rc, o = sh("patch -p1 -s < %s/patch.diff" % out, cwd=withc)
        if rc != 0:
            meta["error"] = "patch does not apply to /repo HEAD: " + o[-500:]
            json.dump(meta, open(out + "/meta.json", "w"), indent=1)
            print(meta["error"]); return
        # (a) suite with the change (demo excluded)
        suite_ok = True
        for m in [".", "otel", "stores/sqlite", "stores/durablestream"]:
            rc, o = sh("go test -vet=off -count=1 -timeout 300s -skip 'Seeded|seeded' ./...", cwd=os.path.join(withc, m))
            if rc != 0 and "TestAsyncSequentialHandlerContextCancelled" in o and "test timed out" in o:
                # the repository's own flaky test (hangs in ~1/300 runs on the pristine tree too): run again
                meta.setdefault("notes", []).append("suite re-run once: TestAsyncSequentialHandlerContextCancelled hung (pre-existing flake)")
                rc, o = sh("go test -vet=off -count=1 -timeout 300s -skip 'Seeded|seeded' ./...", cwd=os.path.join(withc, m))
            meta["ran"].append({"cmd": "go test -vet=off -count=1 -skip Seeded ./... (in %s, with change)" % m, "rc": rc})
            if rc != 0:
                suite_ok = False
                meta.setdefault("suite_failures", []).append(o[-1500:])
        meta["suite_passes_with_change"] = suite_ok
        # (b)/(c) demo
        demo_dirs = sorted(set(os.path.dirname(d) or "." for d in demos if d.endswith("_test.go")))
        res = {}
        for label, root in (("with", withc), ("without", without)):
            ok_all = True
            for dd in demo_dirs:
                mod = dd
                rc, o = sh("go test -vet=off -count=1 -timeout 600s -run 'Seeded|seeded' .", cwd=os.path.join(root, dd))
                meta["ran"].append({"cmd": "go test -run Seeded . (in %s, %s change)" % (dd, label), "rc": rc, "tail": o[-600:]})
                if rc != 0:
                    ok_all = False
            res[label] = ok_all
        meta["demo_fails_with_change"] = not res.get("with", True)
        meta["demo_passes_without_change"] = res.get("without", False)
        # checks
        det = {}
        for prop in [pid] + [x for x in also if x and x != pid]:
            env = {"VERIF_REPO": withc, "VERIF_REPLAY_DIR": scratch + "/replays", "VERIF_EVIDENCE_DIR": scratch + "/evidence", "GOTOOLCHAIN": "local"}
            rc, o = sh("/verif/check %s %s" % (prop, tier), cwd="/verif", env=env, timeout=3600)
            hit = rc == 1 and "VIOLATION property=" in o
            det[prop] = {"tier": tier, "detected": hit, "rc": rc, "tail": o[-1500:] if hit else o[-600:]}
            meta["ran"].append({"cmd": "VERIF_REPO=<copy with change> ./check %s %s" % (prop, tier), "rc": rc})
        meta["checks"] = det
    finally:
        shutil.rmtree(scratch, ignore_errors=True)
    json.dump(meta, open(out + "/meta.json", "w"), indent=1)
    print("%s: suite_passes=%s demo_fails_with=%s demo_passes_without=%s detected=%s" % (
        name, meta.get("suite_passes_with_change"), meta.get("demo_fails_with_change"), meta.get("demo_passes_without_change"),
        {k: v["detected"] for k, v in meta.get("checks", {}).items()}))

main()
