#!/usr/bin/env python3
"""usage: tools/mutants.py [-j N] [--baseline] [name-or-prop-filter ...]
Builds each mutant of mutants/specs.py in a scratch copy of /repo under /tmp,
runs the quick check of every property it is expected to break against that
copy, and prints DETECTED/MISSED.  The scratch copy is removed afterwards."""
import os, shutil, subprocess, sys, tempfile, concurrent.futures as cf
sys.path.insert(0, "/verif/mutants")
from specs import M

def run_one(mu, baseline):
    scratch = tempfile.mkdtemp(prefix="mut.", dir="/tmp")
    out = []
    try:
        repo = os.path.join(scratch, "repo")
        subprocess.run(["rsync", "-a", "--exclude", ".git", "/repo/", repo + "/"], check=True)
        for (f, old, new) in mu["edits"]:
            p = os.path.join(repo, f)
            s = open(p).read()
            if s.count(old) != 1:
                return ["MUTANT %s: EDIT-FAILED (%d matches in %s)" % (mu["name"], s.count(old), f)]
            open(p, "w").write(s.replace(old, new))
        d = subprocess.run(["diff", "-ruN", "--exclude=.git", "/repo", repo], stdout=subprocess.PIPE, text=True).stdout
        d = d.replace("/repo/", "a/").replace(repo + "/", "b/")
        open("/verif/mutants/%s.patch" % mu["name"], "w").write(d)
        env = dict(os.environ, GOFLAGS="-mod=mod", GOTOOLCHAIN="auto")
        b = subprocess.run("go build ./... ", shell=True, cwd=repo, env=env, stdout=subprocess.PIPE, stderr=subprocess.STDOUT, text=True)
        if b.returncode != 0:
            return ["MUTANT %s: DOES-NOT-COMPILE\n%s" % (mu["name"], b.stdout[-500:])]
        if baseline:
            ok = True
            for m in [".", "otel", "stores/durablestream", "stores/sqlite"]:
                r = subprocess.run("go test -vet=off -count=1 -timeout 25m ./...", shell=True, cwd=os.path.join(repo, m), env=env, stdout=subprocess.PIPE, stderr=subprocess.STDOUT, text=True)
                if r.returncode != 0:
                    ok = False
                    out.append("  baseline FAILS in %s: %s" % (m, [l for l in r.stdout.splitlines() if l.startswith("--- FAIL")][:3]))
            out.append("  baseline: %s" % ("pass" if ok else "FAIL"))
        for prop in mu["props"]:
            env2 = dict(os.environ, VERIF_REPO=repo, VERIF_REPLAY_DIR=os.path.join(scratch, "replays"), VERIF_EVIDENCE_DIR=os.path.join(scratch, "evidence"))
            try:
                r = subprocess.run(["/verif/check", prop, "quick"], env=env2, stdout=subprocess.PIPE, stderr=subprocess.STDOUT, text=True, timeout=600)
            except subprocess.TimeoutExpired:
                out.insert(0, "MUTANT %-32s %s: CHECK-HUNG (>600s)" % (mu["name"], prop))
                continue
            det = r.returncode == 1 and "VIOLATION property=" in r.stdout
            if mu.get("negative"):
                out.insert(0, "CONTROL %-31s %s: %s" % (mu["name"], prop, "FALSE-ALARM" if det else "stays green (ok)" if r.returncode == 0 else "rc=%d" % r.returncode))
                continue
            out.insert(0, "MUTANT %-32s %s: %s" % (mu["name"], prop, "DETECTED" if det else "MISSED (rc=%d)" % r.returncode))
            if not det:
                out.append("  " + "\n  ".join(r.stdout.strip().splitlines()[-4:]))
    finally:
        shutil.rmtree(scratch, ignore_errors=True)
    return out

def main():
    args = sys.argv[1:]
    j = 4
    baseline = False
    filt = []
    i = 0
    while i < len(args):
        if args[i] == "-j":
            j = int(args[i + 1]); i += 1
        elif args[i] == "--baseline":
            baseline = True
        else:
            filt.append(args[i])
        i += 1
    sel = [m for m in M if not filt or any(f == m["name"] or f in m["props"] or (f.endswith("*") and m["name"].startswith(f[:-1])) for f in filt)]
    if filt and all(f.startswith("C") and len(f) == 3 for f in filt):
        for m in sel:
            m["props"] = [p for p in m["props"] if p in filt]
    with cf.ThreadPoolExecutor(j) as ex:
        for res in ex.map(lambda m: run_one(m, baseline), sel):
            print("\n".join(res), flush=True)

main()
